(** C15: loading terminates for every finite set of module files.

    The loader splices the tokens of an imported module into the token vector, so "the module being loaded" is not a
    notion the parser has; what bounds the nesting is the cycle test on the import name.  The proof attaches to every
    token of the vector a ghost lineage -- the (import name, file) pairs of the imports whose expansion produced it,
    innermost first -- and shows:
      - along the vector lineages only shrink (each is a suffix of the one before);
      - an identifier right after the module keyword carries the innermost import name of its lineage as a proper
        '/'-prefix (the renaming of C14 does that, and a module may not end with the module keyword);
      - every name of a lineage is still registered for its file, and the files of one lineage are distinct files
        that exist.
    An accepted import under the name [a] from lineage [ln] therefore has all files of [ln] on its chain, its own file
    is a new one, and the lineage [(a, file) :: ln] of the inserted tokens is again distinct: lineages are never
    longer than the number of files.  With weight (L+1)^(N - depth) per token (L bounds the tokens of a file, N the
    number of files) every statement, an import included, lowers the total weight. *)
From Pakhi Require Import Base Float64 Syntax Tables Lexer Parser.
From Pakhi.Proofs Require Import Assoc TableFacts LexTotal ParseTotal Modules ImportChain ParseTerm LexBody.
From Coq Require Import Lia.
Local Open Scope nat_scope.

Definition lin := list (text * text).
Definition spre (p a : text) : Prop := exists r, a = p ++ c_slash :: r.

Lemma spre_trans p q a : spre p q -> spre q a -> spre p a.
Proof. intros [r1 ->] [r2 ->]. exists (r1 ++ c_slash :: r2). rewrite <- app_assoc. reflexivity. Qed.
Lemma spre_neq p a : spre p a -> p <> a.
Proof. intros [r ->] H. apply (f_equal (@length _)) in H. rewrite app_length in H. simpl in H. lia. Qed.

Definition suffix {A} (a b : list A) : Prop := exists pre, b = pre ++ a.
Lemma suffix_refl {A} (a : list A) : suffix a a. Proof. exists []. reflexivity. Qed.
Lemma suffix_trans {A} (a b c : list A) : suffix a b -> suffix b c -> suffix a c.
Proof. intros [p ->] [q ->]. exists (q ++ p). rewrite app_assoc. reflexivity. Qed.
Lemma suffix_cons {A} (a b : list A) x : suffix a b -> suffix a (x :: b).
Proof. intros [p ->]. exists (x :: p). reflexivity. Qed.
Lemma suffix_In {A} (a b : list A) x : suffix a b -> In x a -> In x b.
Proof. intros [p ->] H. apply in_or_app. right. exact H. Qed.

Fixpoint lin_sorted (ln : lin) : Prop :=
  match ln with [] => True | e :: r => Forall (fun e' => spre (fst e') (fst e)) r /\ lin_sorted r end.

Definition named (ln : lin) (t : token) : Prop := match ln with [] => True | e :: _ => spre (fst e) (t_lexeme t) end.

Fixpoint seq_ok (l : list (token * lin)) : Prop :=
  match l with
  | [] => True
  | x :: r =>
      match r with
      | [] => True
      | y :: _ => suffix (snd y) (snd x) /\
                  (tk_is (t_kind (fst x)) TImport = true ->
                   snd y = snd x /\ (tk_is (t_kind (fst y)) TIdent = true -> named (snd x) (fst y)))
      end /\ seq_ok r
  end.

Lemma seq_ok_tl l : seq_ok l -> seq_ok (tl l).
Proof. destruct l as [|x r]; [auto|]. cbn [seq_ok tl]. intros [_ H]. exact H. Qed.

Lemma seq_ok_suffixes : forall r x, seq_ok (x :: r) -> Forall (fun y => suffix (snd y) (snd x)) r.
Proof.
  induction r as [|y r IH]; intros x H; [constructor|].
  cbn [seq_ok] in H. destruct H as [[Hs _] Hr]. constructor; [exact Hs|].
  eapply Forall_impl; [|exact (IH y Hr)]. intros z Hz. cbv beta in Hz. exact (suffix_trans _ _ _ Hz Hs).
Qed.

Lemma skipn_S_tl {A} : forall k (l : list A), skipn (S k) l = tl (skipn k l).
Proof. induction k as [|k IH]; intros [|x l]; try reflexivity. change (skipn (S k) l = tl (skipn k l)). apply IH. Qed.

Lemma skipn_incl {A} : forall k (l : list A) x, In x (skipn k l) -> In x l.
Proof. induction k as [|k IH]; intros [|y l] x H; try exact H. right. apply IH. exact H. Qed.

(* identifiers after the module keyword in renamed tokens carry the import name *)
Fixpoint adj_ok (alias : text) (prev_imp : bool) (l : list token) : Prop :=
  match l with
  | [] => True
  | t :: r => (prev_imp = true -> tk_is (t_kind t) TIdent = true -> spre alias (t_lexeme t)) /\ adj_ok alias (tk_is (t_kind t) TImport) r
  end.

Lemma prepend_adj alias : forall ts flag, adj_ok alias flag (prepend_names ts alias flag).
Proof.
  induction ts as [|t r IH]; intros flag; [exact I|]. cbn [prepend_names adj_ok]. split.
  - intros -> Hid. destruct (tk_is (t_kind t) TIdent) eqn:E.
    + cbn [negb andb t_lexeme]. exists (t_lexeme t). reflexivity.
    + rewrite E in Hid. discriminate.
  - assert (Ek : t_kind (if tk_is (t_kind t) TIdent
                         then if negb flag && (is_builtin (t_lexeme t) || text_eqb (t_lexeme t) platform_const_parser) then t
                              else mkTok (t_kind t) (alias ++ [c_slash] ++ t_lexeme t) (t_line t) (t_file t)
                         else t) = t_kind t).
    { destruct (tk_is (t_kind t) TIdent); [|reflexivity]. destruct (negb flag && _); reflexivity. }
    rewrite Ek. apply IH.
Qed.

Lemma seq_ok_splice alias nl after_l :
  (match nl with [] => False | e :: _ => fst e = alias end) ->
  seq_ok after_l -> (match after_l with [] => True | x :: _ => suffix (snd x) nl end) ->
  forall ins flag, adj_ok alias flag ins -> tk_is (t_kind (last ins (Lexer.eot []))) TImport = false ->
  seq_ok (map (fun t => (t, nl)) ins ++ after_l).
Proof.
  intros Hnl Ha Hh. induction ins as [|t ins IH]; intros flag Hadj Hlast; [exact Ha|].
  cbn [map app]. destruct ins as [|t2 ins].
  - cbn [map app]. cbn [last] in Hlast. destruct after_l as [|x r]; [cbn; auto|].
    cbn [seq_ok]. split; [|exact Ha]. cbn [snd fst]. split; [exact Hh|]. intros Hi. rewrite Hi in Hlast. discriminate.
  - cbn [adj_ok] in Hadj. destruct Hadj as [_ Hadj].
    assert (Hl2 : tk_is (t_kind (last (t2 :: ins) (Lexer.eot []))) TImport = false) by exact Hlast.
    specialize (IH _ Hadj Hl2). cbn [map app] in IH |- *. cbn [seq_ok] in IH |- *. split; [|exact IH].
    cbn [snd fst]. split; [apply suffix_refl|]. intros Hi. split; [reflexivity|]. intros Hid.
    cbn [adj_ok] in Hadj. destruct Hadj as [Hn _]. specialize (Hn Hi Hid).
    destruct nl as [|e nl']; [contradiction|]. cbn [named]. rewrite Hnl. exact Hn.
Qed.

Section Loader.
Variable fs : text -> option text.
Variable cwd main_path : text.
(* a finite set of module files: the keys of the readable files are among [known], their texts are shorter than [L] *)
Variable known : list text.
Variable L : nat.
Hypothesis fs_known : forall p src, fs p = Some src -> In (same_file_key p) known /\ S (length src) <= L.

Definition lin_ok (mods : list (text * text)) (ln : lin) : Prop :=
  lin_sorted ln /\ Forall (fun e => assoc_text (fst e) mods = Some (snd e)) ln /\ NoDup (map snd ln) /\ incl (map snd ln) known.

Lemma lin_ok_suffix mods a b : suffix a b -> lin_ok mods b -> lin_ok mods a.
Proof.
  intros [pre ->]. induction pre as [|x pre IH]; [auto|].
  intros (Hs & Hr & Hn & Hi). apply IH. cbn [app lin_sorted map] in *.
  split; [exact (proj2 Hs)|]. split; [inversion Hr; assumption|]. split; [inversion Hn; assumption|].
  intros y Hy. apply Hi. right. exact Hy.
Qed.

Lemma lin_ok_depth mods ln : lin_ok mods ln -> length ln <= length known.
Proof. intros (_ & _ & Hn & Hi). rewrite <- (map_length snd). apply NoDup_incl_length; assumption. Qed.

Definition w (d : nat) : nat := (S L) ^ (length known - d).
Definition mu (l : list (token * lin)) : nat := list_sum (map (fun x => w (length (snd x))) l).

Lemma w_pos d : 1 <= w d.
Proof. unfold w. generalize (length known - d). intros n. induction n as [|n IH]; [simpl; lia|]. rewrite Nat.pow_succ_r'. nia. Qed.
Lemma w_step d : d < length known -> w d = S L * w (S d).
Proof. intros H. unfold w. replace (length known - d) with (S (length known - S d)) by lia. apply Nat.pow_succ_r'. Qed.

Lemma mu_cons x l : mu (x :: l) = w (length (snd x)) + mu l. Proof. reflexivity. Qed.
Lemma mu_app a b : mu (a ++ b) = mu a + mu b.
Proof. unfold mu. rewrite map_app, list_sum_app. reflexivity. Qed.
Lemma mu_const ins nl : mu (map (fun t : token => (t, nl)) ins) = length ins * w (length nl).
Proof. induction ins as [|t r IH]; [reflexivity|]. cbn [map]. rewrite mu_cons, IH. cbn [snd length]. lia. Qed.
Lemma mu_len l : length l <= mu l.
Proof. induction l as [|x l IH]; [simpl; lia|]. rewrite mu_cons. pose proof (w_pos (length (snd x))). simpl. lia. Qed.
Lemma mu_skipn : forall k l, mu (skipn k l) + (length l - length (skipn k l)) <= mu l.
Proof.
  induction k as [|k IH]; intros l; [simpl; lia|]. destruct l as [|x l]; [simpl; lia|].
  cbn [skipn length]. rewrite mu_cons. specialize (IH l). pose proof (w_pos (length (snd x))).
  assert (length (skipn k l) <= length l) by (rewrite skipn_length; lia). lia.
Qed.

Definition Inv (s : pstate) (l : list (token * lin)) : Prop :=
  map fst l = ps_rest s /\ seq_ok l /\ Forall (fun x => lin_ok (ps_mods s) (snd x)) l.

Lemma Inv_len s l : Inv s l -> len s = length l.
Proof. intros (H & _). unfold len. rewrite <- H, map_length. reflexivity. Qed.

Lemma Inv_adv s l : Inv s l -> Inv (adv s) (tl l).
Proof.
  intros (Hm & Hs & Hf). unfold adv. destruct (ps_rest s) as [|t r] eqn:E.
  - destruct l; [|discriminate]. split; [rewrite E; reflexivity|]. split; [exact I|constructor].
  - destruct l as [|x l]; [discriminate|]. cbn [map] in Hm. injection Hm as _ Hm. cbn [tl].
    split; [exact Hm|]. split; [apply (seq_ok_tl (x :: l)); exact Hs|]. cbn [ps_mods]. inversion Hf; assumption.
Qed.

Lemma Inv_iter : forall k s l, Inv s l -> Inv (Nat.iter k adv s) (skipn k l).
Proof. induction k as [|k IH]; intros s l H; [exact H|]. change (Nat.iter (S k) adv s) with (adv (Nat.iter k adv s)). rewrite skipn_S_tl. apply Inv_adv, IH, H. Qed.

Lemma iter_mods : forall k s, ps_mods (Nat.iter k adv s) = ps_mods s.
Proof. induction k as [|k IH]; intros s; [reflexivity|]. change (Nat.iter (S k) adv s) with (adv (Nat.iter k adv s)). rewrite <- (IH s). generalize (Nat.iter k adv s). intros s'. unfold adv. destruct (ps_rest s'); reflexivity. Qed.
Lemma iter_last : forall k s, ps_last (Nat.iter k adv s) = ps_last s.
Proof. induction k as [|k IH]; intros s; [reflexivity|]. change (Nat.iter (S k) adv s) with (adv (Nat.iter k adv s)). rewrite <- (IH s). generalize (Nat.iter k adv s). intros s'. unfold adv. destruct (ps_rest s'); reflexivity. Qed.

(* the import statement proper *)
Lemma import_tail_spec alias module_path s1 s2 : import_tail fs cwd main_path alias module_path s1 = Ok s2 ->
  let final := module_file_path main_path module_path in
  exists semi after src toks toks',
    ps_rest s1 = semi :: after /\ fs final = Some src /\ tokenize src final = Ok toks /\ expand_dirname cwd toks final = Ok toks' /\
    existsb (text_eqb (same_file_key final)) (import_chain main_path alias (ps_mods s1)) = false /\
    tk_is (t_kind (last (filter (fun t => negb (tk_is (t_kind t) TEOT)) (prepend_names toks' alias false)) (Lexer.eot []))) TImport = false /\
    s2 = mkPs (semi :: filter (fun t => negb (tk_is (t_kind t) TEOT)) (prepend_names toks' alias false) ++ after) (ps_prev s1)
              (last (semi :: filter (fun t => negb (tk_is (t_kind t) TEOT)) (prepend_names toks' alias false) ++ after) (ps_last s1))
              ((alias, same_file_key final) :: ps_mods s1).
Proof.
  unfold import_tail. destruct (negb (ends_with module_path module_ext)).
  { unfold syntax_here. destruct (at_end s1); discriminate. }
  destruct (existsb _ _) eqn:Ec; [discriminate|].
  destruct (fs (module_file_path main_path module_path)) as [src|] eqn:Ef; [|discriminate].
  destruct (tokenize src _) as [toks| | |] eqn:Et; cbn [bind]; try discriminate.
  destruct (expand_dirname cwd toks _) as [toks'| | |] eqn:Ed; cbn [bind]; try discriminate.
  cbv zeta. destruct (tk_is (t_kind (last _ _)) TImport) eqn:El; [discriminate|].
  destruct (ps_rest s1) as [|semi after] eqn:Er; [discriminate|].
  intros H; injection H as <-. exists semi, after, src, toks, toks'. auto 10.
Qed.

Lemma import_tail_fin alias module_path s1 : fin (import_tail fs cwd main_path alias module_path s1).
Proof.
  unfold import_tail. destruct (negb _); [apply fin_syntax_here|]. destruct (existsb _ _); [exact I|].
  destruct (fs _) as [src|]; [|exact I].
  pose proof (lexer_total src (module_file_path main_path module_path)) as Hl.
  destruct (tokenize src _) as [toks| | |]; cbn [bind]; try exact I; try contradiction.
  unfold expand_dirname. destruct (existsb _ toks); cbn [bind].
  - unfold dir_string. destruct (path_parent _); cbn [bind]; [|exact I]. cbv zeta. destruct (tk_is _ TImport); [exact I|]. destruct (ps_rest s1); exact I.
  - cbv zeta. destruct (tk_is _ TImport); [exact I|]. destruct (ps_rest s1); exact I.
Qed.

Lemma import_path_rest_fin : forall f acc s, eot s -> len s + 1 <= f -> fin (import_path_rest f acc s).
Proof.
  induction f as [|f IH]; intros acc s He Hf; [lia|]. cbn [import_path_rest].
  destruct (hk s) eqn:Ek; try apply fin_syntax_here; try exact I.
  all: assert (Hne : at_end s = false) by (destruct (at_end s) eqn:Ea; [rewrite (at_end_kind s He Ea) in Ek; discriminate|reflexivity]).
  all: destruct (adv_len s) as [_ Hc]; specialize (Hc Hne); apply IH; [apply eot_adv; exact He|lia].
Qed.

(* the names of a lineage are proper '/'-prefixes of the import name read after the module keyword *)
Lemma below_of_named ln t : lin_sorted ln -> named ln t -> Forall (fun e => spre (fst e) (t_lexeme t)) ln.
Proof.
  destruct ln as [|e r]; [constructor|]. cbn [lin_sorted named]. intros [Hr _] Hn. constructor; [exact Hn|].
  eapply Forall_impl; [|exact Hr]. intros e' H. cbv beta in H. exact (spre_trans _ _ _ H Hn).
Qed.

Lemma lin_ok_register mods ln alias k : lin_ok mods ln -> Forall (fun e => spre (fst e) alias) ln -> lin_ok ((alias, k) :: mods) ln.
Proof.
  intros (Hs & Hr & Hn & Hi) Hb. split; [exact Hs|]. split; [|split; assumption].
  rewrite Forall_forall in *. intros e He. cbn [assoc_text]. rewrite (text_eqb_neq (fst e) alias) by (apply spre_neq, Hb, He). apply Hr, He.
Qed.

Lemma chain_has_lineage mods ln alias : lin_ok mods ln -> Forall (fun e => spre (fst e) alias) ln ->
  incl (map snd ln) (import_chain main_path alias mods).
Proof.
  intros (_ & Hr & _ & _) Hb k Hk. apply in_map_iff in Hk as (e & <- & He).
  rewrite Forall_forall in Hr, Hb. destruct (Hb e He) as [r ->]. unfold import_chain. right.
  apply in_flat_map. exists (fst e). split; [apply (prefix_is_slash_prefix (fst e) r [])|]. rewrite (Hr e He). left. reflexivity.
Qed.

(* the state after an accepted import, past the ';' *)
Lemma import_accepted f s l s2 :
  inv s -> eot s -> Inv s l -> hk s = TImport -> tk_is (hk (adv s)) TIdent = true ->
  named_module_import fs cwd main_path f (t_lexeme (head (adv s))) (adv s) = Ok s2 ->
  exists l2, inv (adv s2) /\ eot (adv s2) /\ Inv (adv s2) l2 /\ mu l2 < mu l.
Proof.
  intros Hinv He HI Hk Hid H.
  (* the first two tokens *)
  destruct HI as (Hm & Hs & Hf).
  assert (Hne : ps_rest s <> []) by (intros E; unfold hk, head in Hk; rewrite E in Hk; rewrite He in Hk; discriminate).
  destruct l as [|[t0 ln] l]; [destruct (ps_rest s); [congruence|discriminate]|].
  assert (Ht0 : t_kind t0 = TImport).
  { unfold hk, head in Hk. destruct (ps_rest s) as [|u r]; [congruence|]. cbn [map fst] in Hm. injection Hm as -> _. exact Hk. }
  assert (Hne1 : ps_rest (adv s) <> []).
  { intros E. unfold hk, head in Hid. rewrite E in Hid. replace (ps_last (adv s)) with (ps_last s) in Hid by (unfold adv; destruct (ps_rest s); reflexivity).
    rewrite He in Hid. discriminate. }
  pose proof (Inv_adv s _ (conj Hm (conj Hs Hf))) as HI1. cbn [tl] in HI1.
  destruct l as [|[t1 ln1] l]; [destruct HI1 as (E & _); cbn in E; congruence|].
  assert (Ht1 : head (adv s) = t1).
  { destruct HI1 as (E & _). unfold head. destruct (ps_rest (adv s)); [congruence|]. cbn [map fst] in E. injection E as -> _. reflexivity. }
  pose proof Hs as Hs0. cbn [seq_ok] in Hs0. destruct Hs0 as [[_ Himp] _]. cbn [fst snd] in Himp.
  rewrite Ht0 in Himp. destruct (Himp eq_refl) as [-> Hnamed]. clear Himp.
  unfold hk in Hid. rewrite Ht1 in Hid, H. specialize (Hnamed Hid).
  set (alias := t_lexeme t1) in *.
  assert (Hlk : lin_ok (ps_mods s) ln) by (inversion Hf; assumption).
  pose proof (below_of_named ln t1 (proj1 Hlk) Hnamed) as Hbelow. fold alias in Hbelow.
  pose proof (seq_ok_suffixes _ _ Hs) as Hsuf. cbn [snd] in Hsuf.
  (* the path tokens *)
  rewrite named_module_import_unfold in H. cbv zeta in H.
  set (s0 := adv (adv (adv s))) in *.
  destruct (match hk s0 with TStr p => import_path_rest f p (adv s0) | _ => syntax_here s0 end) as [[module_path s1]| | |] eqn:Ep; cbn [bind] in H; try discriminate.
  assert (Hadv : advances s s1 /\ tk_is (hk s1) TSemi = true).
  { destruct (hk s0); try (exfalso; eapply syntax_here_not_ok; exact Ep).
    destruct (import_path_rest_props f s3 (adv s0)) as [_ Hp]. destruct (Hp _ _ Ep) as [Ha Hsemi]. split; [|exact Hsemi].
    apply advances_adv_l, advances_adv_l, advances_adv_l, advances_adv_l. exact Ha. }
  destruct Hadv as [[k Hk1] Hsemi].
  assert (Hk4 : exists k', k = S k').
  { destruct k as [|k']; [|eauto]. cbn in Hk1. subst s1. unfold hk in Hsemi, Hk. rewrite Hk in Hsemi. discriminate. }
  destruct Hk4 as [k' ->].
  pose proof (Inv_iter (S k') s _ (conj Hm (conj Hs Hf))) as HIs. rewrite <- Hk1 in HIs.
  change (skipn (S k') ((t0, ln) :: (t1, ln) :: l)) with (skipn k' ((t1, ln) :: l)) in HIs.
  assert (Hi1 : inv s1) by (rewrite Hk1; eapply inv_advances; [exists (S k'); reflexivity|exact Hinv]).
  destruct (import_tail_spec _ _ _ _ H) as (semi & after & src & toks & toks' & Er & Ef & Et & Ex & Ec & El & ->).
  set (final := module_file_path main_path module_path) in *.
  destruct (inserted_tokens cwd src final toks toks' alias Et Ex) as (body' & Hbl & Eins). rewrite Eins in *.
  set (ins := prepend_names body' alias false) in *.
  destruct (fs_known _ _ Ef) as [Hkn HL].
  destruct (inv_semi_not_last s1 Hi1 Hsemi) as (semi' & after' & Er' & Hane & Hlast2). rewrite Er in Er'. injection Er' as <- <-.
  assert (E2 : last (semi :: ins ++ after) (ps_last s1) = ps_last s1).
  { change (semi :: ins ++ after) with ((semi :: ins) ++ after). rewrite last_app_nonempty by exact Hane. exact Hlast2. }
  rewrite E2.
  assert (Hl1 : ps_last s1 = ps_last s) by (rewrite Hk1; apply iter_last).
  assert (Hm1 : ps_mods s1 = ps_mods s) by (rewrite Hk1; apply iter_mods).
  (* the annotated vector after the splice *)
  destruct HIs as (Hma & Hsa & Hfa). rewrite Er in Hma.
  destruct (skipn k' ((t1, ln) :: l)) as [|[semi0 lns] after_l] eqn:Ela; [discriminate|]. cbn [map fst] in Hma. injection Hma as -> Hma.
  set (nl := (alias, same_file_key final) :: ln).
  exists (map (fun t => (t, nl)) ins ++ after_l).
  assert (Hafter_in : forall x, In x after_l -> suffix (snd x) ln).
  { intros x Hx. assert (Hx2 : In x ((t1, ln) :: l)).
    { apply (skipn_incl k'). rewrite Ela. right. exact Hx. }
    rewrite Forall_forall in Hsuf. exact (Hsuf x Hx2). }
  assert (Hnew : lin_ok ((alias, same_file_key final) :: ps_mods s) nl).
  { pose proof (lin_ok_register _ _ alias (same_file_key final) Hlk Hbelow) as (Hs' & Hr' & Hn' & Hi').
    split; [cbn [lin_sorted nl]; split; [exact Hbelow|exact Hs']|].
    split; [constructor; [cbn [fst snd assoc_text]; rewrite text_eqb_refl; reflexivity|exact Hr']|].
    split.
    - cbn [map snd nl]. constructor; [|exact Hn']. intros Hin.
      pose proof (chain_has_lineage _ _ alias Hlk Hbelow _ Hin) as Hc. rewrite Hm1 in Ec.
      assert (Ect : existsb (text_eqb (same_file_key final)) (import_chain main_path alias (ps_mods s)) = true)
        by (apply existsb_exists; eexists; split; [exact Hc|apply text_eqb_refl]).
      congruence.
    - intros y [<-|Hy]; [exact Hkn|apply Hi'; exact Hy]. }
  unfold adv. cbn [ps_rest ps_prev ps_last ps_mods].
  split; [|split; [|split]].
  - (* inv *) unfold inv. cbn [ps_rest ps_last]. destruct Hi1 as [_ Hns]. split; [|exact Hns]. rewrite last_app_nonempty by exact Hane. exact Hlast2.
  - unfold eot. cbn [ps_last]. rewrite Hl1. exact He.
  - (* Inv *) unfold Inv. cbn [ps_rest ps_mods]. rewrite Hm1. split; [|split].
    + rewrite map_app, map_map. cbn [fst]. f_equal; [apply map_id|exact Hma].
    + apply (seq_ok_splice alias nl after_l) with (flag := false).
      * reflexivity.
      * exact (seq_ok_tl _ Hsa).
      * destruct after_l as [|x r]; [exact I|]. apply suffix_cons. apply Hafter_in. left. reflexivity.
      * apply prepend_adj.
      * exact El.
    + apply Forall_app. split.
      * apply Forall_forall. intros x Hx. apply in_map_iff in Hx as (t & <- & _). exact Hnew.
      * apply Forall_forall. intros x Hx. pose proof (Hafter_in x Hx) as Hsx.
        apply (lin_ok_suffix _ _ ln Hsx). apply lin_ok_register; assumption.
  - (* the weight *)
    rewrite mu_app, mu_const. rewrite !mu_cons. cbn [snd].
    pose proof (lin_ok_depth _ _ Hnew) as Hd. cbn [length nl] in Hd.
    pose proof (w_step (length ln) ltac:(lia)) as Ew. cbn [length nl].
    assert (Hli : length ins <= L) by (unfold ins; rewrite prepend_names_length; lia).
    pose proof (mu_skipn k' ((t1, ln) :: l)) as M. rewrite Ela in M. rewrite !mu_cons in M. cbn [snd] in M.
    pose proof (w_pos (length lns)).
    pose proof (w_pos (S (length ln))).
    assert (length ins * w (S (length ln)) <= L * w (S (length ln))) by (apply Nat.mul_le_mono_r; exact Hli).
    lia.
Qed.

(** every statement, an import statement included, keeps the invariant and -- unless it is the end marker -- lowers the weight *)
Theorem pstmt_progress_all : forall f s l st s1, inv s -> eot s -> Inv s l -> pstmt fs cwd main_path f s = Ok (st, s1) ->
  exists l1, inv s1 /\ eot s1 /\ Inv s1 l1 /\ mu l1 <= mu l /\ match st with FEOS _ => True | _ => mu l1 < mu l end.
Proof.
  induction f as [|f IH]; intros s l st s1 Hinv He HI H; [discriminate|].
  assert (Hdec : hk s = TComment \/ hk s = TImport \/ (hk s <> TComment /\ hk s <> TImport))
    by (destruct (hk s); solve [left; reflexivity | right; left; reflexivity | right; right; split; discriminate]).
  destruct Hdec as [Ec|[Ei|[Hnc Hni]]].
  - (* comment *)
    rewrite (pstmt_comment fs cwd main_path f s Ec) in H.
    destruct (pos_here s) as [p| | |] eqn:Ep; cbn [bind] in H; try discriminate.
    apply pos_here_some in Ep.
    destruct (IH (adv s) (tl l) st s1 (inv_adv s Hinv) (eot_adv s He) (Inv_adv s l HI) H) as (l1 & H1 & H2 & H3 & H4 & _).
    exists l1. split; [exact H1|]. split; [exact H2|]. split; [exact H3|].
    assert (Hlt : mu (tl l) < mu l).
    { destruct l as [|x l]; [apply Inv_len in HI; apply at_end_len in HI; congruence|]. cbn [tl]. rewrite mu_cons. pose proof (w_pos (length (snd x))). lia. }
    split; [lia|]. destruct st; try exact I; lia.
  - (* import *)
    cbn [pstmt] in H. destruct (pos_here s) as [p| | |] eqn:Ep; cbn [bind] in H; try discriminate.
    rewrite Ei in H. cbv zeta in H.
    destruct (tk_is (hk (adv s)) TIdent) eqn:Eid.
    2:{ exfalso. destruct (hk (adv s)); try discriminate Eid; eapply syntax_here_not_ok; exact H. }
    assert (H' : (do s2 <- named_module_import fs cwd main_path f (t_lexeme (head (adv s))) (adv s); pstmt fs cwd main_path f (adv s2)) = Ok (st, s1))
      by (destruct (hk (adv s)); try discriminate Eid; exact H).
    destruct (named_module_import fs cwd main_path f (t_lexeme (head (adv s))) (adv s)) as [s2| | |] eqn:En; cbn [bind] in H'; try discriminate.
    destruct (import_accepted f s l s2 Hinv He HI Ei Eid En) as (l2 & Hi2 & He2 & HI2 & Hlt).
    destruct (IH (adv s2) l2 st s1 Hi2 He2 HI2 H') as (l1 & H1 & H2 & H3 & H4 & _).
    exists l1. split; [exact H1|]. split; [exact H2|]. split; [exact H3|]. split; [lia|]. destruct st; try exact I; lia.
  - (* any other statement: only advances *)
    destruct (pstmt_plain_progress fs cwd main_path f s st s1 He Hni Hnc H) as [[k Hk] Hl].
    exists (skipn k l). subst s1.
    split; [eapply inv_advances; [exists k; reflexivity|exact Hinv]|].
    split; [eapply eot_advances; [exists k; reflexivity|exact He]|].
    pose proof (Inv_iter k s l HI) as HIk. split; [exact HIk|].
    pose proof (mu_skipn k l) as M. pose proof (Inv_len _ _ HIk) as L1. pose proof (Inv_len _ _ HI) as L0.
    split; [lia|]. destruct st; try exact I; lia.
Qed.

Theorem pstmt_terminates_all : forall f s l, inv s -> eot s -> Inv s l -> 50 * mu l + 45 <= f -> fin (pstmt fs cwd main_path f s).
Proof.
  induction f as [|f IH]; intros s l Hinv He HI Hf; [lia|].
  pose proof (mu_len l) as Hml. pose proof (Inv_len _ _ HI) as Hlen.
  assert (Hdec : hk s = TComment \/ hk s = TImport \/ (hk s <> TComment /\ hk s <> TImport))
    by (destruct (hk s); solve [left; reflexivity | right; left; reflexivity | right; right; split; discriminate]).
  destruct Hdec as [Ec|[Ei|[Hnc Hni]]].
  - rewrite (pstmt_comment fs cwd main_path f s Ec).
    apply fin_bind; [apply fin_pos_here|]. intros p Ep. apply pos_here_some in Ep.
    apply (IH (adv s) (tl l) (inv_adv s Hinv) (eot_adv s He) (Inv_adv s l HI)).
    destruct l as [|x l]; [apply at_end_len in Hlen; congruence|]. cbn [tl]. rewrite mu_cons in Hf. pose proof (w_pos (length (snd x))). lia.
  - cbn [pstmt]. apply fin_bind; [apply fin_pos_here|]. intros p Ep. rewrite Ei. cbv zeta.
    destruct (tk_is (hk (adv s)) TIdent) eqn:Eid.
    2:{ destruct (hk (adv s)); try discriminate Eid; apply fin_syntax_here. }
    assert (G : fin (do s2 <- named_module_import fs cwd main_path f (t_lexeme (head (adv s))) (adv s); pstmt fs cwd main_path f (adv s2))).
    { apply fin_bind.
      - rewrite named_module_import_unfold. cbv zeta. apply fin_bind; [|intros [mp s1'] _; apply import_tail_fin].
        destruct (hk (adv (adv (adv s)))); try apply fin_syntax_here.
        apply import_path_rest_fin; [apply eot_adv, eot_adv, eot_adv, eot_adv; exact He|].
        pose proof (adv_len s) as [A1 _]. pose proof (adv_len (adv s)) as [A2 _]. pose proof (adv_len (adv (adv s))) as [A3 _].
        pose proof (adv_len (adv (adv (adv s)))) as [A4 _]. lia.
      - intros s2 En. destruct (import_accepted f s l s2 Hinv He HI Ei Eid En) as (l2 & Hi2 & He2 & HI2 & Hlt).
        apply (IH (adv s2) l2 Hi2 He2 HI2). lia. }
    destruct (hk (adv s)); try discriminate Eid; exact G.
  - apply (pstmt_plain_terminates fs cwd main_path f s He Hni Hnc). lia.
Qed.

Theorem pprogram_terminates_all : forall f s l, inv s -> eot s -> Inv s l -> 50 * mu l + 50 <= f -> fin (pprogram fs cwd main_path f s).
Proof.
  induction f as [|f IH]; intros s l Hinv He HI Hf; [lia|]. cbn [pprogram].
  apply fin_bind; [apply (pstmt_terminates_all f s l Hinv He HI); lia|].
  intros [st s1] E. destruct (pstmt_progress_all f s l st s1 Hinv He HI E) as (l1 & Hi1 & He1 & HI1 & Hle & Hlt).
  set (s2 := match hk s1 with TSemi => adv s1 | _ => s1 end).
  assert (H2 : exists l2, inv s2 /\ eot s2 /\ Inv s2 l2 /\ mu l2 <= mu l1).
  { unfold s2. destruct (hk s1); try solve [exists l1; split; [exact Hi1|split; [exact He1|split; [exact HI1|lia]]]].
    exists (tl l1). split; [apply inv_adv; exact Hi1|]. split; [apply eot_adv; exact He1|]. split; [apply Inv_adv; exact HI1|].
    destruct l1 as [|x l1]; [cbn; lia|]. cbn [tl]. rewrite mu_cons. lia. }
  destruct H2 as (l2 & Hi2 & He2 & HI2 & Hle2).
  destruct st; try exact I.
  all: destruct (at_end s1); [exact I|]; cbv zeta; apply fin_bind; [|intros r _; exact I]; apply (IH s2 l2 Hi2 He2 HI2); lia.
Qed.

(** lexer + parser + loader: for the main module's token list, 50 units of fuel per token and per possible nesting
    (L+1)^N, plus 50, always suffice -- whatever the files contain *)
Theorem loader_terminates src :
  forall fuel, 50 * (S (length src) * (S L) ^ length known) + 50 <= fuel -> fin (front fs cwd main_path fuel src).
Proof.
  intros fuel Hf. unfold front. pose proof (lexer_total src main_path) as Hl.
  destruct (tokenize src main_path) as [toks| | |] eqn:Et; cbn [bind]; try exact I; try contradiction.
  unfold parse. destruct toks as [|t0 r] eqn:Etk; [exact I|]. rewrite <- Etk in *.
  destruct (expand_dirname cwd toks main_path) as [toks'| | |] eqn:Ex; cbn [bind]; try exact I.
  2:{ exfalso. unfold expand_dirname in Ex. destruct (existsb _ toks); [|discriminate].
      unfold dir_string in Ex. destruct (path_parent (abs_path cwd main_path)); cbn [bind] in Ex; discriminate. }
  destruct (expand_dirname_shape _ _ _ _ Ex) as [Hlen _].
  destruct (tokenize_last_eot src main_path toks t0 Et) as [Hlast Hne].
  assert (Hk : t_kind (last toks' t0) = TEOT).
  { apply (expand_dirname_last cwd toks main_path toks' t0 Ex Hne). rewrite Hlast. reflexivity. }
  apply (pprogram_terminates_all fuel _ (map (fun t => (t, [])) toks')).
  - unfold inv. cbn [ps_rest ps_last]. split; [apply last_idem|]. rewrite Hk. reflexivity.
  - exact Hk.
  - unfold Inv. cbn [ps_rest ps_mods]. split; [rewrite map_map; apply map_id|]. split.
    + clear. induction toks' as [|t r IH]; [exact I|]. cbn [map seq_ok]. split; [|exact IH].
      destruct r as [|u r]; [exact I|]. cbn [map snd fst]. split; [apply suffix_refl|]. intros _. split; [reflexivity|]. intros _. exact I.
    + apply Forall_forall. intros x Hx. apply in_map_iff in Hx as (t & <- & _). cbn [snd].
      split; [exact I|]. split; [constructor|]. split; [constructor|]. intros y [].
  - rewrite mu_const. cbn [length]. unfold w. rewrite Nat.sub_0_r. rewrite Hlen. nia.
Qed.
End Loader.

(** every file map given by a finite list of (path, text) pairs meets the hypothesis *)
Lemma file_list_is_finite (files : list (text * text)) p src : assoc_text p files = Some src ->
  In (same_file_key p) (map fst files) /\ S (length src) <= S (list_max (map (fun e => length (snd e)) files)).
Proof.
  intros H. apply assoc_text_In in H. split.
  - unfold same_file_key. apply in_map_iff. exists (p, src). split; [reflexivity|exact H].
  - apply le_n_S. assert (F : Forall (fun k => k <= list_max (map (fun e => length (snd e)) files)) (map (fun e => length (snd e)) files))
      by (apply list_max_le; apply le_n).
    rewrite Forall_forall in F. apply F. apply in_map_iff. exists (p, src). split; [reflexivity|exact H].
Qed.

Theorem loading_a_file_list_terminates (files : list (text * text)) cwd main_path src :
  forall fuel, 50 * (S (length src) * (S (S (list_max (map (fun e => length (snd e)) files)))) ^ length files) + 50 <= fuel ->
  fin (front (fun p => assoc_text p files) cwd main_path fuel src).
Proof.
  intros fuel Hf.
  apply (loader_terminates (fun p => assoc_text p files) cwd main_path (map fst files) _ (file_list_is_finite files)).
  rewrite map_length. exact Hf.
Qed.

(* with the no-panic theorem of C12/C15: loading returns a statement list or an error value *)
Theorem loading_a_file_list_returns (files : list (text * text)) cwd main_path src :
  main_path <> [] -> last main_path c_slash <> c_slash ->
  exists fuel, forall fuel', fuel <= fuel' ->
    (exists stmts, front (fun p => assoc_text p files) cwd main_path fuel' src = Ok stmts) \/
    (exists e, front (fun p => assoc_text p files) cwd main_path fuel' src = Err e).
Proof.
  intros H1 H2. eexists. intros fuel' Hf.
  pose proof (loading_a_file_list_terminates files cwd main_path src fuel' Hf) as Hfin.
  pose proof (front_never_panics (fun p => assoc_text p files) cwd main_path fuel' src H1 H2) as Hnp.
  destruct (front _ cwd main_path fuel' src) as [r|e|site|]; [left; eauto|right; eauto|contradiction|contradiction].
Qed.
