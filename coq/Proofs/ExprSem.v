(** C01: what the operators denote in the evaluator model, and how the parser model builds the operator tree. *)
From Pakhi Require Import Base Float64 Syntax Tables Lexer Parser Interp.
From Coq Require Import Lia.
Local Open Scope nat_scope.

Section Sem.
Variable code : list fstmt.
Variable ev : expr -> machine -> outcome (value * machine).
Variable cl : machine -> outcome machine.

(* parentheses are transparent for evaluation *)
Theorem group_transparent e p m : eval_step code ev cl (EGroup e p) m = ev e m.
Proof. reflexivity. Qed.

Definition is_num (v : value) := match v with VNum _ => true | _ => false end.

(* the result of a binary operator on two evaluated operands (left value lv, right value rv), in the state [m2] after both
   operands were evaluated: the table of C01 *)
Definition denote_bin (o : binop) (lv rv : value) (p : pos) (m2 : machine) : outcome (value * machine) :=
  match o, lv, rv with
  | BAdd, VNum a, VNum b => Ok (VNum (f_add a b), m2)
  | BSub, VNum a, VNum b => Ok (VNum (f_sub a b), m2)
  | BMul, VNum a, VNum b => Ok (VNum (f_mul a b), m2)
  | BDiv, VNum a, VNum b => Ok (VNum (f_div a b), m2)
  | BRem, VNum a, VNum b => Ok (VNum (f_rem a b), m2)
  | BAdd, VStr a, VStr b => Ok (VStr (a ++ b), m2)
  | BAdd, VList a, VList b =>
      do la <- get_list (m_heap m2) a; do lb <- get_list (m_heap m2) b;
      let '(c, h') := alloc_list (m_heap m2) (la ++ lb) in Ok (VList c, set_heap m2 h')
  | BSub, VList a, VList b => do la <- get_list (m_heap m2) a; do lb <- get_list (m_heap m2) b; fail_at EType p m2
  | BEq, _, _ => Ok (VBool (value_eqb lv rv), m2)
  | BNe, _, _ => Ok (VBool (negb (value_eqb lv rv)), m2)
  | BLt, VNum a, VNum b => Ok (VBool (f_ltb a b), m2)
  | BLe, VNum a, VNum b => Ok (VBool (f_leb a b), m2)
  | BGt, VNum a, VNum b => Ok (VBool (f_ltb b a), m2)
  | BGe, VNum a, VNum b => Ok (VBool (f_leb b a), m2)
  | BAnd, VBool a, VBool b => Ok (VBool (a && b), m2)
  | BOr, VBool a, VBool b => Ok (VBool (a || b), m2)
  | _, _, _ => fail_at EType p m2        (* every other operand combination is a type error *)
  end.

(* operands evaluated left then right (addition, subtraction, equality, comparison) *)
Theorem binop_left_first o l r p m lv m1 rv m2 :
  In o [BAdd; BSub; BEq; BNe; BLt; BLe; BGt; BGe] ->
  ev l m = Ok (lv, m1) -> ev r m1 = Ok (rv, m2) ->
  eval_step code ev cl (EBin o l r p) m = denote_bin o lv rv (expr_pos l) m2.
Proof.
  intros Ho Hl Hr. cbn [eval_step].
  destruct Ho as [<-|[<-|[<-|[<-|[<-|[<-|[<-|[<-|[]]]]]]]]]; rewrite Hl; cbn [bind]; rewrite Hr; cbn [bind];
    destruct lv; destruct rv; try reflexivity;
    try (cbn [denote_bin]; unfold get_list; destruct (nth_error _ _); cbn [bind]; try reflexivity; destruct (nth_error _ _); reflexivity).
Qed.

(* operands evaluated right then left (multiplication, division, remainder, and, or): the value is the same function of
   (left value, right value) *)
Theorem binop_right_first o l r p m rv m1 lv m2 :
  In o [BMul; BDiv; BRem; BAnd; BOr] ->
  ev r m = Ok (rv, m1) -> ev l m1 = Ok (lv, m2) ->
  eval_step code ev cl (EBin o l r p) m = denote_bin o lv rv (expr_pos l) m2.
Proof.
  intros Ho Hr Hl. cbn [eval_step].
  destruct Ho as [<-|[<-|[<-|[<-|[<-|[]]]]]]; rewrite Hr; cbn [bind]; rewrite Hl; cbn [bind];
    destruct lv; destruct rv; try reflexivity; destruct b; destruct b0; reflexivity.
Qed.

(* unary operators *)
Theorem unary_minus e p m x m1 : ev e m = Ok (VNum x, m1) -> eval_step code ev cl (EUn UNeg e p) m = Ok (VNum (f_neg x), m1).
Proof. intros H. cbn [eval_step]. rewrite H. reflexivity. Qed.
Theorem unary_not e p m b m1 : ev e m = Ok (VBool b, m1) -> eval_step code ev cl (EUn UNot e p) m = Ok (VBool (negb b), m1).
Proof. intros H. cbn [eval_step]. rewrite H. reflexivity. Qed.
Theorem unary_type_error o e p m v m1 : ev e m = Ok (v, m1) ->
  (o = UNeg -> is_num v = false) -> (o = UNot -> forall b, v <> VBool b) ->
  eval_step code ev cl (EUn o e p) m = fail_at EType (expr_pos e) m1.
Proof.
  intros H Hn Hb. cbn [eval_step]. rewrite H. cbn [bind].
  destruct v; destruct o; try reflexivity.
  - specialize (Hn eq_refl). discriminate.
  - exfalso. eapply Hb; reflexivity.
Qed.
End Sem.

(** equality: by value for scalars, by identity for containers, false across types *)
Theorem equality_table :
  (forall a b, value_eqb (VNum a) (VNum b) = f_eqb a b) /\
  (forall a b, value_eqb (VBool a) (VBool b) = Bool.eqb a b) /\
  (forall a b, value_eqb (VStr a) (VStr b) = text_eqb a b) /\
  (forall a b, value_eqb (VList a) (VList b) = Nat.eqb a b) /\
  (forall a b, value_eqb (VRec a) (VRec b) = Nat.eqb a b) /\
  value_eqb VNil VNil = true /\
  (forall x s b a, value_eqb (VNum x) (VStr s) = false /\ value_eqb (VStr s) (VNum x) = false /\ value_eqb (VNum x) (VBool b) = false /\
                   value_eqb (VList a) (VRec a) = false /\ value_eqb (VRec a) (VList a) = false /\ value_eqb VNil (VNum x) = false /\
                   value_eqb (VStr s) (VList a) = false /\ value_eqb (VBool b) VNil = false).
Proof. repeat split; reflexivity. Qed.

(* the arithmetic is IEEE-754 binary64 as specified by Coq's SpecFloat (prec 53, emax 1024); % is C's fmod *)
Theorem arithmetic_is_binary64 :
  f_add = SFadd 53 1024 /\ f_sub = SFsub 53 1024 /\ f_mul = SFmul 53 1024 /\ f_div = SFdiv 53 1024.
Proof. repeat split; reflexivity. Qed.

(* truncated remainder: exact, sign of the dividend; spot values *)
Example remainder_examples :
  map (fun '(a, b) => f64_to_bits (f_rem (f_of_Z a) (f_of_Z b))) [(7, 3); (-7, 3); (7, -3); (6, 3); (1, 0)]%Z
  = [f64_to_bits (f_of_Z 1); f64_to_bits (f_of_Z (-1)); f64_to_bits (f_of_Z 1); 0; f64_to_bits S754_nan]%Z.
Proof. vm_compute. reflexivity. Qed.

(** the precedence ladder of the parser model: | lowest, then &, equality, comparison, additive, multiplicative;
    then unary, call/index, primary *)
Theorem precedence_ladder : forall k,
  match k with
  | TOr => binop_at 0 k = Some BOr
  | TAnd => binop_at 1 k = Some BAnd
  | TEqEq => binop_at 2 k = Some BEq | TNotEq => binop_at 2 k = Some BNe
  | TLt => binop_at 3 k = Some BLt | TLe => binop_at 3 k = Some BLe | TGt => binop_at 3 k = Some BGt | TGe => binop_at 3 k = Some BGe
  | TPlus => binop_at 4 k = Some BAdd | TMinus => binop_at 4 k = Some BSub
  | TMul => binop_at 5 k = Some BMul | TDiv => binop_at 5 k = Some BDiv | TRem => binop_at 5 k = Some BRem
  | _ => forall lvl, binop_at lvl k = None
  end.
Proof. intros k. destruct k; try reflexivity; intros lvl; do 6 (destruct lvl as [|lvl]; try reflexivity). Qed.

(* an operator belongs to exactly one level *)
Theorem operator_has_one_level lvl1 lvl2 k o1 o2 : binop_at lvl1 k = Some o1 -> binop_at lvl2 k = Some o2 -> lvl1 = lvl2 /\ o1 = o2.
Proof.
  intros H1 H2. do 6 (destruct lvl1 as [|lvl1]; [do 6 (destruct lvl2 as [|lvl2]; [destruct k; simpl in *; try discriminate; split; congruence|]); destruct k; discriminate|]).
  destruct k; discriminate.
Qed.

(* a level parses an operand of the next higher level and then folds operators of its own level to the LEFT:
   a op b op c is (a op b) op c *)
Theorem level_is_left_associative f lvl s : lvl < 6 ->
  pexpr (S f) lvl s = (do '(e, s1) <- pexpr f (S lvl) s; pbin f lvl e s1).
Proof. intros H. do 6 (destruct lvl as [|lvl]; [reflexivity|]). lia. Qed.

Theorem fold_left_step f lvl e s o : binop_at lvl (hk s) = Some o ->
  pbin (S f) lvl e s = (do '(r, s1) <- pexpr f (S lvl) (adv s); do p <- pos_prev s1; pbin f lvl (EBin o e r p) s1).
Proof. intros H. cbn [pbin]. rewrite H. reflexivity. Qed.

Theorem fold_left_stop f lvl e s : binop_at lvl (hk s) = None -> pbin (S f) lvl e s = Ok (e, s).
Proof. intros H. cbn [pbin]. rewrite H. reflexivity. Qed.

(* parentheses: a parenthesised expression is a primary that parses a whole expression inside, wrapped in a Group node
   (which evaluation ignores) *)
Theorem parens_parse_to_group f s : tk_is (hk s) TLParen = true ->
  pprimary (S f) s = (do '(e, s1) <- pexpr f 0 (adv s); let s2 := adv s1 in do p <- pos_tok s2 (head s); Ok (EGroup e p, s2)).
Proof. intros H. cbn [pprimary]. destruct (hk s); try discriminate. reflexivity. Qed.

(* unary operators bind tighter than every binary operator, call and index tighter still *)
Theorem unary_level f s : pexpr (S f) 6 s =
  match hk s with
  | TNot | TMinus => let o := match hk s with TNot => UNot | _ => UNeg end in
                     do p <- pos_here s; do '(r, s1) <- pexpr f 6 (adv s); Ok (EUn o r p, s1)
  | _ => pexpr f 7 s
  end.
Proof. reflexivity. Qed.
