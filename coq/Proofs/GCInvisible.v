(** C07: a collection at any statement boundary, any number of times, is invisible.  Two runs of the same program
    under *different collection schedules* -- none at all, the native allocation-counter trigger, a forced collection at
    every boundary, anything in between -- write the same output and end the same way, for every program the front end
    accepts, every fuel and every world.  The proof runs the two machines in lock step, related by a partial bijection
    of addresses (Sim.v); a collection on one side keeps the relation after the bijection is cut down to the containers
    reachable from the variables (collect_correct of GCSweep.v: reachable slots keep their contents, only unreachable
    ones are freed). *)
From Pakhi Require Import Base Float64 Syntax Tables Lexer Interp.
From Pakhi.Proofs Require Import Unfold SimDefs Sim GCMark GCSweep WF WFOps NoPanic.
From Coq Require Import Lia.
Local Open Scope nat_scope.

(** ** symmetry of the relation *)
Definition flip_ren (p : ren) : ren := mkRen (fun a b => rl p b a) (fun a b => rr p b a).
Lemma flip_bij p : bij p -> bij (flip_ren p).
Proof. intros [A B C D]. constructor; simpl; intros; eauto. Qed.
Lemma vrel_flip p v1 v2 : vrel p v1 v2 -> vrel (flip_ren p) v2 v1.
Proof. destruct v1, v2; simpl; auto. intros [-> ->]. auto. Qed.
Lemma erel_flip p e1 e2 : erel p e1 e2 -> erel (flip_ren p) e2 e1.
Proof. intros [A B]. split; auto. apply vrel_flip. exact B. Qed.
Lemma Forall2_flip' {A B} (R : A -> B -> Prop) (S : B -> A -> Prop) l1 l2 : (forall a b, R a b -> S b a) -> Forall2 R l1 l2 -> Forall2 S l2 l1.
Proof. intros H F. induction F; constructor; auto. Qed.
Lemma hrel_flip p h1 h2 : hrel p h1 h2 -> hrel (flip_ren p) h2 h1.
Proof.
  intros [A B C D E F (N1 & N2 & N3 & N4)]. constructor; simpl; auto.
  - intros a b R. destruct (A b a R) as (l1 & l2 & E1 & E2 & Fo). exists l2, l1. repeat split; auto.
    eapply Forall2_flip'; [|exact Fo]. intros x y. apply vrel_flip.
  - intros a b R. destruct (B b a R) as (l1 & l2 & E1 & E2 & Fo). exists l2, l1. repeat split; auto.
    eapply Forall2_flip'; [|exact Fo]. intros x y. apply erel_flip.
Qed.
Lemma mrel_flip p m1 m2 : mrel p m1 m2 -> mrel (flip_ren p) m2 m1.
Proof.
  intros [A B C D E F G H]. constructor; auto.
  - eapply Forall2_flip'; [|exact B]. intros s1 s2. apply Forall2_flip'. intros x y. apply erel_flip.
  - apply hrel_flip. exact F.
Qed.

(** ** cutting the bijection down to a set of nodes *)
Definition restrict (p : ren) (keep : node -> Prop) : ren :=
  mkRen (fun a b => rl p a b /\ keep (NL a)) (fun a b => rr p a b /\ keep (NR a)).
Lemma restrict_bij p (keep : node -> Prop) : bij p -> bij (restrict p keep).
Proof.
  intros [A B C D]. constructor; simpl.
  - intros a b b' [H _] [H' _]. eauto.
  - intros a a' b [H _] [H' _]. eauto.
  - intros a b b' [H _] [H' _]. eauto.
  - intros a a' b [H _] [H' _]. eauto.
Qed.
Lemma vrel_restrict p (keep : node -> Prop) v1 v2 : vrel p v1 v2 -> (forall n, node_of v1 = Some n -> keep n) -> vrel (restrict p keep) v1 v2.
Proof. destruct v1, v2; simpl; auto; intros H K; split; auto. Qed.
Lemma vrels_restrict p (keep : node -> Prop) l1 l2 : Forall2 (vrel p) l1 l2 -> (forall v n, In v l1 -> node_of v = Some n -> keep n) ->
  Forall2 (vrel (restrict p keep)) l1 l2.
Proof.
  induction 1 as [|v1 v2 l1 l2 Hv F IH]; intros K; constructor.
  - apply vrel_restrict; auto. intros n Hn. eapply K; [left; reflexivity|exact Hn].
  - apply IH. intros v n Hin. apply K. right. exact Hin.
Qed.
Lemma erels_restrict p (keep : node -> Prop) l1 l2 : Forall2 (erel p) l1 l2 -> (forall v n, In v (map snd l1) -> node_of v = Some n -> keep n) ->
  Forall2 (erel (restrict p keep)) l1 l2.
Proof.
  induction 1 as [|[k1 v1] [k2 v2] l1 l2 [Hk Hv] F IH]; intros K; constructor.
  - split; auto. apply vrel_restrict; auto. intros n Hn. eapply K; [left; reflexivity|exact Hn].
  - apply IH. intros v n Hin. apply K. right. exact Hin.
Qed.

Section GC.
Variable code : list fstmt.
Hypothesis Hcode : code_ok code.
Notation mwf := (mwf code).

Lemma vok_wf_val h v : vok code h v -> wf_val h v.
Proof. unfold wf_val, vok. destruct v; simpl; auto. Qed.
Lemma hok_wf_heap h : hok code h -> wf_heap h.
Proof.
  intros [A B _ _]. split.
  - intros l Hin. rewrite Forall_forall in A. specialize (A l Hin). eapply Forall_impl; [|exact A]. intros v. apply vok_wf_val.
  - intros r Hin. rewrite Forall_forall in B. specialize (B r Hin). apply Forall_forall. intros v Hv.
    apply in_map_iff in Hv as (kv & <- & Hkv). rewrite Forall_forall in B. apply vok_wf_val. apply (B kv Hkv).
Qed.
Lemma sok_wf_scopes h ss : sok code h ss -> wf_scopes h ss.
Proof.
  intros S. unfold wf_scopes, root_values. apply Forall_forall. intros v Hv.
  apply in_flat_map in Hv as (s & Hs & Hv). apply in_map_iff in Hv as (kv & <- & Hkv).
  unfold sok in S. rewrite Forall_forall in S. specialize (S s Hs). rewrite Forall_forall in S. apply vok_wf_val. apply (S kv Hkv).
Qed.

(* a value stored in a variable of an open scope is a root *)
Lemma scope_value_root ss s kv n : In s ss -> In kv s -> node_of (snd kv) = Some n -> is_root ss n.
Proof.
  intros Hs Hkv Hn. exists (snd kv). split; [|exact Hn]. unfold root_values. apply in_flat_map. exists s. split; auto. apply in_map. exact Hkv.
Qed.

Lemma nth_error_nth_eq {A} (l l' : list A) a d x : length l' = length l -> nth a l' d = nth a l d -> nth_error l a = Some x -> nth_error l' a = Some x.
Proof.
  intros Hl Hn He. pose proof (nth_error_lt _ _ _ He) as Hlt.
  rewrite (nth_error_nth' l' d) by lia. rewrite Hn. rewrite (nth_error_nth _ _ d He). reflexivity.
Qed.

(** a collection on the left machine: the relation survives, cut down to what is reachable *)
Lemma collect_left p m1 m2 h1' : bij p -> mrel p m1 m2 -> wf_heap (m_heap m1) -> wf_scopes (m_heap m1) (m_scopes m1) ->
  collect (m_scopes m1) (m_heap m1) = Ok h1' ->
  exists q, bij q /\ mrel q (set_heap m1 h1') m2.
Proof.
  intros Hb Hm Wh Ws Hc.
  destruct (collect_correct _ _ Wh Ws) as (h' & Ec & P). rewrite Ec in Hc. injection Hc as <-.
  set (ss := m_scopes m1) in *. set (h1 := m_heap m1) in *.
  set (keep := reach h1 (is_root ss)).
  exists (restrict p keep). split; [apply restrict_bij; exact Hb|].
  destruct Hm as [A B C D E F G I].
  assert (Hsc : Forall2 (Forall2 (erel (restrict p keep))) ss (m_scopes m2)).
  { assert (K : forall s, In s ss -> forall kv, In kv s -> forall n, node_of (snd kv) = Some n -> keep n).
    { intros s Hs kv Hkv n Hn. apply reach_root. eapply scope_value_root; eauto. }
    fold ss in B. clearbody ss keep. clear -B K.
    induction B as [|s1 s2 r1 r2 Hs Hr IH]; constructor.
    - apply erels_restrict; auto. intros v n Hv Hn. apply in_map_iff in Hv as (kv & <- & Hkv). eapply K; [left; reflexivity|exact Hkv|exact Hn].
    - apply IH. intros s Hs'. apply K. right. exact Hs'. }
  constructor; simpl; auto.
  fold h1 in F. destruct F as [Fl Fr F1 F2 F3 F4 (N1 & N2 & N3 & N4)].
  constructor; simpl.
  - intros a b [R Hk]. destruct (Fl a b R) as (l1 & l2 & E1 & E2 & Fo). exists l1, l2.
    split; [eapply nth_error_nth_eq; [apply (cp_len_lists _ _ _ P)|apply (cp_keep_list _ _ _ P a Hk)|exact E1]|].
    split; [exact E2|].
    apply vrels_restrict; auto. intros v n Hv Hn. eapply reach_step; [exact Hk|]. exists v. split; [|exact Hn].
    simpl. rewrite (nth_error_nth _ _ [] E1). exact Hv.
  - intros a b [R Hk]. destruct (Fr a b R) as (l1 & l2 & E1 & E2 & Fo). exists l1, l2.
    split; [eapply nth_error_nth_eq; [apply (cp_len_recs _ _ _ P)|apply (cp_keep_rec _ _ _ P a Hk)|exact E1]|].
    split; [exact E2|].
    apply erels_restrict; auto. intros v n Hv Hn. eapply reach_step; [exact Hk|]. exists v. split; [|exact Hn].
    simpl. rewrite (nth_error_nth _ _ [] E1). exact Hv.
  - intros a Ha. rewrite (cp_len_lists _ _ _ P). destruct (cp_only_list _ _ _ P a Ha) as [Hin|[Hlt Hn]].
    + destruct (F1 a Hin) as [L Nr]. split; [exact L|]. intros b [R _]. eapply Nr; eauto.
    + split; [exact Hlt|]. intros b [_ Hk]. apply Hn. exact Hk.
  - intros b Hb2. destruct (F2 b Hb2) as [L Nr]. split; [exact L|]. intros a [R _]. eapply Nr; eauto.
  - intros a Ha. rewrite (cp_len_recs _ _ _ P). destruct (cp_only_rec _ _ _ P a Ha) as [Hin|[Hlt Hn]].
    + destruct (F3 a Hin) as [L Nr]. split; [exact L|]. intros b [R _]. eapply Nr; eauto.
    + split; [exact Hlt|]. intros b [_ Hk]. apply Hn. exact Hk.
  - intros b Hb2. destruct (F4 b Hb2) as [L Nr]. split; [exact L|]. intros a [R _]. eapply Nr; eauto.
  - repeat split; auto; [apply (cp_nodup_list _ _ _ P N1)|apply (cp_nodup_rec _ _ _ P N3)].
Qed.

(** ** one statement boundary of [run] *)
Definition boundary (sched : option (list bool)) (b : nat) (m1 : machine) : outcome machine :=
  if should_collect sched b m1 then
    match collect (m_scopes m1) (m_heap m1) with
    | Ok h' => Ok (mkM (m_pc m1) (m_scopes m1) (m_loops m1) (m_loop_base m1) (m_ret m1) (reset_alloc h') (m_out m1) (m_world m1) (S (m_collections m1)))
    | Err e => Err e | Panic s => Panic s | OutOfFuel => OutOfFuel
    end
  else Ok (match sched with Some _ => set_heap m1 (reset_alloc (m_heap m1)) | None => m1 end).

Lemma run_S f sched b m : run code (S f) sched b m =
  match stmt_at code (m_pc m) with
  | None => (Panic SiteIndex, m)
  | Some s =>
      if is_eos s then (Ok m, m)
      else match interp code f m with
           | Ok m1 => match boundary sched b m1 with
                      | Ok m2 => run code f sched (S b) m2
                      | _ => (boundary sched b m1, m1)
                      end
           | other => (other, m)
           end
  end.
Proof. cbn [run]. unfold boundary. destruct (stmt_at code (m_pc m)) as [[]|]; reflexivity. Qed.

Lemma hrel_reset_l p h1 h2 : hrel p h1 h2 -> hrel p (reset_alloc h1) h2.
Proof. intros [A B C D E F G]. constructor; simpl; auto. Qed.

Lemma mwf_reset m h c : mwf m -> hok code h -> hle (m_heap m) h ->
  mwf (mkM (m_pc m) (m_scopes m) (m_loops m) (m_loop_base m) (m_ret m) (reset_alloc h) (m_out m) (m_world m) c).
Proof.
  intros [A B C D E] [H1 H2 H3 H4] Hle. constructor; simpl; auto.
  - eapply sok_mono; [|exact C]. exact Hle.
  - constructor; simpl; auto.
Qed.

Lemma boundary_left p sched b m1 m2 : bij p -> mrel p m1 m2 -> mwf m1 ->
  exists m1', boundary sched b m1 = Ok m1' /\ mwf m1' /\ exists q, bij q /\ mrel q m1' m2.
Proof.
  intros Hb Hm W. unfold boundary. destruct (should_collect sched b m1).
  - pose proof (hok_wf_heap _ (w_h code m1 W)) as Wh. pose proof (sok_wf_scopes _ _ (w_sc code m1 W)) as Ws.
    destruct (collect_correct _ _ Wh Ws) as (h' & Ec & P). rewrite Ec.
    eexists. split; [reflexivity|].
    pose proof (collect_ok code (m_scopes m1) (m_heap m1) (w_h code m1 W) (w_sc code m1 W)) as Ck. rewrite Ec in Ck. simpl in Ck.
    destruct Ck as (K1 & K2 & K3 & K4).
    split; [apply mwf_reset; auto|].
    destruct (collect_left p m1 m2 h' Hb Hm Wh Ws Ec) as (q & Hbq & Hq). exists q. split; [exact Hbq|].
    destruct Hq as [A B C D E F G I]. simpl in *. constructor; simpl; auto. apply hrel_reset_l. exact F.
  - eexists. split; [reflexivity|]. destruct sched.
    + split.
      * destruct m1; simpl. apply (mwf_reset _ _ _ W (w_h code _ W)). apply hle_refl.
      * exists p. split; [exact Hb|]. destruct Hm as [A B C D E F G I]. constructor; simpl; auto. apply hrel_reset_l. exact F.
    + split; [exact W|]. exists p. split; assumption.
Qed.

Lemma boundary_right p sched b m1 m2 : bij p -> mrel p m1 m2 -> mwf m2 ->
  exists m2', boundary sched b m2 = Ok m2' /\ mwf m2' /\ exists q, bij q /\ mrel q m1 m2'.
Proof.
  intros Hb Hm W.
  destruct (boundary_left (flip_ren p) sched b m2 m1 (flip_bij _ Hb) (mrel_flip _ _ _ Hm) W) as (m2' & E & W' & q & Hbq & Hq).
  exists m2'. split; [exact E|]. split; [exact W'|]. exists (flip_ren q). split; [apply flip_bij; exact Hbq|apply mrel_flip; exact Hq].
Qed.

(** ** the whole run: two schedules, same behaviour *)
Definition same_end (r1 r2 : outcome machine) : Prop := orel (fun n1 n2 : machine => m_out n1 = m_out n2 /\ m_world n1 = m_world n2) r1 r2.

Theorem run_sim : forall fuel s1 s2 b1 b2 p m1 m2, bij p -> mrel p m1 m2 -> mwf m1 -> mwf m2 ->
  same_end (fst (run code fuel s1 b1 m1)) (fst (run code fuel s2 b2 m2)).
Proof.
  induction fuel as [|f IH]; intros s1 s2 b1 b2 p m1 m2 Hb Hm W1 W2; [exact I|].
  rewrite !run_S. rewrite (mr_pc _ _ _ Hm).
  destruct (stmt_at code (m_pc m2)) as [s|]; [|reflexivity].
  destruct (is_eos s); [simpl; split; apply Hm|].
  destruct (sim_fuel code f) as (_ & _ & Hi). specialize (Hi p m1 m2 Hb Hm).
  pose proof (interp_keeps_invariants code Hcode f m1) as K1. pose proof (interp_keeps_invariants code Hcode f m2) as K2.
  destruct (interp code f m1) as [n1|e1|t1|], (interp code f m2) as [n2|e2|t2|]; simpl in Hi; try contradiction; try exact I; try exact Hi.
  2: { destruct (boundary s1 b1 n1) as [n1'| | |]; try exact I. unfold same_end. destruct (fst (run code f s1 (S b1) n1')); exact I. }
  destruct Hi as (q & _ & Hbq & Hq). unfold Pm in Hq.
    destruct (K1 n1 W1 eq_refl) as [V1 _]. destruct (K2 n2 W2 eq_refl) as [V2 _].
    destruct (boundary_left q s1 b1 n1 n2 Hbq Hq V1) as (n1' & E1 & V1' & q1 & Hbq1 & Hq1). rewrite E1.
    destruct (boundary_right q1 s2 b2 n1' n2 Hbq1 Hq1 V2) as (n2' & E2 & V2' & q2 & Hbq2 & Hq2). rewrite E2.
  eapply IH; eauto.
Qed.
End GC.

(** The statement of the property: for every source text the front end accepts, any two collection schedules
    ([None] = the interpreter's own allocation-counter trigger, [Some bits] = forced / suppressed per boundary) give the
    same output, the same final file system and stdin, the same error (kind, line, file, message payload, output before
    it) -- unless one of the two runs exhausts the native stack ([OutOfFuel]). *)
Theorem gc_schedule_invisible code platform w fuel s1 s2 : code_ok code -> code <> [] ->
  same_end (fst (run code fuel s1 0 (init_machine platform w))) (fst (run code fuel s2 0 (init_machine platform w))).
Proof.
  intros Hc Hne. set (p0 := mkRen (fun _ _ => False) (fun _ _ => False)).
  apply (run_sim code Hc fuel s1 s2 0 0 p0).
  - constructor; simpl; intros; contradiction.
  - constructor; simpl; auto.
    + repeat constructor.
    + constructor; simpl; try (intros; contradiction). repeat split; constructor.
  - apply mwf_init; assumption.
  - apply mwf_init; assumption.
Qed.
