(** C09: numbers -- digit tables, print/convert agreement, unprintable values, literal value. *)
From Pakhi Require Import Base Float64 Syntax Tables Lexer Interp.
From Pakhi.Proofs Require Import TableFacts.
From Coq Require Import Lia.
Local Open Scope nat_scope.

(* the three digit maps of the source are the intended bijections between ০..৯ and 0..9 *)
Theorem digit_tables :
  map (fun i => assoc_N (2534 + i) lexer_digits) [0;1;2;3;4;5;6;7;8;9]%N = map Some [0;1;2;3;4;5;6;7;8;9]%Z /\
  map (fun i => assoc_N (2534 + i) builtins_bn_to_en) [0;1;2;3;4;5;6;7;8;9]%N = map (fun i => Some (48 + i)%N) [0;1;2;3;4;5;6;7;8;9]%N /\
  map (fun i => assoc_N (48 + i) builtins_en_to_bn) [0;1;2;3;4;5;6;7;8;9]%N = map (fun i => Some (2534 + i)%N) [0;1;2;3;4;5;6;7;8;9]%N /\
  map (fun i => assoc_N (48 + i) print_char_map) [0;1;2;3;4;5;6;7;8;9]%N = map (fun i => Some (2534 + i)%N) [0;1;2;3;4;5;6;7;8;9]%N /\
  assoc_N 45 print_char_map = Some 45%N /\ assoc_N 46 print_char_map = Some 46%N /\
  length lexer_digits = 10 /\ length builtins_bn_to_en = 10 /\ length builtins_en_to_bn = 10 /\ length print_char_map = 12.
Proof. vm_compute. repeat split; reflexivity. Qed.

(* on every character that printing accepts, _স্ট্রিং's digit translation and printing's agree *)
Lemma print_map_agrees : forallb (fun e => N.eqb (match assoc_N (fst e) builtins_en_to_bn with Some d => d | None => fst e end) (snd e)) print_char_map = true.
Proof. vm_compute. reflexivity. Qed.

(** _স্ট্রিং(x) yields the same text as printing x, for every number that can be printed *)
Theorem to_string_is_print x s : to_bn_num x = Some s -> map_chars builtins_en_to_bn (f64_to_string x) = s.
Proof.
  unfold to_bn_num. match goal with |- context [forallb ?ff (f64_to_string x)] => destruct (forallb ff (f64_to_string x)) eqn:E end; [|discriminate]. intros H; injection H as <-.
  unfold map_chars. apply map_ext_in. intros c Hc.
  rewrite forallb_forall in E. specialize (E c Hc).
  destruct (assoc_N c print_char_map) as [d|] eqn:Ea; [|discriminate].
  apply assoc_N_In in Ea. pose proof print_map_agrees as Hp. rewrite forallb_forall in Hp. specialize (Hp _ Ea). simpl in Hp.
  apply N.eqb_eq in Hp. exact Hp.
Qed.

(** infinities and NaN cannot be printed (printing them is an error), whatever their sign *)
Theorem nonfinite_unprintable s : to_bn_num (S754_infinity s) = None /\ to_bn_num S754_nan = None.
Proof. destruct s; vm_compute; split; reflexivity. Qed.

(** a literal denotes what parse::<f64> gives for its ASCII spelling: sign, digits, at most one point, converted once *)
Theorem literal_value rest line file v n : consume_num rest line file = Ok (v, n) ->
  exists sign body s k, num_scan body false line file = Ok (s, k) /\ parse_f64 (sign ++ s) = Some v /\
    ((sign = [c_minus] /\ rest = c_minus :: body /\ n = S k) \/ (sign = [] /\ rest = body /\ n = k)).
Proof.
  unfold consume_num. intros H.
  assert (G : forall sign body k0, consume_num_tail sign body k0 line file = Ok (v, n) ->
              exists s k, num_scan body false line file = Ok (s, k) /\ parse_f64 (sign ++ s) = Some v /\ n = k0 + k).
  { intros sign body k0 H0. unfold consume_num_tail in H0.
    destruct (num_scan body false line file) as [[s k]| | |]; cbn [bind] in H0; try discriminate.
    destruct (parse_f64 (sign ++ s)) eqn:Ep; [|discriminate]. injection H0 as <- <-. exists s, k. auto. }
  destruct rest as [|c r].
  - apply G in H as (s & k & H1 & H2 & ->). exists [], [], s, k. split; [exact H1|]. split; [exact H2|]. right. repeat split.
  - destruct (N.eqb c c_minus) eqn:Ec.
    + apply N.eqb_eq in Ec. subst c. apply G in H as (s & k & H1 & H2 & ->). exists [c_minus], r, s, k. split; [exact H1|]. split; [exact H2|]. left. repeat split.
    + apply G in H as (s & k & H1 & H2 & ->). exists [], (c :: r), s, k. split; [exact H1|]. split; [exact H2|]. right. repeat split.
Qed.

(* the decimal value of an ASCII digit string is computed exactly (unbounded integers) before the single rounding *)
Lemma digits_val_app acc a b : digits_val acc (a ++ b) = digits_val (digits_val acc a) b.
Proof. revert acc. induction a as [|c a IH]; intros acc; simpl; auto. Qed.

(* leading zeros after the point count: 1.05 is not 1.5, 0.001 is not 0.1, 2.28 is the double nearest to 2.28 *)
Example literal_examples :
  map (fun s => option_map f64_to_bits (match tokenize s [] with Ok (t :: _) => match t_kind t with TNum x => Some x | _ => None end | _ => None end))
      [[2535;46;2534;2539]; [2534;46;2534;2534;2535]; [2536;46;2536;2542]; [2535;46;2539]; [45;2534]]%N
  = [Some 4607407598781385933; Some 4562254508917369340; Some 4612316522375219773; Some 4609434218613702656; Some 9223372036854775808]%Z.
Proof. vm_compute. reflexivity. Qed.

(* _সংখ্যা of text that is not a number is an error *)
Theorem to_num_rejects code m s : parse_f64 (map_chars builtins_bn_to_en s) = None ->
  builtin_op code 1 [VStr s] m = fail_here code ERuntime m.
Proof. intros H. unfold builtin_op. cbn [Nat.eqb]. rewrite H. reflexivity. Qed.

Theorem to_num_accepts code m s x : parse_f64 (map_chars builtins_bn_to_en s) = Some x ->
  builtin_op code 1 [VStr s] m = Ok (VNum x, m).
Proof. intros H. unfold builtin_op. cbn [Nat.eqb]. rewrite H. reflexivity. Qed.

Example not_numbers : map (fun s => parse_f64 s) [[]; [97;98;99]; [49;46;50;46;51]; [45;45;49]; [46]; [49;50;97]; [32;49]]%N = [None; None; None; None; None; None; None].
Proof. vm_compute. reflexivity. Qed.
