(** C16: any history.  A list built-in called through any alias acts on the arena slot the alias holds; this file lifts the
    per-operation theorems of ListOps.v to arbitrary sequences of operations: the slot always holds the mathematical
    sequence obtained by folding the abstract operations over the initial one, a rejected operation (invalid position)
    is an error that changes nothing, every other list and every record is untouched, and the length query answers the
    length of the current sequence. *)
From Pakhi Require Import Base Float64 Syntax Tables Lexer Interp.
From Pakhi.Proofs Require Import ListOps.
From Coq Require Import Lia.
Local Open Scope nat_scope.

Inductive lop := LAppend (v : value) | LInsert (x : f64) (v : value) | LPopLast | LRemove (x : f64) | LLen.

(* the specification: an operation on a mathematical sequence; None = rejected *)
Definition seq_step (l : list value) (o : lop) : option (list value) :=
  match o with
  | LAppend v => Some (l ++ [v])
  | LInsert x v => match valid_index x (S (length l)) with Some i => Some (firstn i l ++ v :: skipn i l) | None => None end
  | LPopLast => Some (removelast l)
  | LRemove x => match valid_index x (length l) with Some i => Some (firstn i l ++ skipn (S i) l) | None => None end
  | LLen => Some l
  end.
Fixpoint seq_run (ops : list lop) (l : list value) : list value :=
  match ops with [] => l | o :: r => seq_run r (match seq_step l o with Some l' => l' | None => l end) end.

(* the implementation side: the built-in call each operation is written as, on the list at address [a] *)
Definition op_call (a : nat) (o : lop) : nat * list value :=
  match o with
  | LAppend v => (2, [VList a; v])
  | LInsert x v => (2, [VList a; VNum x; v])
  | LPopLast => (3, [VList a])
  | LRemove x => (3, [VList a; VNum x])
  | LLen => (4, [VList a])
  end.

Section History.
Variable code : list fstmt.
Variable a : nat.

(* a failing call stops a program; to speak about what it left behind we continue with the machine unchanged *)
Fixpoint run_ops (ops : list lop) (m : machine) : machine :=
  match ops with
  | [] => m
  | o :: r => match builtin_op code (fst (op_call a o)) (snd (op_call a o)) m with
              | Ok (_, m') => run_ops r m'
              | _ => run_ops r m
              end
  end.

Lemma fail_here_is_err {A} k m : exists e, @fail_here code A k m = Err e.
Proof. unfold fail_here, unexpected_at. destruct (stmt_at code (m_pc m)); eexists; reflexivity. Qed.

(* one operation *)
Lemma op_step o m l : nth_error (h_lists (m_heap m)) a = Some l ->
  match seq_step l o with
  | Some l' => exists v m', builtin_op code (fst (op_call a o)) (snd (op_call a o)) m = Ok (v, m') /\ same_but_heap m m' /\
                            only_list_changed (m_heap m) (m_heap m') a l' /\ (o = LLen -> v = VNum (f_of_nat (length l)))
  | None => exists e, builtin_op code (fst (op_call a o)) (snd (op_call a o)) m = Err e
  end.
Proof.
  intros Hl. destruct o; cbn [seq_step op_call fst snd].
  - destruct (push_appends code m a l Hl v) as (m' & E & S & O). exists VNil, m'. split; [exact E|]. split; [exact S|]. split; [exact O|]. discriminate.
  - destruct (valid_index x (S (length l))) as [i|] eqn:Ev.
    + destruct (push_at_inserts code m a l Hl x v i Ev) as (m' & E & S & O). exists VNil, m'. split; [exact E|]. split; [exact S|]. split; [exact O|]. discriminate.
    + rewrite (push_at_invalid code m a l Hl x v Ev). apply fail_here_is_err.
  - destruct (pop_removes_last code m a l Hl) as (m' & E & S & O). exists VNil, m'. split; [exact E|]. split; [exact S|]. split; [exact O|]. discriminate.
  - destruct (valid_index x (length l)) as [i|] eqn:Ev.
    + destruct (pop_at_removes code m a l Hl x i Ev) as (m' & E & S & O). exists VNil, m'. split; [exact E|]. split; [exact S|]. split; [exact O|]. discriminate.
    + rewrite (pop_at_invalid code m a l Hl x Ev). apply fail_here_is_err.
  - exists (VNum (f_of_nat (length l))), m. rewrite (len_counts code m a l Hl). split; [reflexivity|]. split; [repeat split|].
    split; [|reflexivity]. split; [exact Hl|]. split; [reflexivity|]. repeat split.
Qed.

Theorem history ops : forall m l, nth_error (h_lists (m_heap m)) a = Some l ->
  let m' := run_ops ops m in
  nth_error (h_lists (m_heap m')) a = Some (seq_run ops l) /\
  (forall b, b <> a -> nth_error (h_lists (m_heap m')) b = nth_error (h_lists (m_heap m)) b) /\
  h_recs (m_heap m') = h_recs (m_heap m) /\ length (h_lists (m_heap m')) = length (h_lists (m_heap m)) /\
  m_out m' = m_out m /\ m_scopes m' = m_scopes m.
Proof.
  induction ops as [|o r IH]; intros m l Hl; cbn [run_ops seq_run].
  - repeat split; auto.
  - pose proof (op_step o m l Hl) as Hs. destruct (seq_step l o) as [l'|].
    + destruct Hs as (v & m1 & E & (S1 & S2 & S3 & S4 & S5) & (O1 & O2 & O3 & O4 & _) & _). rewrite E.
      destruct (IH m1 l' O1) as (I1 & I2 & I3 & I4 & I5 & I6). cbv zeta in *.
      split; [exact I1|]. split; [intros b Hb; rewrite (I2 b Hb); apply O2; exact Hb|].
      split; [congruence|]. split; [congruence|]. split; congruence.
    + destruct Hs as (e & E). rewrite E. apply IH. exact Hl.
Qed.

(* the length query after any history *)
Theorem length_after_history ops m l : nth_error (h_lists (m_heap m)) a = Some l ->
  builtin_op code 4 [VList a] (run_ops ops m) = Ok (VNum (f_of_nat (length (seq_run ops l))), run_ops ops m).
Proof. intros Hl. destruct (history ops m l Hl) as (H & _). apply len_counts. exact H. Qed.
End History.
