(** C02 / C03: what one statement does to the program position and the loop stack -- the five shapes of a step.
    Every statement either moves forward without passing a shallower position and leaves the loop stack alone (the next
    statement, the jump of a false condition, of an else, of a function definition), closes a block, enters a loop
    (pushing its record), or is the continue / break of the innermost loop record. *)
From Pakhi Require Import Base Float64 Syntax Tables Lexer Interp.
From Pakhi.Proofs Require Import Unfold Frames WF WFOps FrameInv Scope SkelDefs NoPanic.
From Coq Require Import Lia ZArith.
Local Open Scope nat_scope.

Section Shape.
Variable code : list fstmt.
Hypothesis Hcode : code_ok code.

Notation mwf := (mwf code).
Notation good := (good code).
Notation Qe := (Qe code).
Notation Pe := (Pe code).
Notation sd := (sd code).

Inductive shape (m m' : machine) : Prop :=
| sh_fwd : m_loops m' = m_loops m -> m_pc m <= m_pc m' ->
           (forall k, m_pc m <= k -> k <= m_pc m' -> (sd (m_pc m) <= sd k)%Z) -> shape m m'
| sh_end p : stmt_at code (m_pc m) = Some (FBlockEnd p) -> m_pc m' = S (m_pc m) -> m_loops m' = m_loops m -> shape m m'
| sh_loop p bp cp pc2 : stmt_at code (m_pc m) = Some (FLoop p) -> stmt_at code (S (m_pc m)) = Some (FBlockStart bp) ->
           skip_block_from code m (S (m_pc m)) = Ok pc2 -> stmt_at code pc2 = Some (FContinue cp) ->
           m_pc m' = S (m_pc m) -> m_loops m' = mkLoop (S (m_pc m)) (S pc2) (length (m_scopes m)) :: m_loops m -> shape m m'
| sh_cont p l ls : stmt_at code (m_pc m) = Some (FContinue p) -> m_loops m = l :: ls -> m_loops m' = m_loops m ->
           m_pc m' = l_start l -> shape m m'
| sh_break p l ls : stmt_at code (m_pc m) = Some (FBreak p) -> m_loops m = l :: ls -> m_loops m' = ls ->
           m_pc m' = l_end l -> shape m m'.

Lemma shape_next m m' s : stmt_at code (m_pc m) = Some s -> (0 <= delta s)%Z ->
  m_pc m' = S (m_pc m) -> m_loops m' = m_loops m -> shape m m'.
Proof.
  intros Hs Hd Hpc Hl. apply sh_fwd; [exact Hl|lia|]. intros k H1 H2. rewrite Hpc in H2.
  assert (k = m_pc m \/ k = S (m_pc m)) as [->| ->] by lia; [lia|]. rewrite (sd_S code _ _ Hs). lia.
Qed.

Lemma shape_jump m t : m_pc m <= t -> (forall k, m_pc m <= k -> k <= t -> (sd (m_pc m) <= sd k)%Z) -> shape m (set_pc m t).
Proof. intros H1 H2. apply sh_fwd; [reflexivity|exact H1|exact H2]. Qed.

(* an expression evaluated first changes nothing the shape looks at *)
Lemma shape_after m m1 m' : m_pc m1 = m_pc m -> m_loops m1 = m_loops m ->
  m_loops m' = m_loops m1 -> m_pc m1 <= m_pc m' -> (forall k, m_pc m1 <= k -> k <= m_pc m' -> (sd (m_pc m1) <= sd k)%Z) -> shape m m'.
Proof. intros S1 S3 Hl Hle Hnd. rewrite S1 in *. apply sh_fwd; [congruence|exact Hle|exact Hnd]. Qed.

Lemma assign_path_pl path : forall m c v p m', assign_path m c path v p = Ok m' -> m_pc m' = m_pc m /\ m_loops m' = m_loops m.
Proof.
  induction path as [|ix rest IH]; intros m c v p m' H; cbn [assign_path] in H; [discriminate|].
  destruct c; destruct ix; try discriminate.
  - destruct (get_list (m_heap m) a) as [l| | |]; cbn [bind] in H; try discriminate.
    destruct (valid_index x (length l)) as [i|]; [|discriminate].
    destruct rest; [injection H as <-; split; reflexivity|eapply IH; exact H].
  - destruct (get_rec (m_heap m) a) as [r| | |]; cbn [bind] in H; try discriminate.
    destruct rest; [injection H as <-; split; reflexivity|]. destruct (alist_get k r); [eapply IH; exact H|discriminate].
Qed.

Lemma skip_from_indep m m' pc r : skip_block_from code m pc = Ok r -> skip_block_from code m' pc = Ok r.
Proof. unfold skip_block_from. apply skip_block_indep. Qed.

Section Step.
Variable ev : expr -> machine -> outcome (value * machine).
Hypothesis Hev : Pe ev.

Lemma interp_step_shape m m' : mwf m -> interp_step code ev m = Ok m' -> shape m m'.
Proof.
  intros Hm H. unfold interp_step in H.
  destruct (stmt_at code (m_pc m)) as [s|] eqn:Hs; [|discriminate].
  pose proof (code_stmt_ok code Hcode _ _ Hs) as Hok.
  destruct s; cbn [stmt_ok] in Hok.
  - (* print *)
    pose proof (Hev e m Hm Hok) as G. destruct (ev e m) as [[v m1]| | |]; cbn [bind] in H; try discriminate.
    destruct G as [(W1 & (S1 & S2 & S3 & S4 & S5) & L1) Hv]. cbn [fst snd] in *.
    pose proof (do_print_ok code true v m1 (w_h code m1 W1) Hv) as P. rewrite H in P. destruct P as (M1 & _ & _ & M4 & _).
    eapply shape_next; [exact Hs|cbn; lia|congruence|congruence].
  - pose proof (Hev e m Hm Hok) as G. destruct (ev e m) as [[v m1]| | |]; cbn [bind] in H; try discriminate.
    destruct G as [(W1 & (S1 & S2 & S3 & S4 & S5) & L1) Hv]. cbn [fst snd] in *.
    pose proof (do_print_ok code false v m1 (w_h code m1 W1) Hv) as P. rewrite H in P. destruct P as (M1 & _ & _ & M4 & _).
    eapply shape_next; [exact Hs|cbn; lia|congruence|congruence].
  - (* declaration / assignment *)
    destruct k.
    + apply andb_true_iff in Hok as [Hidx Hinit]. destruct init as [e|].
      * pose proof (Hev e m Hm Hinit) as G. destruct (ev e m) as [[v m1]| | |]; cbn [bind] in H; try discriminate.
        destruct G as [(W1 & (S1 & S2 & S3 & S4 & S5) & L1) Hv]. cbn [fst snd] in *.
        destruct (declare x v (m_scopes m1)) as [ss| | |]; cbn [bind] in H; try discriminate. injection H as <-.
        eapply shape_next; [exact Hs|cbn; lia|cbn; congruence|cbn; congruence].
      * destruct (declare x VNil (m_scopes m)) as [ss| | |]; cbn [bind] in H; try discriminate. injection H as <-.
        eapply shape_next; [exact Hs|cbn; lia|reflexivity|reflexivity].
    + apply andb_true_iff in Hok as [Hidx Hinit]. destruct init as [e|]; [|discriminate].
      pose proof (Hev e m Hm Hinit) as G. destruct (ev e m) as [[v m1]| | |]; cbn [bind] in H; try discriminate.
      destruct G as [(W1 & (S1 & S2 & S3 & S4 & S5) & L1) Hv]. cbn [fst snd] in *.
      destruct idx as [|i0 idx'].
      * destruct (assign_var x v (m_scopes m1)) as [ss|]; [|unfold rt_err, fail_here in H; destruct (stmt_at code (m_pc m1)); discriminate].
        injection H as <-. eapply shape_next; [exact Hs|cbn; lia|cbn; congruence|cbn; congruence].
      * destruct (lookup_var x (m_scopes m1)); [|unfold rt_err, fail_here in H; destruct (stmt_at code (m_pc m1)); discriminate].
        pose proof (eval_indexes_ok code ev Hev (i0 :: idx') m1 W1 Hidx) as Pi.
        destruct (eval_indexes ev (i0 :: idx') m1) as [[path m2]| | |]; cbn [bind] in H; try discriminate.
        destruct Pi as [(W2 & (T1 & T2 & T3 & T4 & T5) & L2) _]. cbn [fst snd] in *.
        destruct (here code m2) as [pp| | |]; cbn [bind] in H; try discriminate.
        destruct (lookup_var x (m_scopes m2)) as [c|]; [|discriminate].
        destruct (assign_path m2 c path v pp) as [m3| | |] eqn:Ea; cbn [bind] in H; try discriminate. injection H as <-.
        destruct (assign_path_pl _ _ _ _ _ _ Ea) as [U1 U2].
        eapply shape_next; [exact Hs|cbn; lia|cbn; congruence|cbn; congruence].
  - (* expression statement *)
    pose proof (Hev e m Hm Hok) as G. destruct (ev e m) as [[v m1]| | |]; cbn [bind] in H; try discriminate.
    destruct G as [(W1 & (S1 & S2 & S3 & S4 & S5) & L1) Hv]. cbn [fst snd] in *. injection H as <-.
    eapply shape_next; [exact Hs|cbn; lia|cbn; congruence|cbn; congruence].
  - (* block start *) injection H as <-. eapply shape_next; [exact Hs|cbn; lia|reflexivity|reflexivity].
  - (* block end *)
    destruct (length (m_scopes m) <=? 1); [unfold rt_err, fail_here in H; rewrite Hs in H; discriminate|]. injection H as <-.
    eapply sh_end; [exact Hs|reflexivity|reflexivity].
  - (* function definition *)
    destruct (stmt_at code (S (m_pc m))) as [s1|] eqn:Hs1; [|discriminate].
    destruct s1; try discriminate. destruct e; try discriminate. destruct e; try discriminate.
    match type of H with context [match ?nm with Some _ => _ | None => _ end] => destruct nm as [params|] eqn:Enm; [|discriminate] end.
    destruct (declare x _ (m_scopes m)) as [ss| | |]; cbn [bind] in H; try discriminate.
    destruct (skip_block_from code m (S (S (m_pc m)))) as [pc2| | |] eqn:Esk; cbn [bind] in H; try discriminate.
    destruct (stmt_at code pc2) as [s2|] eqn:Hs2; [|discriminate]. destruct s2; try discriminate. injection H as <-.
    destruct (skip_from_sd code _ _ _ Esk) as (K1 & _ & K3 & K4).
    pose proof (sd_S code _ _ Hs) as D0. pose proof (sd_S code _ _ Hs1) as D1. pose proof (sd_S code _ _ Hs2) as D2. cbn [delta] in D0, D1, D2.
    apply sh_fwd; cbn [set_pc set_scopes m_pc m_loops]; [reflexivity|lia|].
    intros k Hk1 Hk2. destruct (Nat.eq_dec k (m_pc m)) as [->|]; [lia|]. destruct (Nat.eq_dec k (S (m_pc m))) as [->|]; [lia|].
    destruct (Nat.eq_dec k (S pc2)) as [->|]; [lia|]. specialize (K4 k ltac:(lia) ltac:(lia)). lia.
  - (* return *) unfold rt_err, fail_here in H; rewrite Hs in H; discriminate.
  - (* if *)
    pose proof (Hev c m Hm Hok) as G. destruct (ev c m) as [[v m1]| | |]; cbn [bind] in H; try discriminate.
    destruct G as [(W1 & (S1 & S2 & S3 & S4 & S5) & L1) Hv]. cbn [fst snd] in *.
    destruct v; try discriminate. destruct b.
    + injection H as <-. eapply shape_next; [exact Hs|cbn; lia|cbn; congruence|cbn; congruence].
    + destruct (skip_block_from code m1 (S (m_pc m1))) as [pc'| | |] eqn:Esk; cbn [bind] in H; try discriminate.
      destruct (skip_from_sd code _ _ _ Esk) as (K1 & (q & bp & -> & Hq) & K3 & K4).
      assert (Hs' : stmt_at code (m_pc m1) = Some (FIf c p)) by (rewrite S1; exact Hs).
      pose proof (sd_S code _ _ Hs') as D0. cbn [delta] in D0.
      assert (ND : forall k, m_pc m1 <= k -> k <= S q -> (sd (m_pc m1) <= sd k)%Z).
      { intros k Hk1 Hk2. destruct (Nat.eq_dec k (m_pc m1)) as [->|]; [lia|]. specialize (K4 k ltac:(lia) Hk2). lia. }
      destruct (stmt_at code (S q)) as [s2|] eqn:Hs2.
      2:{ injection H as <-. apply (shape_after m m1); cbn [set_pc m_pc m_loops]; [exact S1|exact S3|reflexivity|lia|exact ND]. }
      assert (J : forall m'', m'' = set_pc m1 (S q) -> shape m m'').
      { intros m'' ->. apply (shape_after m m1); cbn [set_pc m_pc m_loops]; [exact S1|exact S3|reflexivity|lia|exact ND]. }
      destruct s2; try (injection H as <-; apply J; reflexivity).
      injection H as <-. pose proof (sd_S code _ _ Hs2) as D2. cbn [delta] in D2.
      apply (shape_after m m1); cbn [set_pc m_pc m_loops]; [exact S1|exact S3|reflexivity|lia|].
      intros k Hk1 Hk2. destruct (Nat.eq_dec k (S (S q))) as [->|]; [lia|]. apply ND; lia.
  - (* loop *)
    destruct (stmt_at code (S (m_pc m))) as [s1|] eqn:Hs1; [|discriminate]. destruct s1; try discriminate.
    destruct (skip_block_from code m (S (m_pc m))) as [pc2| | |] eqn:Esk; cbn [bind] in H; try discriminate.
    destruct (stmt_at code pc2) as [s2|] eqn:Hs2; [|discriminate]. destruct s2; try discriminate. injection H as <-.
    eapply sh_loop; eauto.
  - (* continue *)
    destruct (length (m_loops m) <=? m_loop_base m); [unfold rt_err, fail_here in H; rewrite Hs in H; discriminate|].
    destruct (m_loops m) as [|l ls] eqn:El; [discriminate|]. injection H as <-.
    eapply sh_cont; [exact Hs|exact El|reflexivity|reflexivity].
  - (* break *)
    destruct (length (m_loops m) <=? m_loop_base m); [unfold rt_err, fail_here in H; rewrite Hs in H; discriminate|].
    destruct (m_loops m) as [|l ls] eqn:El; [discriminate|]. injection H as <-.
    eapply sh_break; [exact Hs|exact El|reflexivity|reflexivity].
  - (* else *)
    destruct (skip_chain_sd code m _ _ _ H) as (t & -> & T1 & _ & T3 & T4).
    pose proof (sd_S code _ _ Hs) as D0. cbn [delta] in D0.
    apply shape_jump; [lia|]. intros k Hk1 Hk2. destruct (Nat.eq_dec k (m_pc m)) as [->|]; [lia|]. specialize (T4 k ltac:(lia) Hk2). lia.
  - (* end of statements *) unfold rt_err, fail_here in H; rewrite Hs in H; discriminate.
Qed.
End Step.

Theorem step_shape fuel m m' : mwf m -> interp code fuel m = Ok m' -> shape m m'.
Proof.
  intros Hm H. destruct fuel as [|f]; [rewrite interp_O in H; discriminate|]. rewrite interp_S in H.
  destruct (no_panic_fuel code Hcode f) as (Pe_ & _ & _). exact (interp_step_shape _ Pe_ m m' Hm H).
Qed.
End Shape.
