(** C02 / C03: a block runs alone.  Once the machine is inside a block (after its opening brace at [a], before the
    position [z] that follows its closing brace), every further statement it executes is a statement of that block --
    whatever the block contains: nested blocks, chains, loops, function definitions, calls -- until it leaves in one
    of two ways: through the closing brace, arriving at [z] with exactly the loop stack it entered with, or by the
    break / continue of a loop that was already open when the block was entered (or with an error).  It never lands
    in another branch of a chain, in the block of another loop, or behind [z]. *)
From Pakhi Require Import Base Float64 Syntax Tables Lexer Interp.
From Pakhi.Proofs Require Import Unfold Frames WF WFOps FrameInv Scope SkelDefs NoPanic Control ChainWalk Shape.
From Coq Require Import Lia ZArith.
Local Open Scope nat_scope.

Section BlockRun.
Variable code : list fstmt.
Hypothesis Hcode : code_ok code.
Variable fuel : nat.

Notation mwf := (mwf code).
Notation finv := (finv code).
Notation frame_static := (frame_static code).
Notation sd := (sd code).
Notation region := (region code).
Notation shape := (shape code).
Notation steps := (steps code fuel).

Definition within (a z : nat) (l : loop_env) : Prop := a < l_start l /\ l_end l < z.

(* strictly inside the block (a, z): the loops entered since the opening brace lie inside it, below them the loop stack
   of the moment of entry *)
Definition inblk (a z : nat) (L0 : list loop_env) (m : machine) : Prop :=
  a < m_pc m /\ m_pc m < z /\ exists inner, m_loops m = inner ++ L0 /\ Forall (within a z) inner.

Inductive left_block (a z : nat) (L0 : list loop_env) (m : machine) : Prop :=
| lb_end : m_pc m = z -> m_loops m = L0 -> left_block a z L0 m
| lb_jump p : a < m_pc m -> m_pc m < z -> m_loops m = L0 ->
    stmt_at code (m_pc m) = Some (FBreak p) \/ stmt_at code (m_pc m) = Some (FContinue p) -> left_block a z L0 m.

Lemma region_last a z pc s : region a z -> a < pc -> pc < z -> stmt_at code pc = Some s -> (0 <= delta s)%Z -> S pc < z.
Proof.
  intros (Haz & Hz & Hin) H1 H2 Hs Hd. destruct (Nat.eq_dec (S pc) z) as [E|]; [exfalso|lia].
  specialize (Hin pc H1 H2). pose proof (sd_S code _ _ Hs) as D. rewrite E in D. lia.
Qed.

Lemma region_first a z p : region a z -> stmt_at code a = Some (FBlockStart p) -> S a < z.
Proof.
  intros (Haz & Hz & Hin) Hs. destruct (Nat.eq_dec (S a) z) as [E|]; [exfalso|lia].
  pose proof (sd_S code _ _ Hs) as D. rewrite E in D. cbn [delta] in D. lia.
Qed.

Theorem block_step F a z L0 outer f m m' :
  mwf m -> finv F m -> region a z -> L0 = outer ++ f_lower F -> inblk a z L0 m ->
  interp code f m = Ok m' ->
  inblk a z L0 m' \/
  (m_pc m' = z /\ m_loops m' = L0 /\ exists p, stmt_at code (m_pc m) = Some (FBlockEnd p)) \/
  (m_loops m = L0 /\ exists p, stmt_at code (m_pc m) = Some (FBreak p) \/ stmt_at code (m_pc m) = Some (FContinue p)).
Proof.
  intros Hm FI Hreg HL0 (Ha & Hz & inner & Hl & Hin) H.
  pose proof (step_shape code Hcode f m m' Hm H) as Sh.
  destruct (fi_loops code F m FI) as (fl & Efl & _ & Hins & _).
  assert (Einner : fl = inner ++ outer).
  { rewrite Hl, HL0, app_assoc in Efl. apply app_inv_tail in Efl. symmetry. exact Efl. }
  assert (Hinside : Forall (inside (m_pc m)) inner) by (rewrite Einner in Hins; apply Forall_app in Hins; tauto).
  destruct Sh as [S1 S2 S3|p Hs S1 S2|p bp cp pc2 Hs Hs1 Esk Hs2 S1 S2|p l ls Hs El S1 S2|p l ls Hs El S1 S2].
  - (* forward *)
    left. pose proof (fwd_inside code a z (m_pc m) (m_pc m') Hreg Ha Hz S2 S3) as Hlt.
    split; [lia|]. split; [exact Hlt|]. exists inner. rewrite S1. auto.
  - (* closing brace *)
    destruct (Nat.eq_dec (S (m_pc m)) z) as [E|].
    + right. left. split; [congruence|]. split; [|eauto]. rewrite S2, Hl.
      destruct inner as [|l inner']; [reflexivity|exfalso].
      inversion Hin as [|? ? [_ W2] _]; subst. inversion Hinside as [|? ? [_ I2] _]; subst. lia.
    + left. split; [lia|]. split; [lia|]. exists inner. rewrite S2. auto.
  - (* entering a loop *)
    left. pose proof (region_last a z _ _ Hreg Ha Hz Hs ltac:(cbn; lia)) as Hlt.
    destruct (skip_from_sd code _ _ _ Esk) as (K1 & _ & _ & K4).
    pose proof (fwd_inside code a z (S (m_pc m)) pc2 Hreg ltac:(lia) Hlt ltac:(lia) K4) as Hpc2.
    pose proof (region_last a z pc2 _ Hreg ltac:(lia) Hpc2 Hs2 ltac:(cbn; lia)) as Hend.
    split; [lia|]. split; [lia|]. exists (mkLoop (S (m_pc m)) (S pc2) (length (m_scopes m)) :: inner).
    split; [rewrite S2, Hl; reflexivity|]. constructor; [|exact Hin]. split; cbn [l_start l_end]; lia.
  - (* continue *)
    destruct inner as [|l0 inner'].
    + right. right. split; [exact Hl|]. eauto.
    + left. rewrite Hl in El. cbn [app] in El. injection El as <- _.
      inversion Hin as [|? ? [W1 W2] _]; subst. inversion Hinside as [|? ? [I1 I2] _]; subst.
      split; [lia|]. split; [lia|]. exists (l0 :: inner'). rewrite S1. auto.
  - (* break *)
    destruct inner as [|l0 inner'].
    + right. right. split; [exact Hl|]. eauto.
    + left. rewrite Hl in El. cbn [app] in El. injection El as <- <-.
      inversion Hin as [|? ? [W1 W2] Hin']; subst. inversion Hinside as [|? ? [I1 I2] _]; subst.
      split; [lia|]. split; [lia|]. exists inner'. auto.
Qed.

(* through the opening brace *)
Theorem block_enter F a z p f m m' :
  finv F m -> region a z -> stmt_at code a = Some (FBlockStart p) -> m_pc m = a ->
  interp code f m = Ok m' -> inblk a z (m_loops m) m' /\ exists outer, m_loops m = outer ++ f_lower F.
Proof.
  intros FI Hreg Hs Hpc H. destruct f as [|f]; [rewrite interp_O in H; discriminate|]. rewrite interp_S in H.
  unfold interp_step in H. rewrite Hpc, Hs in H. injection H as <-.
  pose proof (region_first a z p Hreg Hs). unfold inblk. cbn [next set_pc set_scopes m_pc m_loops].
  split; [|destruct (fi_loops code F m FI) as (fl & Efl & _); eauto].
  split; [lia|]. split; [lia|]. exists []. split; [reflexivity|constructor].
Qed.

(** any number of statements from a state inside the block: still inside, or the block was left -- through its closing
    brace or at a break / continue of an outer loop -- and every state before that was inside *)
Theorem block_run F a z L0 outer : frame_static F -> region a z -> L0 = outer ++ f_lower F ->
  forall n m m', mwf m -> finv F m -> inblk a z L0 m -> steps n m = Ok m' ->
  inblk a z L0 m' \/
  exists k mk, k <= n /\ steps k m = Ok mk /\ left_block a z L0 mk /\ forall j mj, j < k -> steps j m = Ok mj -> inblk a z L0 mj.
Proof.
  intros FS Hreg HL0. induction n as [|n IH]; intros m m' Hm FI Hin H.
  - cbn in H. injection H as <-. left. exact Hin.
  - cbn [ChainWalk.steps] in H. destruct (interp code (S fuel) m) as [m1| | |] eqn:E1; cbn [bind] in H; try discriminate.
    destruct (interp_keeps_invariants code Hcode (S fuel) m m1 Hm E1) as [Hm1 Fr]. specialize (Fr F FS FI).
    destruct (block_step F a z L0 outer (S fuel) m m1 Hm FI Hreg HL0 Hin E1) as [Hin1|[(Hz & Hl & _)|(Hl & p & Hs)]].
    + destruct (IH m1 m' Hm1 Fr Hin1 H) as [Hin'|(k & mk & Hk & Hsk & Hlb & Hbefore)]; [left; exact Hin'|right].
      exists (S k), mk. split; [lia|]. split; [cbn [ChainWalk.steps]; rewrite E1; exact Hsk|]. split; [exact Hlb|].
      intros j mj Hj Hsj. destruct j as [|j]; [cbn in Hsj; injection Hsj as <-; exact Hin|].
      cbn [ChainWalk.steps] in Hsj. rewrite E1 in Hsj. cbn [bind] in Hsj. apply (Hbefore j mj); [lia|exact Hsj].
    + right. exists 1, m1. split; [lia|]. split; [cbn [ChainWalk.steps]; rewrite E1; reflexivity|]. split; [apply lb_end; assumption|].
      intros j mj Hj Hsj. assert (j = 0) by lia. subst j. cbn in Hsj. injection Hsj as <-. exact Hin.
    + right. exists 0, m. split; [lia|]. split; [reflexivity|]. destruct Hin as (Ha & Hz & _).
      split; [eapply lb_jump; eauto|]. intros j mj Hj. lia.
Qed.

(* leaving through the closing brace: the scope stack is as high as at the opening brace *)
Theorem block_end_height F a z m0 m : finv F m0 -> finv F m -> region a z -> m_pc m0 = a -> m_pc m = z ->
  length (m_scopes m) = length (m_scopes m0).
Proof.
  intros F0 F1 (_ & Hz & _) H0 H1. pose proof (fi_len code F m0 F0) as L0. pose proof (fi_len code F m F1) as L1.
  rewrite H0 in L0. rewrite H1, Hz in L1. lia.
Qed.

(* a block written as  pre ++ { body } ++ post  with a well-bracketed body is such a region *)
Lemma balanced_dsum seg : balanced seg -> dsum seg = 0%Z /\ forall k, (0 <= dsum (firstn k seg))%Z.
Proof.
  induction 1 as [|s r Hs He Hr [IH1 IH2]|p q body r Hb [IHb1 IHb2] Hr [IHr1 IHr2]].
  - split; [reflexivity|]. intros k. rewrite firstn_nil. cbn. lia.
  - assert (Hd : delta s = 0%Z) by (destruct s; try reflexivity; discriminate).
    split; [cbn [dsum]; lia|]. intros [|k]; cbn [firstn dsum]; [lia|]. specialize (IH2 k). lia.
  - split.
    + cbn [dsum delta]. rewrite dsum_app. cbn [dsum delta]. lia.
    + intros [|k]; cbn [firstn dsum delta]; [lia|]. rewrite firstn_app, dsum_app.
      destruct (k - length body) as [|j] eqn:Ej.
      * cbn [firstn dsum]. specialize (IHb2 k). lia.
      * rewrite firstn_all2 by lia. cbn [firstn dsum delta]. specialize (IHr2 j). lia.
Qed.

Theorem region_of_block pre p body q post : code = pre ++ FBlockStart p :: body ++ FBlockEnd q :: post -> balanced body ->
  region (length pre) (length pre + length body + 2).
Proof.
  intros Hc Hb. destruct (balanced_dsum body Hb) as [B1 B2].
  assert (G : forall n, sd (length pre + n) = (dsum pre + dsum (firstn n (FBlockStart p :: body ++ FBlockEnd q :: post)))%Z).
  { intros n. unfold Frames.sd. rewrite Hc, firstn_app_2, dsum_app. reflexivity. }
  assert (Hsd : forall j, j <= length body -> sd (length pre + S j) = (dsum pre + 1 + dsum (firstn j body))%Z).
  { intros j Hj. rewrite G. rewrite firstn_cons. cbn [dsum delta]. rewrite firstn_app. replace (j - length body) with 0 by lia.
    cbn [firstn]. rewrite app_nil_r. lia. }
  assert (Ha : sd (length pre) = dsum pre).
  { rewrite <- (Nat.add_0_r (length pre)), G. cbn [firstn dsum]. lia. }
  split; [lia|]. split.
  - replace (length pre + length body + 2) with (length pre + S (S (length body))) by lia.
    rewrite G, Ha. rewrite firstn_cons. cbn [dsum delta]. rewrite firstn_app, dsum_app.
    rewrite firstn_all2 by lia. replace (S (length body) - length body) with 1 by lia. cbn [firstn dsum delta]. lia.
  - intros k H1 H2. replace k with (length pre + S (k - length pre - 1)) by lia. rewrite Hsd by lia. rewrite Ha.
    specialize (B2 (k - length pre - 1)). lia.
Qed.
End BlockRun.
