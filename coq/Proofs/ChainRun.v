(** C02, the whole statement in one theorem: in a chain whose first k conditions are false and whose (k+1)-th is true,
    k+2 statements after the chain's first `if` the machine is behind the opening brace of branch k+1, and from there on
    it executes statements of that branch only, until it leaves the branch through its closing brace -- arriving at the
    position right behind it, which holds the chain's next else (C02_after_a_branch_the_rest_is_skipped: it jumps behind
    the chain) or the first statement after the chain -- or at the break / continue of a loop around the chain. *)
From Pakhi Require Import Base Float64 Syntax Tables Lexer Interp.
From Pakhi.Proofs Require Import Unfold Frames WF WFOps FrameInv Scope SkelDefs NoPanic Control ChainWalk Shape BlockRun.
From Coq Require Import Lia ZArith.
Local Open Scope nat_scope.

Section ChainRun.
Variable code : list fstmt.
Hypothesis Hcode : code_ok code.
Variable fuel : nat.

Notation mwf := (mwf code).
Notation finv := (finv code).
Notation frame_static := (frame_static code).
Notation steps := (steps code fuel).

Lemma steps_keep F : frame_static F -> forall n m m', mwf m -> finv F m -> steps n m = Ok m' -> mwf m' /\ finv F m'.
Proof.
  intros FS. induction n as [|n IH]; intros m m' Hm FI H.
  - cbn in H. injection H as <-. auto.
  - cbn [ChainWalk.steps] in H. destruct (interp code (S fuel) m) as [m1| | |] eqn:E1; cbn [bind] in H; try discriminate.
    destruct (interp_keeps_invariants code Hcode (S fuel) m m1 Hm E1) as [Hm1 Fr]. exact (IH m1 m' Hm1 (Fr F FS FI) H).
Qed.

Lemma steps_add : forall n k x, steps (n + k) x = do y <- steps n x; steps k y.
Proof. induction n as [|n IHn]; intros k x; cbn [ChainWalk.steps Nat.add bind]; [reflexivity|]. destruct (interp code (S fuel) x); cbn [bind]; auto. Qed.

Theorem chain_runs_the_selected_branch_alone F fs b post m m' m1 pre :
  frame_static F -> mwf m -> finv F m ->
  code = pre ++ false_prefix fs ++ br_code b ++ post ->
  Forall (fun be => balanced (br_body (fst be))) fs -> balanced (br_body b) ->
  m_pc m = length pre -> falses code fuel fs m m' ->
  eval code fuel (br_c b) m' = Ok (VBool true, m1) ->
  let a := length pre + length (false_prefix fs) + 1 in
  let z := length pre + length (false_prefix fs) + length (br_code b) in
  exists m2 m3,
    steps (S (length fs)) m = Ok m2 /\ m_pc m2 = a /\ stmt_at code a = Some (FBlockStart (br_bp b)) /\
    steps (S (S (length fs))) m = Ok m3 /\ inblk a z (m_loops m2) m3 /\
    stmt_at code z = nth_error post 0 /\
    forall n m4, steps n m3 = Ok m4 ->
      inblk a z (m_loops m2) m4 \/
      exists k mk, k <= n /\ steps k m3 = Ok mk /\ left_block code a z (m_loops m2) mk /\
                   forall j mj, j < k -> steps j m3 = Ok mj -> inblk a z (m_loops m2) mj.
Proof.
  intros FS Hm FI Hc Hb Hbb Hpc Hf He a z.
  destruct (walk_false_branches code fuel fs pre (br_code b ++ post) m m' Hc Hb Hpc Hf) as [S1 S2].
  destruct (steps_keep F FS _ _ _ Hm FI S1) as [Hm' FI'].
  assert (Hs : stmt_at code (m_pc m') = Some (FIf (br_c b) (br_p b))).
  { rewrite S2. eapply stmt_at_app_off. rewrite Hc. unfold br_code. cbn [app]. reflexivity. }
  pose proof (code_stmt_ok code Hcode _ _ Hs) as Hok. cbn [stmt_ok] in Hok.
  destruct (eval_restores_caller code Hcode fuel _ _ _ _ Hm' Hok He) as (Hpc1 & _).
  destruct (chain_selects_first_true code fuel fs b post m m' m1 pre Hc Hb Hpc Hf He) as [T1 T2].
  destruct (T2 Hpc1) as [T3 T4]. fold a in T3. rewrite T3 in T4.
  destruct (steps_keep F FS _ _ _ Hm FI T1) as [Hm2 FI2].
  set (m2 := next m1) in *.
  (* the block *)
  assert (Hreg : region code a z).
  { pose proof (region_of_block code (pre ++ false_prefix fs ++ [FIf (br_c b) (br_p b)]) (br_bp b) (br_body b) (br_bq b) post) as R.
    assert (El : length (pre ++ false_prefix fs ++ [FIf (br_c b) (br_p b)]) = a) by (unfold a; rewrite !app_length; cbn [length]; lia).
    rewrite El in R. replace z with (a + length (br_body b) + 2) by (unfold a, z; rewrite br_code_len; lia).
    apply R; [|exact Hbb]. rewrite Hc. unfold br_code. rewrite <- !app_assoc. cbn [app]. rewrite <- !app_assoc. reflexivity. }
  (* through the opening brace *)
  assert (E3 : interp code (S fuel) m2 = Ok (next (set_scopes m2 ([] :: m_scopes m2)))).
  { rewrite interp_S. unfold interp_step. rewrite T3, T4. reflexivity. }
  set (m3 := next (set_scopes m2 ([] :: m_scopes m2))) in *.
  destruct (block_enter code F a z (br_bp b) (S fuel) m2 m3 FI2 Hreg T4 T3 E3) as [Hin3 [outer Hout]].
  destruct (interp_keeps_invariants code Hcode (S fuel) m2 m3 Hm2 E3) as [Hm3 Fr3]. specialize (Fr3 F FS FI2).
  exists m2, m3. split; [exact T1|]. split; [exact T3|]. split; [exact T4|]. split.
  { replace (S (S (length fs))) with (S (length fs) + 1) by lia. rewrite steps_add, T1. cbn [bind ChainWalk.steps]. rewrite E3. reflexivity. }
  split; [exact Hin3|]. split.
  { unfold z. rewrite <- Nat.add_assoc, <- app_length.
    rewrite (stmt_at_after code pre (false_prefix fs ++ br_code b) post) by (rewrite Hc, <- !app_assoc; reflexivity).
    destruct post; reflexivity. }
  intros n m4 H4. exact (block_run code Hcode fuel F a z (m_loops m2) outer FS Hreg Hout n m3 m4 Hm3 Fr3 Hin3 H4).
Qed.
End ChainRun.
