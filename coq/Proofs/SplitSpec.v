(** C17: what the fields of a split ARE, and the corrected converse.
    [fields_ok sep l]: in every field but the last, followed by the separator, the separator occurs only at the very end
    (so the separator that ends the field is the LEFTMOST occurrence in what was left of the string); in the last field
    it does not occur at all.  Together with join (split s sep) sep = s (SplitJoin.v) this determines the split:
    - [split_fields_ok]: the fields of every split satisfy it;
    - [split_join_general]: every non-empty list that satisfies it is returned by split after join -- for separators of
      any length.  This is the statement "joining then splitting returns the list" with the hypothesis it needs:
      "no element contains the separator" is not enough when an occurrence can straddle an inserted separator (D23). *)
From Pakhi Require Import Base Float64 Syntax Tables Lexer Interp.
From Pakhi.Proofs Require Import SplitJoin.
From Coq Require Import Lia.
Local Open Scope nat_scope.

Definition occurs_at (sep s : text) (k : nat) : bool := starts_with (skipn k s) sep.

(* in f ++ sep the separator occurs only at position |f| *)
Definition only_at_end (sep f : text) : Prop := forall k, k < length f -> occurs_at sep (f ++ sep) k = false.
Definition nowhere (sep f : text) : Prop := forall k, occurs_at sep f k = false.

Fixpoint fields_ok (sep : text) (l : list text) : Prop :=
  match l with
  | [] => True
  | [f] => nowhere sep f
  | f :: r => only_at_end sep f /\ fields_ok sep r
  end.

Lemma fields_ok_cons sep f r : r <> [] -> fields_ok sep (f :: r) = (only_at_end sep f /\ fields_ok sep r).
Proof. destruct r; [congruence|reflexivity]. Qed.

Lemma starts_with_nil_false p : p <> [] -> starts_with [] p = false.
Proof. destruct p; [congruence|reflexivity]. Qed.

Lemma starts_with_nil s : starts_with s [] = true.
Proof. destruct s; reflexivity. Qed.

Lemma starts_with_prefix : forall p a b, length p <= length a -> starts_with (a ++ b) p = starts_with a p.
Proof.
  induction p as [|c p IH]; intros a b H; [rewrite !starts_with_nil; reflexivity|].
  destruct a as [|d a]; [simpl in H; lia|]. cbn [app starts_with]. rewrite IH by (simpl in H; lia). reflexivity.
Qed.

Lemma starts_with_self p s : starts_with (p ++ s) p = true.
Proof. induction p as [|c p IH]; [apply starts_with_nil|]. cbn [app starts_with]. rewrite N.eqb_refl, IH. reflexivity. Qed.

Lemma skipn_app_l {A} (a b : list A) k : k <= length a -> skipn k (a ++ b) = skipn k a ++ b.
Proof. intros H. rewrite skipn_app. replace (k - length a) with 0 by lia. reflexivity. Qed.

(** the fields of a split *)
Lemma split_go_fields_ok sep : sep <> [] -> forall fuel s t, length s < fuel ->
  (forall k, k < length t -> occurs_at sep (t ++ s) k = false) ->
  fields_ok sep (split_go fuel s sep (rev t)).
Proof.
  intros Hsep. induction fuel as [|fuel IH]; intros s t Hf Hpre; [lia|].
  cbn [split_go]. destruct s as [|c r].
  - (* the last field *)
    rewrite rev_involutive. cbn [fields_ok]. intros k. unfold occurs_at.
    destruct (Nat.lt_ge_cases k (length t)) as [Hk|Hk].
    + specialize (Hpre k Hk). rewrite app_nil_r in Hpre. exact Hpre.
    + rewrite skipn_all2 by lia. apply starts_with_nil_false. exact Hsep.
  - destruct (starts_with (c :: r) sep) eqn:E.
    + rewrite rev_involutive.
      rewrite fields_ok_cons by apply split_go_nonempty. split.
      * intros k Hk. unfold occurs_at. specialize (Hpre k Hk). unfold occurs_at in Hpre.
        rewrite (starts_with_app _ _ E) in Hpre. rewrite app_assoc in Hpre.
        rewrite skipn_app_l in Hpre by (rewrite app_length; lia).
        rewrite starts_with_prefix in Hpre; [exact Hpre|].
        rewrite skipn_length, app_length. lia.
      * apply (IH (skipn (length sep) (c :: r)) []).
        -- rewrite skipn_length. destruct sep; [congruence|]. simpl in *. lia.
        -- simpl. intros k Hk. lia.
    + replace (c :: rev t) with (rev (t ++ [c])) by (rewrite rev_app_distr; reflexivity).
      apply IH; [simpl in Hf; lia|].
      intros k Hk. rewrite app_length in Hk. simpl in Hk. rewrite <- app_assoc. cbn [app].
      destruct (Nat.eq_dec k (length t)) as [->|Hn].
      * unfold occurs_at. rewrite skipn_app_l by lia. rewrite skipn_all. exact E.
      * apply Hpre. lia.
Qed.

Theorem split_fields_ok s sep : sep <> [] -> fields_ok sep (str_split s sep).
Proof.
  intros Hsep. unfold str_split. destruct sep as [|c sep]; [congruence|].
  apply (split_go_fields_ok (c :: sep) ltac:(discriminate) (S (length s)) s []); [lia|]. simpl. intros k Hk. lia.
Qed.

(** the converse: a list with these fields is what split returns on its join *)
Lemma split_go_of_join sep : sep <> [] -> forall l, l <> [] -> fields_ok sep l ->
  forall u t fuel, hd [] l = t ++ u -> length (u ++ skipn (length (hd [] l)) (str_join l sep)) < fuel ->
  split_go fuel (u ++ skipn (length (hd [] l)) (str_join l sep)) sep (rev t) = l.
Proof.
  intros Hsep. induction l as [|f r IHl]; intros Hne Hok; [congruence|].
  cbn [hd]. destruct r as [|g r].
  - (* one field *)
    cbn [str_join fields_ok] in *. rewrite skipn_all.
    induction u as [|c u IHu]; intros t fuel Hf Hfuel.
    + rewrite app_nil_r in Hf. subst f. destruct fuel; [simpl in Hfuel; lia|]. cbn [app split_go]. rewrite rev_involutive. reflexivity.
    + destruct fuel; [simpl in Hfuel; lia|]. rewrite app_nil_r in *. cbn [split_go].
      assert (E : starts_with (c :: u) sep = false).
      { specialize (Hok (length t)). unfold occurs_at in Hok. rewrite Hf in Hok. rewrite skipn_app_l in Hok by lia.
        rewrite skipn_all in Hok. exact Hok. }
      rewrite E. replace (c :: rev t) with (rev (t ++ [c])) by (rewrite rev_app_distr; reflexivity).
      specialize (IHu (t ++ [c]) fuel). rewrite ?app_nil_r in IHu. apply IHu; [rewrite <- app_assoc; exact Hf|simpl in Hfuel; lia].
  - (* f, then the separator, then the rest *)
    rewrite fields_ok_cons in Hok by discriminate. destruct Hok as [Hf1 Hrest].
    rewrite str_join_cons by discriminate.
    rewrite skipn_app_l by lia. rewrite skipn_all. cbn [app].
    induction u as [|c u IHu]; intros t fuel Hf Hfuel.
    + rewrite app_nil_r in Hf. subst f. cbn [app] in *.
      destruct fuel; [lia|]. cbn [split_go].
      destruct (sep ++ str_join (g :: r) sep) as [|c0 s0] eqn:Es.
      { destruct sep; [congruence|discriminate]. }
      rewrite <- Es. rewrite starts_with_self. rewrite rev_involutive. f_equal.
      rewrite skipn_app_l by lia. rewrite skipn_all. cbn [app].
      specialize (IHl ltac:(discriminate) Hrest (hd [] (g :: r)) [] fuel). cbn [rev app hd] in IHl.
      assert (Hj : g ++ skipn (length g) (str_join (g :: r) sep) = str_join (g :: r) sep).
      { destruct r as [|g2 r]; [cbn [str_join]; rewrite skipn_all, app_nil_r; reflexivity|].
        rewrite str_join_cons by discriminate. rewrite skipn_app_l by lia. rewrite skipn_all. reflexivity. }
      rewrite Hj in IHl. apply IHl; [reflexivity|].
      rewrite ?Es in Hfuel. cbn [app length] in Hfuel.
      assert (length (c0 :: s0) = length sep + length (str_join (g :: r) sep)) by (rewrite <- Es, app_length; reflexivity).
      destruct sep; [congruence|]. simpl in *. lia.
    + destruct fuel; [simpl in Hfuel; lia|]. cbn [app split_go].
      assert (E : starts_with (c :: u ++ sep ++ str_join (g :: r) sep) sep = false).
      { specialize (Hf1 (length t)). unfold occurs_at in Hf1. rewrite Hf in Hf1.
        assert (Hlt : length t < length (t ++ c :: u)) by (rewrite app_length; simpl; lia).
        specialize (Hf1 Hlt). rewrite <- app_assoc in Hf1. rewrite skipn_app_l in Hf1 by lia. rewrite skipn_all in Hf1. cbn [app] in Hf1.
        replace (c :: u ++ sep ++ str_join (g :: r) sep) with ((c :: u ++ sep) ++ str_join (g :: r) sep)
          by (cbn [app]; rewrite <- app_assoc; reflexivity).
        rewrite starts_with_prefix; [exact Hf1|]. simpl. rewrite app_length. lia. }
      rewrite E. replace (c :: rev t) with (rev (t ++ [c])) by (rewrite rev_app_distr; reflexivity).
      apply IHu; [rewrite <- app_assoc; exact Hf|cbn [app length] in Hfuel; lia].
Qed.

Theorem split_join_general sep l : sep <> [] -> l <> [] -> fields_ok sep l -> str_split (str_join l sep) sep = l.
Proof.
  intros Hsep Hne Hok. unfold str_split. destruct sep as [|c sep0] eqn:Es; [congruence|]. rewrite <- Es in *.
  pose proof (split_go_of_join sep Hsep l Hne Hok (hd [] l) [] (S (length (str_join l sep))) eq_refl) as H.
  assert (Hj : hd [] l ++ skipn (length (hd [] l)) (str_join l sep) = str_join l sep).
  { destruct l as [|f r]; [congruence|]. cbn [hd]. destruct r as [|g r]; [cbn [str_join]; rewrite skipn_all, app_nil_r; reflexivity|].
    rewrite str_join_cons by discriminate. rewrite skipn_app_l by lia. rewrite skipn_all. reflexivity. }
  rewrite Hj in H. apply H. lia.
Qed.

(* a one-character separator that occurs in no element: the special case proved before *)
Lemma no_char_fields_ok c : forall l, Forall (fun x => ~ In c x) l -> fields_ok [c] l.
Proof.
  assert (Hno : forall x, ~ In c x -> forall y k, k < length x -> occurs_at [c] (x ++ y) k = false).
  { intros x Hx y k Hk. unfold occurs_at. rewrite skipn_app_l by lia.
    destruct (skipn k x) as [|d rest] eqn:E.
    - assert (length (skipn k x) = 0) by (rewrite E; reflexivity). rewrite skipn_length in H. lia.
    - cbn [app starts_with]. destruct (N.eqb c d) eqn:Ecd; [|reflexivity]. apply N.eqb_eq in Ecd. subst d.
      exfalso. apply Hx. rewrite <- (firstn_skipn k x). apply in_or_app. right. rewrite E. left. reflexivity. }
  induction l as [|f r IH]; intros Hl; [exact I|].
  inversion Hl as [|? ? Hf Hr]; subst. destruct r as [|g r].
  - cbn [fields_ok]. intros k. destruct (Nat.lt_ge_cases k (length f)) as [Hk|Hk].
    + specialize (Hno f Hf [] k Hk). rewrite app_nil_r in Hno. exact Hno.
    + unfold occurs_at. rewrite skipn_all2 by lia. reflexivity.
  - rewrite fields_ok_cons by discriminate. split; [|apply IH; exact Hr].
    intros k Hk. apply Hno; assumption.
Qed.

(* the D23 list violates the hypothesis: in "a" ++ "aa" the separator occurs at position 0 as well *)
Example d23_is_not_fields_ok : ~ fields_ok [97%N; 97%N] [[97%N]; []].
Proof. intros [H _]. specialize (H 0 ltac:(simpl; lia)). vm_compute in H. discriminate. Qed.
