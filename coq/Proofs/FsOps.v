(** C20: the file built-ins over the finite-map model of the file system ([w_fs]: path -> file content | directory).
    Ops: 10 _রিড-ফাইল, 11 _রাইট-ফাইল, 12 _ডিলিট-ফাইল, 13 _নতুন-ডাইরেক্টরি, 14 _রিড-ডাইরেক্টরি, 15 _ডিলিট-ডাইরেক্টরি, 16 _ফাইল-নাকি-ডাইরেক্টরি, 5 _রিড-লাইন. *)
From Pakhi Require Import Base Float64 Syntax Tables Lexer Interp.
From Pakhi.Proofs Require Import Assoc.
From Coq Require Import Lia.
Local Open Scope nat_scope.

Section Fs.
Variable code : list fstmt.

Lemma fail_here_not_ok {A} k m (x : A) : fail_here code k m = Ok x -> False.
Proof. unfold fail_here, unexpected_at. destruct (stmt_at code (m_pc m)); discriminate. Qed.
Ltac no_fail := match goal with H : fail_here _ _ _ = Ok _ |- _ => exfalso; exact (fail_here_not_ok _ _ _ H)
                              | H : rt_err _ _ = Ok _ |- _ => exfalso; exact (fail_here_not_ok _ _ _ H) end.

(* a successful write makes exactly that text the content of the file (replacing earlier content), and nothing else *)
Theorem write_then_read m p0 c v m' :
  builtin_op code 11 [VStr p0; VStr c] m = Ok (v, m') ->
  v = VBool true /\
  builtin_op code 10 [VStr p0] m' = Ok (VStr c, m') /\
  (forall q, q <> fs_norm (m_world m) p0 -> fs_get (m_world m') q = fs_get (m_world m) q) /\
  m_heap m' = m_heap m /\ m_out m' = m_out m /\ m_scopes m' = m_scopes m.
Proof.
  unfold builtin_op. cbn [Nat.eqb].
  set (w := m_world m). set (p := fs_norm w p0).
  intros H.
  assert (Heq : (v, m') = (VBool true, set_world m (fs_set w p (FsFile c)))).
  { destruct (fs_get w p) as [[c0| |]|] eqn:E; try no_fail;
      destruct (fs_parent_ok w p && negb (text_eqb p [])) eqn:E2; try no_fail;
      injection H as <- <-; reflexivity. }
  injection Heq as -> ->.
  split; [reflexivity|].
  assert (Hnorm : fs_norm (fs_set w p (FsFile c)) p0 = p) by reflexivity.
  cbn [m_world set_world]. rewrite Hnorm.
  split; [|split; [|auto]].
  - unfold fs_get, fs_set. cbn [w_fs]. rewrite alist_get_set_same. reflexivity.
  - intros q Hq. unfold fs_get, fs_set. cbn [w_fs]. apply alist_get_set_other. exact Hq.
Qed.

(* reading a path that is not a text file is an error *)
Theorem read_missing_is_error m p0 :
  (forall c, fs_get (m_world m) (fs_norm (m_world m) p0) <> Some (FsFile c)) ->
  builtin_op code 10 [VStr p0] m = fail_here code ERuntime m.
Proof.
  intros H. unfold builtin_op. cbn [Nat.eqb].
  destruct (fs_get (m_world m) (fs_norm (m_world m) p0)) as [[c| |]|] eqn:E; try reflexivity.
  exfalso. apply (H c). reflexivity.
Qed.

(* after a successful delete a read of the path is an error *)
Theorem delete_then_read m p0 v m' :
  builtin_op code 12 [VStr p0] m = Ok (v, m') -> builtin_op code 10 [VStr p0] m' = fail_here code ERuntime m'.
Proof.
  unfold builtin_op. cbn [Nat.eqb]. set (w := m_world m). set (p := fs_norm w p0).
  intros H.
  assert (Hm : m' = set_world m (mkWorld (alist_remove (text_eqb p) (w_fs w)) (w_stdin w) (w_cwd w))).
  { destruct (fs_get w p) as [[c| |]|]; try no_fail; injection H as _ <-; reflexivity. }
  subst m'. cbn [m_world set_world].
  assert (Hn : fs_norm (mkWorld (alist_remove (text_eqb p) (w_fs w)) (w_stdin w) (w_cwd w)) p0 = p) by reflexivity.
  rewrite Hn. unfold fs_get. cbn [w_fs]. rewrite alist_get_remove_same. reflexivity.
Qed.

(* a successfully created directory (missing parents included) is reported as a directory *)
Lemma mkdirs_last w ps w' p : mkdirs w (ps ++ [p]) = Some w' -> fs_get w' p = Some FsDir.
Proof.
  revert w. induction ps as [|q ps IH]; intros w; simpl.
  - destruct (fs_get w p) as [[c| |]|] eqn:E; try discriminate.
    + intros H; injection H as <-. exact E.
    + intros H; injection H as <-. unfold fs_get, fs_set. cbn [w_fs]. apply alist_get_set_same.
  - destruct (fs_get w q) as [[c| |]|]; try discriminate; apply IH.
Qed.

Lemma mkdirs_cwd ps : forall w w', mkdirs w ps = Some w' -> w_cwd w' = w_cwd w.
Proof.
  induction ps as [|q ps IH]; intros w w' E; simpl in E.
  - injection E as <-. reflexivity.
  - destruct (fs_get w q) as [[c| |]|]; try discriminate.
    + apply IH in E. exact E.
    + apply IH in E. exact E.
Qed.

Lemma path_prefixes_last acc p : exists ps, path_prefixes acc p = ps ++ [rev acc ++ p].
Proof.
  revert acc. induction p as [|c r IH]; intros acc; simpl.
  - exists []. rewrite app_nil_r. reflexivity.
  - destruct (IH (c :: acc)) as [ps Hps]. rewrite Hps. simpl. rewrite <- app_assoc. simpl.
    eexists. rewrite app_assoc. reflexivity.
Qed.

Theorem mkdir_then_is_dir m p0 v m' : fs_norm (m_world m) p0 <> [] ->
  builtin_op code 13 [VStr p0] m = Ok (v, m') ->
  builtin_op code 16 [VStr p0] m' = Ok (VStr text_dir, m').
Proof.
  unfold builtin_op. cbn [Nat.eqb]. set (w := m_world m). set (p := fs_norm w p0).
  intros Hne H. destruct p as [|c0 p'] eqn:Ep; [congruence|].
  destruct (mkdirs w (path_prefixes [] (c0 :: p'))) as [w'|] eqn:E; [|no_fail].
  injection H as _ <-. cbn [m_world set_world].
  assert (Hcwd : w_cwd w' = w_cwd w) by (eapply mkdirs_cwd; exact E).
  assert (Hn : fs_norm w' p0 = c0 :: p') by (unfold fs_norm; rewrite Hcwd; exact Ep).
  rewrite Hn.
  destruct (path_prefixes_last [] (c0 :: p')) as [ps Hps]. rewrite Hps in E.
  apply mkdirs_last in E. change (rev [] ++ c0 :: p') with (c0 :: p') in E. rewrite E. reflexivity.
Qed.

(* _রিড-লাইন returns the next input line without its terminator and trailing blanks, and consumes it *)
Theorem read_line_next m l r : w_stdin (m_world m) = l :: r ->
  builtin_op code 5 [] m = Ok (VStr (trim_end l), set_world m (mkWorld (w_fs (m_world m)) r (w_cwd (m_world m)))).
Proof. intros H. unfold builtin_op. cbn [Nat.eqb]. rewrite H. reflexivity. Qed.

Lemma drop_ws_no_trailing r : match drop_ws r with c :: _ => is_whitespace c = false | [] => True end.
Proof. induction r as [|c r IH]; simpl; auto. destruct (is_whitespace c) eqn:E; [exact IH|exact E]. Qed.

(* the result has no trailing blank, and only trailing blanks were removed *)
Theorem trim_end_spec l : exists ws, l = trim_end l ++ ws /\ forallb is_whitespace ws = true /\
  (match rev (trim_end l) with c :: _ => is_whitespace c = false | [] => True end).
Proof.
  unfold trim_end. rewrite rev_involutive.
  assert (G : forall r, exists ws, r = ws ++ drop_ws r /\ forallb is_whitespace ws = true).
  { induction r as [|c r IH]; simpl; [exists []; auto|].
    destruct (is_whitespace c) eqn:E.
    - destruct IH as [ws [H1 H2]]. exists (c :: ws). simpl. rewrite E, H2. split; [f_equal; exact H1|reflexivity].
    - exists []. auto. }
  destruct (G (rev l)) as [ws [H1 H2]].
  exists (rev ws). split; [|split].
  - rewrite <- rev_app_distr, <- H1, rev_involutive. reflexivity.
  - rewrite forallb_forall in *. intros x Hx. apply H2. apply in_rev. exact Hx.
  - apply drop_ws_no_trailing.
Qed.

(* every failure of the file map is an error value at the current statement, never a panic *)
Theorem fs_ops_never_panic m op args : 10 <= op <= 16 ->
  match builtin_op code op args m with Panic _ => False | OutOfFuel => False | _ => True end.
Proof.
  intros Hop. unfold builtin_op.
  do 10 (destruct op as [|op]; [lia|]).
  assert (Hfh : forall k, match @fail_here code (value * machine) k m with Panic _ => False | OutOfFuel => False | _ => True end).
  { intros k. unfold fail_here, unexpected_at. destruct (stmt_at code (m_pc m)); exact I. }
  do 7 (destruct op as [|op]; [cbn [Nat.eqb];
    repeat match goal with
    | |- context [match ?x with _ => _ end] => is_var x; destruct x
    | |- context [match fs_get ?a ?b with _ => _ end] => destruct (fs_get a b) as [[?| |]|]
    | |- context [if ?c then _ else _] => destruct c
    | |- context [match mkdirs ?a ?b with _ => _ end] => destruct (mkdirs a b)
    | |- context [let '(_, _) := alloc_list ?a ?b in _] => destruct (alloc_list a b)
    | |- context [match fs_norm ?a ?b with _ => _ end] => destruct (fs_norm a b)
    end; try exact I; try apply Hfh|]).
  lia.
Qed.
End Fs.
