(** C19 / C14 / C11: the relation of SimDefs.v generalised.  Besides container addresses the two machines may differ in
    (i) the names of their variables (an injective renaming [rho] that fixes built-in names), (ii) the position of the
    program in the statement vector (an offset [off]: function values, loop entries and return addresses are shifted),
    (iii) extra variables on the left that the program on the right never mentions (scopes are related only on a set [N] of
    names), (iv) what had been written before (an output prefix, in Sim2.v) and (v) line/file metadata (a position map,
    in Sim2.v).  This file: values, heaps, scopes, loops; every heap and scope primitive respects the relation. *)
From Pakhi Require Import Base Float64 Syntax Tables Lexer Interp.
From Pakhi.Proofs Require Import SimDefs.
From Coq Require Import Lia.
Local Open Scope nat_scope.

Section Defs2.
Variable rho : text -> text.
Variable off : nat.
Hypothesis rho_inj : forall x y, rho x = rho y -> x = y.

Definition vrel2 (p : ren) (v1 v2 : value) : Prop :=
  match v1, v2 with
  | VNum x, VNum y => x = y
  | VBool x, VBool y => x = y
  | VStr x, VStr y => x = y
  | VList a, VList b => rl p a b
  | VRec a, VRec b => rr p a b
  | VFun s ps, VFun s' ps' => s = s' + off /\ ps = map rho ps'
  | VNil, VNil => True
  | _, _ => False
  end.
Definition erel2 (p : ren) (kv1 kv2 : text * value) : Prop := fst kv1 = fst kv2 /\ vrel2 p (snd kv1) (snd kv2).

Record hrel2 (p : ren) (h1 h2 : heap) : Prop := {
  hr_l2 : forall a b, rl p a b -> exists l1 l2, nth_error (h_lists h1) a = Some l1 /\ nth_error (h_lists h2) b = Some l2 /\ Forall2 (vrel2 p) l1 l2;
  hr_r2 : forall a b, rr p a b -> exists r1 r2, nth_error (h_recs h1) a = Some r1 /\ nth_error (h_recs h2) b = Some r2 /\ Forall2 (erel2 p) r1 r2;
  hr_fl12 : forall a, In a (h_free_lists h1) -> a < length (h_lists h1) /\ forall b, ~ rl p a b;
  hr_fl22 : forall b, In b (h_free_lists h2) -> b < length (h_lists h2) /\ forall a, ~ rl p a b;
  hr_fr12 : forall a, In a (h_free_recs h1) -> a < length (h_recs h1) /\ forall b, ~ rr p a b;
  hr_fr22 : forall b, In b (h_free_recs h2) -> b < length (h_recs h2) /\ forall a, ~ rr p a b;
  hr_nd2 : NoDup (h_free_lists h1) /\ NoDup (h_free_lists h2) /\ NoDup (h_free_recs h1) /\ NoDup (h_free_recs h2) }.


Lemma vrel_mono2 p q v1 v2 : ren_le p q -> vrel2 p v1 v2 -> vrel2 q v1 v2.
Proof. intros [A B]. destruct v1, v2; simpl; auto. Qed.
Lemma erel_mono2 p q e1 e2 : ren_le p q -> erel2 p e1 e2 -> erel2 q e1 e2.
Proof. intros H [A B]. split; auto. eapply vrel_mono2; eauto. Qed.
Lemma vrels_mono2 p q l1 l2 : ren_le p q -> Forall2 (vrel2 p) l1 l2 -> Forall2 (vrel2 q) l1 l2.
Proof. intros H. apply Forall2_impl. intros a b. apply vrel_mono2. exact H. Qed.
Lemma erels_mono2 p q l1 l2 : ren_le p q -> Forall2 (erel2 p) l1 l2 -> Forall2 (erel2 q) l1 l2.
Proof. intros H. apply Forall2_impl. intros a b. apply erel_mono2. exact H. Qed.

Lemma text_eqb_rho x y : text_eqb (rho x) (rho y) = text_eqb x y.
Proof.
  destruct (text_eqb x y) eqn:E.
  - apply text_eqb_eq in E. subst. apply text_eqb_refl.
  - destruct (text_eqb (rho x) (rho y)) eqn:E2; auto. apply text_eqb_eq in E2. apply rho_inj in E2. subst. rewrite text_eqb_refl in E. discriminate.
Qed.
Lemma params_eqb_rho p1 : forall p2,
  forallb (fun '(x, y) => text_eqb x y) (combine (map rho p1) (map rho p2)) = forallb (fun '(x, y) => text_eqb x y) (combine p1 p2).
Proof. induction p1 as [|x p1 IH]; intros [|y p2]; simpl; auto. rewrite text_eqb_rho, IH. reflexivity. Qed.
Lemma eqb_add_r a b : (a + off =? b + off) = (a =? b).
Proof. destruct (a =? b) eqn:E; [apply Nat.eqb_eq in E; subst; apply Nat.eqb_refl|apply Nat.eqb_neq in E; apply Nat.eqb_neq; lia]. Qed.

Lemma value_eqb_rel2 p v1 v2 w1 w2 : bij p -> vrel2 p v1 v2 -> vrel2 p w1 w2 -> value_eqb v1 w1 = value_eqb v2 w2.
Proof.
  intros B Hv Hw. destruct v1, v2; simpl in Hv; try contradiction; destruct w1, w2; simpl in Hw; try contradiction; subst; simpl; auto.
  - destruct (Nat.eqb a a1) eqn:E1, (Nat.eqb a0 a2) eqn:E2; auto.
    + apply Nat.eqb_eq in E1. subst. apply Nat.eqb_neq in E2. exfalso. apply E2. eapply bl_fun; eauto.
    + apply Nat.eqb_eq in E2. subst. apply Nat.eqb_neq in E1. exfalso. apply E1. eapply bl_inj; eauto.
  - destruct (Nat.eqb a a1) eqn:E1, (Nat.eqb a0 a2) eqn:E2; auto.
    + apply Nat.eqb_eq in E1. subst. apply Nat.eqb_neq in E2. exfalso. apply E2. eapply br_fun; eauto.
    + apply Nat.eqb_eq in E2. subst. apply Nat.eqb_neq in E1. exfalso. apply E1. eapply br_inj; eauto.
  - destruct Hv as [-> ->]. destruct Hw as [-> ->]. rewrite eqb_add_r, !map_length, params_eqb_rho. reflexivity.
Qed.

Lemma type_name_rel2 p v1 v2 : vrel2 p v1 v2 -> type_name v1 = type_name v2.
Proof. destruct v1, v2; simpl; try contradiction; auto. Qed.

Lemma map_VStr_rel2 p (l : list text) : Forall2 (vrel2 p) (map VStr l) (map VStr l).
Proof. induction l; simpl; constructor; simpl; auto. Qed.


Lemma alist_get_rel2 p k l1 l2 : Forall2 (erel2 p) l1 l2 ->
  match alist_get k l1, alist_get k l2 with
  | Some v1, Some v2 => vrel2 p v1 v2
  | None, None => True
  | _, _ => False
  end.
Proof.
  intros F. induction F as [|[k1 v1] [k2 v2] l1 l2 [Hk Hv] F IH]; simpl; auto.
  simpl in Hk. subst k2. destruct (text_eqb k k1); auto.
Qed.
Lemma alist_has_rel2 p k l1 l2 : Forall2 (erel2 p) l1 l2 -> alist_has k l1 = alist_has k l2.
Proof. intros F. unfold alist_has. pose proof (alist_get_rel2 p k l1 l2 F) as H. destruct (alist_get k l1), (alist_get k l2); auto; contradiction. Qed.
Lemma alist_set_rel2 p k v1 v2 l1 l2 : Forall2 (erel2 p) l1 l2 -> vrel2 p v1 v2 -> Forall2 (erel2 p) (alist_set k v1 l1) (alist_set k v2 l2).
Proof.
  intros F Hv. induction F as [|[k1 w1] [k2 w2] l1 l2 [Hk Hw] F IH]; simpl.
  - repeat constructor; auto.
  - simpl in Hk. subst k2. destruct (text_eqb k k1); constructor; auto; split; auto.
Qed.

Lemma get_list_rel2 p h1 h2 a b : hrel2 p h1 h2 -> rl p a b ->
  exists l1 l2, get_list h1 a = Ok l1 /\ get_list h2 b = Ok l2 /\ Forall2 (vrel2 p) l1 l2.
Proof. intros H R. destruct (hr_l2 _ _ _ H a b R) as (l1 & l2 & E1 & E2 & F). exists l1, l2. unfold get_list. rewrite E1, E2. auto. Qed.
Lemma get_rec_rel2 p h1 h2 a b : hrel2 p h1 h2 -> rr p a b ->
  exists l1 l2, get_rec h1 a = Ok l1 /\ get_rec h2 b = Ok l2 /\ Forall2 (erel2 p) l1 l2.
Proof. intros H R. destruct (hr_r2 _ _ _ H a b R) as (l1 & l2 & E1 & E2 & F). exists l1, l2. unfold get_rec. rewrite E1, E2. auto. Qed.

Lemma hrel_put_list2 p h1 h2 a b l1 l2 : bij p -> hrel2 p h1 h2 -> rl p a b -> Forall2 (vrel2 p) l1 l2 ->
  hrel2 p (put_list h1 a l1) (put_list h2 b l2).
Proof.
  intros B H R F. destruct (hr_l2 _ _ _ H a b R) as (o1 & o2 & E1 & E2 & _).
  apply nth_error_lt in E1. apply nth_error_lt in E2.
  constructor; simpl; try rewrite !list_set_length'; try apply H.
  intros a' b' R'. destruct (Nat.eq_dec a' a) as [->|Na].
  - assert (b' = b) by (eapply bl_fun; eauto). subst b'.
    exists l1, l2. rewrite !nth_error_list_set_eq by assumption. auto.
  - assert (b' <> b) by (intros ->; apply Na; eapply bl_inj; eauto).
    rewrite !nth_error_list_set_neq by congruence. apply H. exact R'.
Qed.

Lemma hrel_put_rec2 p h1 h2 a b l1 l2 : bij p -> hrel2 p h1 h2 -> rr p a b -> Forall2 (erel2 p) l1 l2 ->
  hrel2 p (put_rec h1 a l1) (put_rec h2 b l2).
Proof.
  intros B H R F. destruct (hr_r2 _ _ _ H a b R) as (o1 & o2 & E1 & E2 & _).
  apply nth_error_lt in E1. apply nth_error_lt in E2.
  constructor; simpl; try rewrite !list_set_length'; try apply H.
  intros a' b' R'. destruct (Nat.eq_dec a' a) as [->|Na].
  - assert (b' = b) by (eapply br_fun; eauto). subst b'.
    exists l1, l2. rewrite !nth_error_list_set_eq by assumption. auto.
  - assert (b' <> b) by (intros ->; apply Na; eapply br_inj; eauto).
    rewrite !nth_error_list_set_neq by congruence. apply H. exact R'.
Qed.

Lemma hrel_fresh_l12 p h1 h2 a : hrel2 p h1 h2 -> In a (h_free_lists h1) \/ a = length (h_lists h1) -> forall y, ~ rl p a y.
Proof.
  intros H [Hin| ->] y R; [eapply (hr_fl12 _ _ _ H); eauto|].
  destruct (hr_l2 _ _ _ H _ _ R) as (l1 & _ & E & _). apply nth_error_lt in E. lia.
Qed.
Lemma hrel_fresh_l22 p h1 h2 b : hrel2 p h1 h2 -> In b (h_free_lists h2) \/ b = length (h_lists h2) -> forall x, ~ rl p x b.
Proof.
  intros H [Hin| ->] x R; [eapply (hr_fl22 _ _ _ H); eauto|].
  destruct (hr_l2 _ _ _ H _ _ R) as (_ & l2 & _ & E & _). apply nth_error_lt in E. lia.
Qed.
Lemma hrel_fresh_r12 p h1 h2 a : hrel2 p h1 h2 -> In a (h_free_recs h1) \/ a = length (h_recs h1) -> forall y, ~ rr p a y.
Proof.
  intros H [Hin| ->] y R; [eapply (hr_fr12 _ _ _ H); eauto|].
  destruct (hr_r2 _ _ _ H _ _ R) as (l1 & _ & E & _). apply nth_error_lt in E. lia.
Qed.
Lemma hrel_fresh_r22 p h1 h2 b : hrel2 p h1 h2 -> In b (h_free_recs h2) \/ b = length (h_recs h2) -> forall x, ~ rr p x b.
Proof.
  intros H [Hin| ->] x R; [eapply (hr_fr22 _ _ _ H); eauto|].
  destruct (hr_r2 _ _ _ H _ _ R) as (_ & l2 & _ & E & _). apply nth_error_lt in E. lia.
Qed.

(** allocation on both sides: the two fresh slots become related *)
Lemma hrel_alloc_list2 p h1 h2 l1 l2 a1 g1 a2 g2 : bij p -> hrel2 p h1 h2 -> Forall2 (vrel2 p) l1 l2 ->
  alloc_list h1 l1 = (a1, g1) -> alloc_list h2 l2 = (a2, g2) ->
  let q := ext_l p a1 a2 in ren_le p q /\ bij q /\ rl q a1 a2 /\ hrel2 q g1 g2.
Proof.
  intros B H F E1 E2 q.
  destruct (hr_nd2 _ _ _ H) as (N1 & N2 & N3 & N4).
  destruct (alloc_list_spec _ _ _ _ (fun x Hx => proj1 (hr_fl12 _ _ _ H x Hx)) N1 E1) as (S1 & O1 & Fr1 & Fl1 & Nd1 & Le1 & Rc1 & Fc1).
  destruct (alloc_list_spec _ _ _ _ (fun x Hx => proj1 (hr_fl22 _ _ _ H x Hx)) N2 E2) as (S2 & O2 & Fr2 & Fl2 & Nd2 & Le2 & Rc2 & Fc2).
  pose proof (hrel_fresh_l12 _ _ _ _ H Fr1) as Fa. pose proof (hrel_fresh_l22 _ _ _ _ H Fr2) as Fb.
  assert (Hle : ren_le p q) by apply ext_l_le.
  split; [exact Hle|]. split; [apply ext_l_bij; auto|]. split; [simpl; auto|].
  constructor.
  - intros x y [R|[-> ->]].
    + destruct (hr_l2 _ _ _ H _ _ R) as (o1 & o2 & X1 & X2 & Fo).
      exists o1, o2. rewrite O1, O2; [|intros ->; eapply Fb; eauto|intros ->; eapply Fa; eauto].
      repeat split; auto. eapply vrels_mono2; eauto.
    + exists l1, l2. repeat split; auto. eapply vrels_mono2; eauto.
  - rewrite Rc1, Rc2. intros x y R. destruct (hr_r2 _ _ _ H _ _ R) as (o1 & o2 & X1 & X2 & Fo).
    exists o1, o2. repeat split; auto. eapply erels_mono2; eauto.
  - intros x Hx. destruct (Fl1 x Hx) as [Hin Hne]. destruct (hr_fl12 _ _ _ H x Hin) as [L Nr]. split; [lia|].
    intros y [R|[-> _]]; [eapply Nr; eauto|congruence].
  - intros y Hy. destruct (Fl2 y Hy) as [Hin Hne]. destruct (hr_fl22 _ _ _ H y Hin) as [L Nr]. split; [lia|].
    intros x [R|[_ ->]]; [eapply Nr; eauto|congruence].
  - rewrite Rc1, Fc1. apply H.
  - rewrite Rc2, Fc2. apply H.
  - rewrite Fc1, Fc2. auto.
Qed.

Lemma hrel_alloc_rec2 p h1 h2 l1 l2 a1 g1 a2 g2 : bij p -> hrel2 p h1 h2 -> Forall2 (erel2 p) l1 l2 ->
  alloc_rec h1 l1 = (a1, g1) -> alloc_rec h2 l2 = (a2, g2) ->
  let q := ext_r p a1 a2 in ren_le p q /\ bij q /\ rr q a1 a2 /\ hrel2 q g1 g2.
Proof.
  intros B H F E1 E2 q.
  destruct (hr_nd2 _ _ _ H) as (N1 & N2 & N3 & N4).
  destruct (alloc_rec_spec _ _ _ _ (fun x Hx => proj1 (hr_fr12 _ _ _ H x Hx)) N3 E1) as (S1 & O1 & Fr1 & Fl1 & Nd1 & Le1 & Rc1 & Fc1).
  destruct (alloc_rec_spec _ _ _ _ (fun x Hx => proj1 (hr_fr22 _ _ _ H x Hx)) N4 E2) as (S2 & O2 & Fr2 & Fl2 & Nd2 & Le2 & Rc2 & Fc2).
  pose proof (hrel_fresh_r12 _ _ _ _ H Fr1) as Fa. pose proof (hrel_fresh_r22 _ _ _ _ H Fr2) as Fb.
  assert (Hle : ren_le p q) by apply ext_r_le.
  split; [exact Hle|]. split; [apply ext_r_bij; auto|]. split; [simpl; auto|].
  constructor.
  - rewrite Rc1, Rc2. intros x y R. destruct (hr_l2 _ _ _ H _ _ R) as (o1 & o2 & X1 & X2 & Fo).
    exists o1, o2. repeat split; auto. eapply vrels_mono2; eauto.
  - intros x y [R|[-> ->]].
    + destruct (hr_r2 _ _ _ H _ _ R) as (o1 & o2 & X1 & X2 & Fo).
      exists o1, o2. rewrite O1, O2; [|intros ->; eapply Fb; eauto|intros ->; eapply Fa; eauto].
      repeat split; auto. eapply erels_mono2; eauto.
    + exists l1, l2. repeat split; auto. eapply erels_mono2; eauto.
  - rewrite Rc1, Fc1. apply H.
  - rewrite Rc2, Fc2. apply H.
  - intros x Hx. destruct (Fl1 x Hx) as [Hin Hne]. destruct (hr_fr12 _ _ _ H x Hin) as [L Nr]. split; [lia|].
    intros y [R|[-> _]]; [eapply Nr; eauto|congruence].
  - intros y Hy. destruct (Fl2 y Hy) as [Hin Hne]. destruct (hr_fr22 _ _ _ H y Hin) as [L Nr]. split; [lia|].
    intros x [R|[_ ->]]; [eapply Nr; eauto|congruence].
  - rewrite Fc1, Fc2. auto.
Qed.

(** ** scopes: related on the names in [N]; the left scope may hold further variables *)
Variable N : text -> Prop.
Variable o1 : list chunk.

Definition orelv (p : ren) (a b : option value) : Prop :=
  match a, b with Some v1, Some v2 => vrel2 p v1 v2 | None, None => True | _, _ => False end.
Definition srel (p : ren) (sA sB : scope) : Prop := forall x, N x -> orelv p (alist_get (rho x) sA) (alist_get x sB).

Lemma orelv_mono p q a b : ren_le p q -> orelv p a b -> orelv q a b.
Proof. intros H. destruct a, b; simpl; auto. apply vrel_mono2. exact H. Qed.
Lemma srel_mono p q sA sB : ren_le p q -> srel p sA sB -> srel q sA sB.
Proof. intros H S x Hx. eapply orelv_mono; eauto. Qed.
Lemma ssrel_mono p q s1 s2 : ren_le p q -> Forall2 (srel p) s1 s2 -> Forall2 (srel q) s1 s2.
Proof. intros H. apply Forall2_impl. intros a b. apply srel_mono. exact H. Qed.
Lemma srel_nil p : srel p [] [].
Proof. intros x _. exact I. Qed.

Lemma alist_get_set_same {A} key (v : A) l : alist_get key (alist_set key v l) = Some v.
Proof. induction l as [|[k' v'] l IH]; simpl; [rewrite text_eqb_refl; reflexivity|]. destruct (text_eqb key k') eqn:E; simpl; [rewrite text_eqb_refl; reflexivity|rewrite E; exact IH]. Qed.
Lemma alist_get_set_other {A} key key' (v : A) l : key <> key' -> alist_get key' (alist_set key v l) = alist_get key' l.
Proof.
  intros Hne. induction l as [|[k2 v2] l IH]; simpl.
  - destruct (text_eqb key' key) eqn:E; [apply text_eqb_eq in E; congruence|reflexivity].
  - destruct (text_eqb key k2) eqn:E; simpl.
    + apply text_eqb_eq in E. subst k2. destruct (text_eqb key' key) eqn:E2; [apply text_eqb_eq in E2; congruence|reflexivity].
    + destruct (text_eqb key' k2); [reflexivity|exact IH].
Qed.

Lemma srel_set p x v1 v2 sA sB : srel p sA sB -> vrel2 p v1 v2 -> srel p (alist_set (rho x) v1 sA) (alist_set x v2 sB).
Proof.
  intros S Hv y Hy. destruct (list_eq_dec N.eq_dec x y) as [->|Hne].
  - rewrite !alist_get_set_same. exact Hv.
  - rewrite !alist_get_set_other; [apply S; exact Hy|exact Hne|]. intros E. apply Hne. apply rho_inj. exact E.
Qed.

Lemma lookup_rel2 p x s1 s2 : N x -> Forall2 (srel p) s1 s2 -> orelv p (lookup_var (rho x) s1) (lookup_var x s2).
Proof.
  intros Hx F. induction F as [|a b s1 s2 Hab F IH]; simpl; [exact I|].
  pose proof (Hab x Hx) as H. destruct (alist_get (rho x) a), (alist_get x b); simpl in H; try contradiction; auto.
Qed.

Lemma assign_rel2 p x v1 v2 s1 s2 : N x -> Forall2 (srel p) s1 s2 -> vrel2 p v1 v2 ->
  match assign_var (rho x) v1 s1, assign_var x v2 s2 with
  | Some t1, Some t2 => Forall2 (srel p) t1 t2
  | None, None => True
  | _, _ => False
  end.
Proof.
  intros Hx F Hv. induction F as [|a b s1 s2 Hab F IH]; simpl; auto.
  pose proof (Hab x Hx) as H. unfold alist_has.
  destruct (alist_get (rho x) a), (alist_get x b); simpl in H; try contradiction.
  - constructor; auto. apply srel_set; auto.
  - destruct (assign_var (rho x) v1 s1), (assign_var x v2 s2); auto; try contradiction.
Qed.

(** ** loop entries, shifted *)
Definition lrel (lA lB : loop_env) : Prop :=
  l_start lA = l_start lB + off /\ l_end lA = l_end lB + off /\ l_depth lA = l_depth lB.

(** ** machines *)
Record mrel2 (p : ren) (mA mB : machine) : Prop := {
  m2_pc : m_pc mA = m_pc mB + off;
  m2_sc : Forall2 (srel p) (m_scopes mA) (m_scopes mB);
  m2_lp : Forall2 lrel (m_loops mA) (m_loops mB);
  m2_lb : m_loop_base mA = m_loop_base mB;
  m2_ret : m_ret mA = map (fun r => r + off) (m_ret mB);
  m2_h : hrel2 p (m_heap mA) (m_heap mB);
  m2_out : m_out mA = m_out mB ++ o1;
  m2_w : m_world mA = m_world mB }.

Lemma mrel2_set_heap p q m1 m2 h1 h2 : ren_le p q -> mrel2 p m1 m2 -> hrel2 q h1 h2 -> mrel2 q (set_heap m1 h1) (set_heap m2 h2).
Proof. intros L [A B C D E F G I] H. constructor; simpl; auto. eapply ssrel_mono; eauto. Qed.
Lemma mrel2_set_pc p m1 m2 pc : mrel2 p m1 m2 -> mrel2 p (set_pc m1 (pc + off)) (set_pc m2 pc).
Proof. intros [A B C D E F G I]. constructor; simpl; auto. Qed.
Lemma mrel2_next p m1 m2 : mrel2 p m1 m2 -> mrel2 p (next m1) (next m2).
Proof. intros H. unfold next. rewrite (m2_pc _ _ _ H). change (S (m_pc m2 + off)) with (S (m_pc m2) + off). apply mrel2_set_pc. exact H. Qed.
Lemma mrel2_set_scopes p m1 m2 s1 s2 : mrel2 p m1 m2 -> Forall2 (srel p) s1 s2 -> mrel2 p (set_scopes m1 s1) (set_scopes m2 s2).
Proof. intros [A B C D E F G I] H. constructor; simpl; auto. Qed.
Lemma mrel2_set_loops p m1 m2 l1 l2 : mrel2 p m1 m2 -> Forall2 lrel l1 l2 -> mrel2 p (set_loops m1 l1) (set_loops m2 l2).
Proof. intros [A B C D E F G I] H. constructor; simpl; auto. Qed.
Lemma mrel2_set_world p m1 m2 w : mrel2 p m1 m2 -> mrel2 p (set_world m1 w) (set_world m2 w).
Proof. intros [A B C D E F G I]. constructor; simpl; auto. Qed.
Lemma mrel2_emit p m1 m2 c : mrel2 p m1 m2 -> mrel2 p (emit m1 c) (emit m2 c).
Proof. intros [A B C D E F G I]. constructor; simpl; auto. rewrite G. reflexivity. Qed.
Lemma mrel2_emit_all p cs : forall m1 m2, mrel2 p m1 m2 -> mrel2 p (emit_all m1 cs) (emit_all m2 cs).
Proof. unfold emit_all. induction cs as [|c cs IH]; intros m1 m2 H; simpl; auto. apply IH. apply mrel2_emit. exact H. Qed.
End Defs2.
