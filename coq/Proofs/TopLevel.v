(** C03 / C19: the frame invariant at top level, for whole runs.  The top level is a frame like a function body
    (FrameInv.v: [top_frame], one global scope below the blocks), so at EVERY statement boundary of EVERY run of an
    accepted program: the height of the scope stack is 1 + the static block depth of the position, every active loop
    records exactly that height and its own closing continue, the position is inside each of them, loops are properly
    nested, no call is pending.  Hence break / continue at top level cut the scope stack exactly (C03), and at a position
    outside every block and loop the control state is neutral (C19). *)
From Pakhi Require Import Base Float64 Syntax Tables Lexer Interp.
From Pakhi.Proofs Require Import Unfold Frames WF WFOps FrameInv NoPanic GCMark GCSweep SimDefs GCInvisible HeapPre HeapBound.
From Coq Require Import Lia ZArith.
Local Open Scope nat_scope.

Section Top.
Variable code : list fstmt.
Hypothesis Hcode : code_ok code.
Notation mwf := (mwf code).

(** ** a generic invariant principle for [run] *)
Lemma run_invariant (I : machine -> Prop) :
  (forall f m m', mwf m -> I m -> interp code f m = Ok m' -> I m') ->
  (forall sched b m m', mwf m -> I m -> boundary sched b m = Ok m' -> I m') ->
  forall fuel sched b m, mwf m -> I m -> let m' := snd (run code fuel sched b m) in mwf m' /\ I m'.
Proof.
  intros Hstep Hbd. induction fuel as [|f IH]; intros sched b m W Hi; [split; assumption|].
  cbv zeta. rewrite run_S. destruct (stmt_at code (m_pc m)) as [s|]; [|split; assumption].
  destruct (is_eos s); [split; assumption|].
  destruct (interp code f m) as [m1| | |] eqn:Hint; try (split; assumption).
  destruct (interp_keeps_invariants code Hcode f m m1 W Hint) as [W1 _].
  pose proof (Hstep f m m1 W Hi Hint) as I1.
  destruct (boundary_total code sched b m1 W1) as (m2 & Hb). rewrite Hb.
  apply IH; [eapply boundary_mwf; eauto|eapply Hbd; eauto].
Qed.

(* what a boundary leaves untouched *)
Lemma boundary_fields sched b m m' : boundary sched b m = Ok m' ->
  m_pc m' = m_pc m /\ m_scopes m' = m_scopes m /\ m_loops m' = m_loops m /\ m_loop_base m' = m_loop_base m /\ m_ret m' = m_ret m /\
  m_out m' = m_out m /\ m_world m' = m_world m.
Proof.
  unfold boundary. destruct (should_collect sched b m).
  - destruct (collect (m_scopes m) (m_heap m)); try discriminate. intros H. injection H as <-. simpl. repeat split.
  - intros H. injection H as <-. destruct sched; simpl; repeat split.
Qed.

(** ** the top-level frame invariant holds at every boundary of every run *)
Definition tinv (m : machine) : Prop := finv code (top_frame code) m.

Lemma tinv_init platform w : tinv (init_machine platform w).
Proof.
  constructor; cbn [init_machine top_frame f_lo f_hi f_off f_lower f_ret m_pc m_scopes m_loops m_loop_base m_ret]; try lia; auto.
  exists []. split; [reflexivity|]. split; [constructor|]. split; [constructor|exact I].
Qed.

Theorem tinv_run fuel sched b m : mwf m -> tinv m -> let m' := snd (run code fuel sched b m) in mwf m' /\ tinv m'.
Proof.
  apply (run_invariant tinv).
  - intros f m0 m' W Hi Hint. destruct (interp_keeps_invariants code Hcode f m0 m' W Hint) as [_ Fr]. apply Fr; [apply top_frame_static|exact Hi].
  - intros s b0 m0 m' W Hi Hb. destruct (boundary_fields _ _ _ _ Hb) as (E1 & E2 & E3 & E4 & E5 & _).
    eapply finv_sf; [|exact Hi]. repeat split; congruence.
Qed.

(** ** free lists never list a slot twice *)
Definition nodup_free (m : machine) : Prop := NoDup (h_free_lists (m_heap m)) /\ NoDup (h_free_recs (m_heap m)).

Theorem nodup_run fuel sched b m : mwf m -> nodup_free m -> let m' := snd (run code fuel sched b m) in mwf m' /\ nodup_free m'.
Proof.
  apply (run_invariant nodup_free).
  - intros f m0 m' W [N1 N2] Hint. destruct (interp_hstep code f m0 m' Hint) as (pl & pr & E & F & _).
    rewrite E in N1. rewrite F in N2. split; eapply NoDup_app_r; eauto.
  - intros s b0 m0 m' W [N1 N2] Hb. unfold boundary in Hb. destruct (should_collect s b0 m0).
    + pose proof (hok_wf_heap code _ (w_h code m0 W)) as Wh. pose proof (sok_wf_scopes code _ _ (w_sc code m0 W)) as Ws.
      destruct (collect_correct _ _ Wh Ws) as (h' & Ec & P). rewrite Ec in Hb. injection Hb as <-. simpl.
      split; [apply (cp_nodup_list _ _ _ P N1)|apply (cp_nodup_rec _ _ _ P N2)].
    + injection Hb as <-. destruct s; simpl; split; assumption.
Qed.

(** ** neutral control state outside every block and loop *)
Definition closed_at (pc : nat) : Prop :=
  sd code pc = 0%Z /\ forall l, loop_ok code (top_frame code) l -> ~ inside pc l.

Theorem top_neutral platform w fuel sched : code <> [] ->
  let m := snd (run code fuel sched 0 (init_machine platform w)) in
  closed_at (m_pc m) ->
  mwf m /\ length (m_scopes m) = 1 /\ m_loops m = [] /\ m_loop_base m = 0 /\ m_ret m = [] /\ nodup_free m.
Proof.
  intros Hne m [Hsd Hout].
  pose proof (mwf_init code Hcode platform w Hne) as W0.
  destruct (tinv_run fuel sched 0 _ W0 (tinv_init platform w)) as [W T].
  destruct (nodup_run fuel sched 0 _ W0 (conj (NoDup_nil _) (NoDup_nil _))) as [_ Nd].
  destruct (finv_top_neutral code _ T Hsd Hout) as (A & B & C & D).
  split; [exact W|]. split; [exact A|]. split; [exact B|]. split; [exact C|]. split; [exact D|exact Nd].
Qed.
End Top.
