(** C19, end to end: run P1;P2 from the initial state with any fuel and schedule; if the run is observed at the first
    statement of P2, that position lies outside every block and loop, and P1 has bound none of the names P2 mentions, then
    running on and running P2 alone end alike.  (TopLevel.v: the control state there is neutral and the free lists are
    duplicate free; Compose.v: from such a state the two runs are indistinguishable.) *)
From Pakhi Require Import Base Float64 Syntax Tables Lexer Parser Interp.
From Pakhi.Proofs Require Import Unfold Frames WF WFOps FrameInv NoPanic SimDefs Sim Sim2Defs Sim2 GCInvisible Compose TopLevel.
From Coq Require Import Lia ZArith.
Local Open Scope nat_scope.

Theorem compose_from_start (N : text -> Prop) c1 c2 pi platform w fuel1 sched1 fuel schedA schedB bA :
  let codeA := c1 ++ map (smap idn pi) c2 in
  let mA := snd (run codeA fuel1 sched1 0 (init_machine platform w)) in
  code_ok codeA -> code_ok c2 -> c2 <> [] ->
  m_pc mA = length c1 -> closed_at codeA (length c1) ->
  (forall pc s, stmt_at c2 pc = Some s -> Forall N (snames s)) ->
  (forall g, m_scopes mA = [g] -> alist_get platform_const g = Some (VStr platform) /\
             forall x, N x -> x <> platform_const -> alist_get x g = None) ->
  same_end2 pi (m_out mA) (fst (run codeA fuel schedA bA mA)) (fst (run c2 fuel schedB 0 (init_machine platform (m_world mA)))).
Proof.
  intros codeA mA HcA HcB Hne Hpc Hclosed Hnames Hg.
  assert (HneA : codeA <> []) by (unfold codeA; destruct c1; simpl; [destruct c2; [congruence|discriminate]|discriminate]).
  rewrite <- Hpc in Hclosed.
  destruct (top_neutral codeA HcA platform w fuel1 sched1 HneA Hclosed) as (W & Hlen & Hlp & Hlb & Hret & Nd1 & Nd2).
  fold mA in W, Hlen, Hlp, Hlb, Hret, Nd1, Nd2.
  destruct (m_scopes mA) as [|g [|g2 r]] eqn:Hsc; simpl in Hlen; try discriminate.
  apply (compose N c1 c2 pi mA platform fuel schedA schedB bA); auto.
  exists g. split; [exact Hsc|]. apply Hg. reflexivity.
Qed.
