(** C02 / C03 / C05 / C19: the control bookkeeping of the flat statement machine.
    Every step lemma holds for *every* machine state [m]: the successor state is a function of the code, the program
    counter and (for a condition) the condition's value -- the machine has no component in which earlier conditionals,
    returns or breaks could leave a trace (no if-flag stack: [machine] has the fields m_pc, m_scopes, m_loops,
    m_loop_base, m_ret, m_heap, m_out, m_world, m_collections and nothing else). *)
From Pakhi Require Import Base Float64 Syntax Tables Lexer Interp.
From Pakhi.Proofs Require Import Assoc Scope Unfold.
From Coq Require Import Lia.
Local Open Scope nat_scope.

Definition is_bs (s : fstmt) : bool := match s with FBlockStart _ => true | _ => false end.
Definition is_be (s : fstmt) : bool := match s with FBlockEnd _ => true | _ => false end.

(* well-bracketed flat code: what the parser emits for the inside of a block *)
Inductive balanced : list fstmt -> Prop :=
| bal_nil : balanced []
| bal_plain s r : is_bs s = false -> is_be s = false -> balanced r -> balanced (s :: r)
| bal_block p q body r : balanced body -> balanced r -> balanced (FBlockStart p :: body ++ FBlockEnd q :: r).

Lemma balanced_app a b : balanced a -> balanced b -> balanced (a ++ b).
Proof.
  intros Ha Hb. induction Ha as [|s r Hs He Hr IH|p q body r Hbody IHb Hr IHr]; simpl; auto.
  - apply bal_plain; auto.
  - rewrite <- app_assoc. simpl. apply bal_block; auto.
Qed.

Ltac norm_apps := repeat (rewrite <- ?app_assoc; cbn [app]).
(* goal: code = <some re-association of the right-hand side of Hc> *)
Ltac solve_code Hc := rewrite Hc at 1; norm_apps; reflexivity.
Ltac solve_len := repeat (rewrite ?app_length; cbn [length]); lia.

Section Code.
Variable code : list fstmt.

Lemma stmt_at_app pre x post : code = pre ++ x :: post -> stmt_at code (length pre) = Some x.
Proof. intros ->. unfold stmt_at. rewrite nth_error_app2 by lia. rewrite Nat.sub_diag. reflexivity. Qed.

Lemma stmt_at_app_off pre mid x post : code = pre ++ mid ++ x :: post -> stmt_at code (length pre + length mid) = Some x.
Proof. intros H. rewrite app_assoc in H. rewrite <- app_length. eapply stmt_at_app. exact H. Qed.

(* skipping over a balanced segment at depth >= 1 does not change the depth *)
Lemma skip_balanced seg : balanced seg -> forall pre post d fuel m,
  code = pre ++ seg ++ post -> length seg <= fuel ->
  skip_block code fuel m (length pre) (S d) = skip_block code (fuel - length seg) m (length pre + length seg) (S d).
Proof.
  induction 1 as [|s r Hs He Hr IH|p q body r Hbody IHb Hr IHr]; intros pre post d fuel m Hc Hf.
  - simpl. rewrite Nat.add_0_r, Nat.sub_0_r. reflexivity.
  - simpl in Hf. destruct fuel as [|f]; [lia|]. cbn [skip_block].
    rewrite (stmt_at_app pre s (r ++ post)) by (solve_code Hc).
    assert (Hstep : skip_block code f m (S (length pre)) (S d) = skip_block code (f - length r) m (S (length pre) + length r) (S d)).
    { replace (S (length pre)) with (length (pre ++ [s])) by solve_len.
      apply IH with (post := post); [solve_code Hc|lia]. }
    destruct s; simpl in Hs, He; try discriminate; rewrite Hstep; simpl; f_equal; lia.
  - simpl in Hf. rewrite app_length in Hf. simpl in Hf.
    destruct fuel as [|f]; [lia|]. cbn [skip_block].
    rewrite (stmt_at_app pre (FBlockStart p) ((body ++ FBlockEnd q :: r) ++ post)) by (solve_code Hc).
    (* over the body at depth S (S d) *)
    replace (S (length pre)) with (length (pre ++ [FBlockStart p])) by solve_len.
    rewrite (IHb (pre ++ [FBlockStart p]) (FBlockEnd q :: r ++ post) (S d) f m);
      [|solve_code Hc|lia].
    (* the closing brace *)
    destruct (f - length body) as [|f2] eqn:Ef; [lia|]. cbn [skip_block].
    assert (Hbe : stmt_at code (length (pre ++ [FBlockStart p]) + length body) = Some (FBlockEnd q)).
    { apply stmt_at_app_off with (post := r ++ post). solve_code Hc. }
    rewrite Hbe.
    replace (S (length (pre ++ [FBlockStart p]) + length body)) with (length (pre ++ FBlockStart p :: body ++ [FBlockEnd q]))
      by solve_len.
    rewrite (IHr (pre ++ FBlockStart p :: body ++ [FBlockEnd q]) post d f2 m);
      [|solve_code Hc|lia].
    f_equal; solve_len.
Qed.

Lemma skip_step_bs fuel m pc d p : stmt_at code pc = Some (FBlockStart p) ->
  skip_block code (S fuel) m pc d = skip_block code fuel m (S pc) (S d).
Proof. intros H. cbn [skip_block]. rewrite H. reflexivity. Qed.

Lemma skip_step_be_last fuel m pc q : stmt_at code pc = Some (FBlockEnd q) ->
  skip_block code (S fuel) m pc 1 = Ok (S pc).
Proof. intros H. cbn [skip_block]. rewrite H. reflexivity. Qed.

(** skip_block started on a block lands on the statement after the matching close -- whatever blocks, loops and
    conditionals the block contains *)
Theorem skip_block_lands_after pre p body q post m :
  code = pre ++ FBlockStart p :: body ++ FBlockEnd q :: post -> balanced body ->
  skip_block_from code m (length pre) = Ok (length pre + length body + 2).
Proof.
  intros Hc Hb. unfold skip_block_from.
  assert (Hlen : length code = length pre + S (length body + S (length post))) by (rewrite Hc; solve_len).
  replace (S (length code - length pre)) with (S (S (length body + S (length post)))) by lia.
  rewrite (skip_step_bs _ m (length pre) 0 p) by (apply stmt_at_app with (post := body ++ FBlockEnd q :: post); solve_code Hc).
  replace (S (length pre)) with (length (pre ++ [FBlockStart p])) by solve_len.
  rewrite (skip_balanced body Hb (pre ++ [FBlockStart p]) (FBlockEnd q :: post) 0 (S (length body + S (length post))) m);
    [|solve_code Hc|lia].
  replace (S (length body + S (length post)) - length body) with (S (S (length post))) by lia.
  rewrite (skip_step_be_last _ m _ q) by (apply stmt_at_app_off with (post := post); solve_code Hc).
  f_equal. solve_len.
Qed.
End Code.

(** ** Conditionals *)
Section Chains.
Variable code : list fstmt.

(* a true condition enters its block; nothing but the evaluation of the condition happened *)
Theorem if_true fuel m c p m1 : stmt_at code (m_pc m) = Some (FIf c p) ->
  eval code fuel c m = Ok (VBool true, m1) -> interp code (S fuel) m = Ok (next m1).
Proof. intros Hs He. rewrite interp_S; unfold interp_step. rewrite Hs, He. reflexivity. Qed.

(* a non-boolean condition is a runtime error located at the condition *)
Theorem if_non_boolean fuel m c p v m1 : stmt_at code (m_pc m) = Some (FIf c p) ->
  eval code fuel c m = Ok (v, m1) -> (forall b, v <> VBool b) ->
  interp code (S fuel) m = fail_at ERuntime (expr_pos c) m1.
Proof.
  intros Hs He Hv. rewrite interp_S; unfold interp_step. rewrite Hs, He. cbn [bind].
  destruct v; try reflexivity. exfalso. eapply Hv. reflexivity.
Qed.

(* a false condition skips its block; a directly following else is consumed, so that the next condition or the
   else block is what runs next *)
Theorem if_false fuel m c p m1 pre bp body bq post :
  code = pre ++ FIf c p :: FBlockStart bp :: body ++ FBlockEnd bq :: post -> balanced body ->
  m_pc m = length pre -> m_pc m1 = m_pc m ->
  eval code fuel c m = Ok (VBool false, m1) ->
  interp code (S fuel) m =
    Ok (set_pc m1 (match post with FElse _ :: _ => length pre + length body + 4 | _ => length pre + length body + 3 end)).
Proof.
  intros Hc Hb Hpc Hpc1 He. rewrite interp_S; unfold interp_step.
  rewrite Hpc, (stmt_at_app code pre (FIf c p) _ Hc). rewrite He. cbn [bind]. rewrite Hpc1, Hpc.
  replace (S (length pre)) with (length (pre ++ [FIf c p])) by solve_len.
  rewrite (skip_block_lands_after code (pre ++ [FIf c p]) bp body bq post m1); [|solve_code Hc|exact Hb].
  cbn [bind]. rewrite app_length. simpl.
  destruct post as [|s post'].
  - assert (Hn : stmt_at code (length pre + 1 + length body + 2) = None).
    { unfold stmt_at. apply nth_error_None. rewrite Hc, app_length. simpl. rewrite app_length. simpl. lia. }
    rewrite Hn. f_equal. f_equal. lia.
  - assert (Hn : stmt_at code (length pre + 1 + length body + 2) = Some s).
    { replace (length pre + 1 + length body + 2) with (length (pre ++ FIf c p :: FBlockStart bp :: body ++ [FBlockEnd bq]))
        by solve_len.
      apply stmt_at_app with (post := post'). solve_code Hc. }
    rewrite Hn. destruct s; f_equal; f_equal; lia.
Qed.

(* the remaining branches of a chain, as the parser lays them out *)
Inductive chain_tail : list fstmt -> Prop :=
| ct_last bp body bq : balanced body -> chain_tail (FBlockStart bp :: body ++ [FBlockEnd bq])
| ct_last_if c p bp body bq : balanced body -> chain_tail (FIf c p :: FBlockStart bp :: body ++ [FBlockEnd bq])
| ct_more bp body bq ep r : balanced body -> chain_tail r -> chain_tail (FBlockStart bp :: body ++ FBlockEnd bq :: FElse ep :: r)
| ct_more_if c p bp body bq ep r : balanced body -> chain_tail r -> chain_tail (FIf c p :: FBlockStart bp :: body ++ FBlockEnd bq :: FElse ep :: r).

Definition not_else (post : list fstmt) : Prop := match post with FElse _ :: _ => False | _ => True end.

Lemma stmt_at_after pre mid post : code = pre ++ mid ++ post ->
  stmt_at code (length pre + length mid) = match post with s :: _ => Some s | [] => None end.
Proof.
  intros Hc. destruct post as [|s post'].
  - unfold stmt_at. apply nth_error_None. rewrite Hc, !app_length. simpl. lia.
  - apply stmt_at_app_off with (post := post'). exact Hc.
Qed.

(* the else statement is reached only when a branch of its chain has run: every remaining branch is skipped without
   evaluating any further condition, and execution continues after the whole chain *)
Lemma interp_else_unfold fuel m p : stmt_at code (m_pc m) = Some (FElse p) ->
  interp code (S fuel) m = skip_chain code m (S (length code)) (S (m_pc m)).
Proof. intros Hs. rewrite interp_S; unfold interp_step. rewrite Hs. reflexivity. Qed.

Lemma skip_chain_lands tail : chain_tail tail -> forall pre post m k,
  code = pre ++ tail ++ post -> not_else post -> length tail <= k ->
  skip_chain code m k (length pre) = Ok (set_pc m (length pre + length tail)).
Proof.
  induction 1 as [bp body bq Hb|c p bp body bq Hb|bp body bq ep r Hb Hr IH|c p bp body bq ep r Hb Hr IH];
    intros pre post m k Hc Hne Hk; (destruct k as [|k]; [simpl in Hk; lia|]); cbn [skip_chain].
  - rewrite (stmt_at_app code pre (FBlockStart bp) ((body ++ [FBlockEnd bq]) ++ post)) by (solve_code Hc).
    rewrite (skip_block_lands_after code pre bp body bq post m); [|solve_code Hc|exact Hb].
    cbn [bind].
    replace (length pre + length body + 2) with (length pre + length (FBlockStart bp :: body ++ [FBlockEnd bq])) by solve_len.
    rewrite (stmt_at_after pre _ post Hc).
    destruct post as [|s post']; [reflexivity|]. destruct s; simpl in Hne; try contradiction; reflexivity.
  - rewrite (stmt_at_app code pre (FIf c p) ((FBlockStart bp :: body ++ [FBlockEnd bq]) ++ post)) by (solve_code Hc).
    replace (S (length pre)) with (length (pre ++ [FIf c p])) by solve_len.
    rewrite (skip_block_lands_after code (pre ++ [FIf c p]) bp body bq post m);
      [|solve_code Hc|exact Hb].
    cbn [bind].
    replace (length (pre ++ [FIf c p]) + length body + 2) with (length pre + length (FIf c p :: FBlockStart bp :: body ++ [FBlockEnd bq]))
      by solve_len.
    rewrite (stmt_at_after pre _ post Hc).
    destruct post as [|s post']; [reflexivity|]. destruct s; simpl in Hne; try contradiction; reflexivity.
  - rewrite (stmt_at_app code pre (FBlockStart bp) ((body ++ FBlockEnd bq :: FElse ep :: r) ++ post)) by (solve_code Hc).
    rewrite (skip_block_lands_after code pre bp body bq (FElse ep :: r ++ post) m);
      [|solve_code Hc|exact Hb].
    cbn [bind].
    assert (He : stmt_at code (length pre + length body + 2) = Some (FElse ep)).
    { replace (length pre + length body + 2) with (length (pre ++ FBlockStart bp :: body ++ [FBlockEnd bq])) by solve_len.
      apply stmt_at_app with (post := r ++ post). solve_code Hc. }
    rewrite He.
    replace (S (length pre + length body + 2)) with (length (pre ++ FBlockStart bp :: body ++ [FBlockEnd bq; FElse ep])) by solve_len.
    rewrite (IH (pre ++ FBlockStart bp :: body ++ [FBlockEnd bq; FElse ep]) post m k);
      [|solve_code Hc|exact Hne|
        simpl in Hk; rewrite app_length in Hk; simpl in Hk; lia].
    f_equal. f_equal. solve_len.
  - rewrite (stmt_at_app code pre (FIf c p) ((FBlockStart bp :: body ++ FBlockEnd bq :: FElse ep :: r) ++ post)) by (solve_code Hc).
    replace (S (length pre)) with (length (pre ++ [FIf c p])) by solve_len.
    rewrite (skip_block_lands_after code (pre ++ [FIf c p]) bp body bq (FElse ep :: r ++ post) m);
      [|solve_code Hc|exact Hb].
    cbn [bind].
    assert (He : stmt_at code (length (pre ++ [FIf c p]) + length body + 2) = Some (FElse ep)).
    { replace (length (pre ++ [FIf c p]) + length body + 2) with (length (pre ++ FIf c p :: FBlockStart bp :: body ++ [FBlockEnd bq])) by solve_len.
      apply stmt_at_app with (post := r ++ post). solve_code Hc. }
    rewrite He.
    replace (S (length (pre ++ [FIf c p]) + length body + 2)) with (length (pre ++ FIf c p :: FBlockStart bp :: body ++ [FBlockEnd bq; FElse ep])) by solve_len.
    rewrite (IH (pre ++ FIf c p :: FBlockStart bp :: body ++ [FBlockEnd bq; FElse ep]) post m k);
      [|solve_code Hc|exact Hne|
        simpl in Hk; rewrite app_length in Hk; simpl in Hk; lia].
    f_equal. f_equal. solve_len.
Qed.

Theorem else_skips_rest_of_chain fuel m ep pre tail post :
  code = pre ++ FElse ep :: tail ++ post -> chain_tail tail -> not_else post -> m_pc m = length pre ->
  interp code (S fuel) m = Ok (set_pc m (length pre + 1 + length tail)).
Proof.
  intros Hc Ht Hne Hpc.
  rewrite (interp_else_unfold fuel m ep) by (rewrite Hpc; apply stmt_at_app with (post := tail ++ post); exact Hc).
  rewrite Hpc.
  replace (S (length pre)) with (length (pre ++ [FElse ep])) by solve_len.
  rewrite (skip_chain_lands tail Ht (pre ++ [FElse ep]) post m (S (length code)));
    [|solve_code Hc|exact Hne|rewrite Hc; solve_len].
  f_equal. f_equal. solve_len.
Qed.
End Chains.

(** ** Loops *)
Section Loops.
Variable code : list fstmt.

(* entering a loop records where it ends: the statement after the closing আবার; that follows the loop's own block,
   whatever loops, continue statements and blocks the body contains; and the scope depth at entry *)
Theorem loop_enter_records_end fuel m pre lp bp body bq cp post :
  code = pre ++ FLoop lp :: FBlockStart bp :: body ++ FBlockEnd bq :: FContinue cp :: post -> balanced body ->
  m_pc m = length pre ->
  interp code (S fuel) m =
    Ok (set_pc (set_loops m (mkLoop (length pre + 1) (length pre + length body + 4) (length (m_scopes m)) :: m_loops m))
               (length pre + 1)).
Proof.
  intros Hc Hb Hpc. rewrite interp_S; unfold interp_step. rewrite Hpc, (stmt_at_app code pre (FLoop lp) _ Hc).
  replace (S (length pre)) with (length (pre ++ [FLoop lp])) by solve_len.
  rewrite (stmt_at_app code (pre ++ [FLoop lp]) (FBlockStart bp) (body ++ FBlockEnd bq :: FContinue cp :: post)) by solve_code Hc.
  rewrite (skip_block_lands_after code (pre ++ [FLoop lp]) bp body bq (FContinue cp :: post) m); [|solve_code Hc|exact Hb].
  cbn [bind].
  assert (Hn : stmt_at code (length (pre ++ [FLoop lp]) + length body + 2) = Some (FContinue cp)).
  { replace (length (pre ++ [FLoop lp]) + length body + 2) with (length (pre ++ FLoop lp :: FBlockStart bp :: body ++ [FBlockEnd bq])) by solve_len.
    apply stmt_at_app with (post := post). solve_code Hc. }
  rewrite Hn. f_equal. f_equal; [f_equal; f_equal; f_equal; solve_len|solve_len].
Qed.

(* break: leaves exactly the innermost loop, resumes at its recorded end, discards every scope opened since the
   loop was entered and keeps every scope that existed then *)
Theorem break_innermost fuel m p l ls :
  stmt_at code (m_pc m) = Some (FBreak p) -> m_loops m = l :: ls -> m_loop_base m < length (m_loops m) ->
  interp code (S fuel) m = Ok (set_pc (set_loops (set_scopes m (truncate (l_depth l) (m_scopes m))) ls) (l_end l)).
Proof.
  intros Hs Hl Hb. rewrite interp_S; unfold interp_step. rewrite Hs.
  assert (E : (length (m_loops m) <=? m_loop_base m) = false) by (apply Nat.leb_gt; exact Hb).
  rewrite E, Hl. reflexivity.
Qed.

(* continue: restarts the innermost loop's body with the same scope discipline; the loop stack is unchanged *)
Theorem continue_innermost fuel m p l ls :
  stmt_at code (m_pc m) = Some (FContinue p) -> m_loops m = l :: ls -> m_loop_base m < length (m_loops m) ->
  interp code (S fuel) m = Ok (set_pc (set_scopes m (truncate (l_depth l) (m_scopes m))) (l_start l)).
Proof.
  intros Hs Hl Hb. rewrite interp_S; unfold interp_step. rewrite Hs.
  assert (E : (length (m_loops m) <=? m_loop_base m) = false) by (apply Nat.leb_gt; exact Hb).
  rewrite E, Hl. reflexivity.
Qed.

(* the scopes that existed when the loop was entered are exactly what remains *)
Theorem loop_exit_scopes (inner outer : list scope) : truncate (length outer) (inner ++ outer) = outer.
Proof. apply truncate_app. Qed.

(* break / continue with no enclosing loop in the current function is a located runtime error *)
Theorem break_outside_loop fuel m p : stmt_at code (m_pc m) = Some (FBreak p) -> length (m_loops m) <= m_loop_base m ->
  interp code (S fuel) m = fail_here code ERuntime m.
Proof. intros Hs Hb. rewrite interp_S; unfold interp_step. rewrite Hs. apply Nat.leb_le in Hb. rewrite Hb. reflexivity. Qed.

Theorem continue_outside_loop fuel m p : stmt_at code (m_pc m) = Some (FContinue p) -> length (m_loops m) <= m_loop_base m ->
  interp code (S fuel) m = fail_here code ERuntime m.
Proof. intros Hs Hb. rewrite interp_S; unfold interp_step. rewrite Hs. apply Nat.leb_le in Hb. rewrite Hb. reflexivity. Qed.
End Loops.

(** ** Calls *)
Section Calls.
Variable ev : expr -> machine -> outcome (value * machine).

(* missing arguments are nil and evaluate nothing *)
Theorem bind_missing_are_nil ps env m :
  bind_args ev ps [] env m = Ok (fold_left (fun e p => alist_set p VNil e) ps env, m).
Proof. revert env. induction ps as [|p ps IH]; intros env; simpl; auto. Qed.

(* surplus arguments are not evaluated at all *)
Theorem bind_surplus_ignored ps args extra env m :
  length args = length ps -> bind_args ev ps (args ++ extra) env m = bind_args ev ps args env m.
Proof.
  revert args env m. induction ps as [|p ps IH]; intros args env m Hl; destruct args as [|a args]; simpl in *; try discriminate; auto.
  destruct (ev a m) as [[v m1]| | |]; simpl; auto.
Qed.

(* arguments are evaluated left to right, each bound to the parameter at its position *)
Theorem bind_positional p ps a args env m v m1 :
  ev a m = Ok (v, m1) -> bind_args ev (p :: ps) (a :: args) env m = bind_args ev ps args (alist_set p v env) m1.
Proof. intros H. simpl. rewrite H. reflexivity. Qed.

(* the bound scope holds the argument value under the parameter name (later parameters of other names do not disturb it) *)
Lemma bind_args_keeps ps : forall args env m env' m' x v,
  bind_args ev ps args env m = Ok (env', m') -> ~ In x ps -> alist_get x env = Some v -> alist_get x env' = Some v.
Proof.
  induction ps as [|p ps IH]; intros args env m env' m' x v H Hx Hg; simpl in H.
  - injection H as <- _. exact Hg.
  - destruct args as [|a args].
    + eapply IH; [exact H| |]. { intros Hin; apply Hx; right; exact Hin. }
      rewrite alist_get_set_other; [exact Hg|]. intros ->. apply Hx. left. reflexivity.
    + destruct (ev a m) as [[v0 m1]| | |]; simpl in H; try discriminate.
      eapply IH; [exact H| |]. { intros Hin; apply Hx; right; exact Hin. }
      rewrite alist_get_set_other; [exact Hg|]. intros ->. apply Hx. left. reflexivity.
Qed.
End Calls.

(* when a call returns, the scope stack and the loop stack are cut back to their heights at the call and the loop
   base of the caller is reinstated -- from any depth of blocks, conditionals and loops inside the callee *)
Theorem truncate_length {A} (n : nat) (l : list A) : n <= length l -> length (truncate n l) = n.
Proof. intros H. unfold truncate. rewrite skipn_length. lia. Qed.

Theorem truncate_suffix {A} (n : nat) (l : list A) : exists pre, l = pre ++ truncate n l.
Proof. unfold truncate. exists (firstn (length l - n) l). symmetry. apply firstn_skipn. Qed.

Section CallRestore.
Variable code : list fstmt.

(* a call to a user function, whatever happens inside: the caller's scope-stack height, loop base and (at most) loop
   stack height are what they were before the call *)
Theorem call_restores_heights fuel name np args p m v m' :
  is_builtin name = false ->
  eval code (S fuel) (ECall (EVar name np) args p) m = Ok (v, m') ->
  length (m_scopes m') = length (m_scopes m) /\ m_loop_base m' = m_loop_base m /\
  length (m_loops m') <= length (m_loops m) /\
  (exists pre, exists m4, m_scopes m4 = pre ++ m_scopes m' /\ m_heap m' = m_heap m4 /\ m_out m' = m_out m4).
Proof.
  intros Hb H. rewrite eval_S in H. unfold eval_step in H. rewrite Hb in H.
  destruct (lookup_var name (m_scopes m)) as [fv|]; [|unfold rt_err, fail_here, unexpected_at in H; destruct (stmt_at code (m_pc m)); discriminate].
  cbn [bind] in H. destruct fv; try discriminate.
  destruct (bind_args (eval code fuel) params args [] m) as [[env m1]| | |]; try discriminate. cbn [bind] in H.
  destruct (stmt_at code start) as [s0|]; [|discriminate]. destruct s0; try discriminate.
  match type of H with context [call_loop code fuel ?mm] => destruct (call_loop code fuel mm) as [m3| | |]; try discriminate end.
  cbn [bind] in H.
  destruct (stmt_at code (m_pc m3)) as [s3|]; [|unfold rt_err, fail_here, unexpected_at in H; rewrite ?E in H; try discriminate].
  2:{ destruct (stmt_at code (m_pc m3)); discriminate. }
  destruct s3; try (unfold rt_err, fail_here, unexpected_at in H; destruct (stmt_at code (m_pc m3)); discriminate).
  destruct (m_ret m3) as [|ra rets]; [discriminate|].
  destruct (eval code fuel e m3) as [[rv m4]| | |]; try discriminate.
  destruct (length (m_scopes m4) <? length (m_scopes m)) eqn:El; [discriminate|].
  injection H as <- <-. cbn [m_scopes m_loop_base m_loops m_heap m_out].
  apply Nat.ltb_ge in El.
  split; [apply truncate_length; exact El|]. split; [reflexivity|]. split.
  - unfold truncate. rewrite skipn_length. lia.
  - destruct (truncate_suffix (length (m_scopes m)) (m_scopes m4)) as [pre Hpre]. exists pre, m4. auto.
Qed.
End CallRestore.
