(** C04: the scope stack of the model (head = innermost scope). *)
From Pakhi Require Import Base Float64 Syntax Tables Lexer Interp.
From Pakhi.Proofs Require Import Assoc Unfold.
From Coq Require Import Lia.

(* a declaration is visible at once, in the innermost scope only *)
Lemma declare_lookup_same x v ss ss' : declare x v ss = Ok ss' -> lookup_var x ss' = Some v.
Proof. destruct ss as [|s r]; simpl; [discriminate|]. intros H; injection H as <-. simpl. rewrite alist_get_set_same. reflexivity. Qed.

Lemma declare_lookup_other x y v ss ss' : declare x v ss = Ok ss' -> y <> x -> lookup_var y ss' = lookup_var y ss.
Proof. destruct ss as [|s r]; simpl; [discriminate|]. intros H Hne; injection H as <-. simpl. rewrite alist_get_set_other by exact Hne. reflexivity. Qed.

(* it shadows: every outer scope is untouched, so the outer variable is intact when the block ends *)
Lemma declare_outer_unchanged x v ss ss' : declare x v ss = Ok ss' -> tl ss' = tl ss /\ length ss' = length ss.
Proof. destruct ss as [|s r]; simpl; [discriminate|]. intros H; injection H as <-. auto. Qed.

Lemma declare_total x v ss : ss <> [] -> exists ss', declare x v ss = Ok ss'.
Proof. destruct ss; [congruence|]. intros _. eexists. reflexivity. Qed.

(* assignment reaches exactly the innermost scope that declares the name *)
Lemma assign_var_spec x v : forall ss,
  match assign_var x v ss with
  | Some ss' =>
      exists pre s post, ss = pre ++ s :: post /\ Forall (fun t => alist_has x t = false) pre /\ alist_has x s = true /\
                         ss' = pre ++ alist_set x v s :: post
  | None => Forall (fun t => alist_has x t = false) ss
  end.
Proof.
  induction ss as [|s r IH]; simpl; [constructor|].
  destruct (alist_has x s) eqn:E.
  - exists [], s, r. repeat split; auto.
  - destruct (assign_var x v r) as [r'|].
    + destruct IH as (pre & s0 & post & -> & Hpre & Hs & ->).
      exists (s :: pre), s0, post. repeat split; auto.
    + constructor; auto.
Qed.

Lemma lookup_none_iff x ss : lookup_var x ss = None <-> Forall (fun t => alist_has x t = false) ss.
Proof.
  induction ss as [|s r IH]; simpl.
  - split; auto.
  - unfold alist_has in *. destruct (alist_get x s) eqn:E.
    + split; [discriminate|]. intros H. inversion H as [|? ? Hs _]. rewrite E in Hs. discriminate.
    + rewrite IH. split; [intros H; constructor; [rewrite E; reflexivity|exact H]|intros H; inversion H; assumption].
Qed.

(* assigning a name with no visible declaration fails, reading it fails *)
Lemma assign_undeclared x v ss : lookup_var x ss = None <-> assign_var x v ss = None.
Proof.
  rewrite lookup_none_iff. pose proof (assign_var_spec x v ss) as H.
  destruct (assign_var x v ss) as [ss'|]; split; auto; try discriminate.
  intros Hall. destruct H as (pre & s & post & -> & _ & Hs & _).
  rewrite Forall_forall in Hall. specialize (Hall s). rewrite Hs in Hall.
  assert (true = false) by (apply Hall; apply in_or_app; right; left; reflexivity). discriminate.
Qed.

Lemma lookup_app_skip x pre rest : Forall (fun t => alist_has x t = false) pre -> lookup_var x (pre ++ rest) = lookup_var x rest.
Proof.
  induction pre as [|s pre IH]; simpl; auto. intros H. inversion H as [|? ? Hs Hp]; subst.
  unfold alist_has in Hs. destruct (alist_get x s); [discriminate|]. auto.
Qed.

Lemma assign_lookup_same x v ss ss' : assign_var x v ss = Some ss' -> lookup_var x ss' = Some v.
Proof.
  intros H. pose proof (assign_var_spec x v ss) as S. rewrite H in S.
  destruct S as (pre & s & post & -> & Hpre & Hs & ->).
  rewrite lookup_app_skip by exact Hpre. simpl. rewrite alist_get_set_same. reflexivity.
Qed.

Lemma lookup_other_scopes y x v pre s post : y <> x ->
  lookup_var y (pre ++ alist_set x v s :: post) = lookup_var y (pre ++ s :: post).
Proof.
  intros Hne. induction pre as [|t pre IH]; simpl.
  - rewrite alist_get_set_other by exact Hne. reflexivity.
  - destruct (alist_get y t); auto.
Qed.

(* ... and nothing else: every other name keeps its binding, the stack keeps its height *)
Lemma assign_lookup_other x y v ss ss' : assign_var x v ss = Some ss' -> y <> x -> lookup_var y ss' = lookup_var y ss.
Proof.
  intros H Hne. pose proof (assign_var_spec x v ss) as S. rewrite H in S.
  destruct S as (pre & s & post & -> & Hpre & Hs & ->). apply lookup_other_scopes. exact Hne.
Qed.

Lemma assign_length x v ss ss' : assign_var x v ss = Some ss' -> length ss' = length ss.
Proof.
  intros H. pose proof (assign_var_spec x v ss) as S. rewrite H in S.
  destruct S as (pre & s & post & -> & _ & _ & ->). rewrite !app_length. reflexivity.
Qed.

(* shadowing: after an inner declaration and the end of the inner block, the outer binding is what the last
   assignment *outside* made it *)
Lemma shadow_then_pop x v inner outer ss' : declare x v (inner :: outer) = Ok ss' -> lookup_var x (tl ss') = lookup_var x outer.
Proof. simpl. intros H; injection H as <-. reflexivity. Qed.

(* an assignment inside the inner block to a name declared there does not reach the outer scopes *)
Lemma assign_inner_keeps_outer x v inner outer ss' : alist_has x inner = true -> assign_var x v (inner :: outer) = Some ss' -> tl ss' = outer.
Proof. simpl. intros Hh. rewrite Hh. intros H; injection H as <-. reflexivity. Qed.

(* Vec::truncate on the scope stack keeps exactly the outermost n scopes *)
Lemma truncate_app {A} (inner outer : list A) : truncate (length outer) (inner ++ outer) = outer.
Proof.
  unfold truncate. rewrite app_length. replace (length inner + length outer - length outer) with (length inner) by lia.
  rewrite skipn_app, skipn_all, Nat.sub_diag. reflexivity.
Qed.

(** Machine level: the statements that touch variables *)
Section Machine.
Variable code : list fstmt.

(* reading a name with no visible declaration is a runtime error located at the statement being executed *)
Lemma eval_undeclared fuel x p m : lookup_var x (m_scopes m) = None ->
  eval code (S fuel) (EVar x p) m = fail_here code ERuntime m.
Proof. intros H. rewrite eval_S. unfold eval_step. rewrite H. reflexivity. Qed.

Lemma eval_declared fuel x p m v : lookup_var x (m_scopes m) = Some v ->
  eval code (S fuel) (EVar x p) m = Ok (v, m).
Proof. intros H. rewrite eval_S. unfold eval_step. rewrite H. reflexivity. Qed.

(* a declaration without initialiser holds nil *)
Lemma interp_declare_nil fuel m x xp p :
  stmt_at code (m_pc m) = Some (FAssign AFirst x xp [] None p) -> m_scopes m <> [] ->
  exists m', interp code (S fuel) m = Ok m' /\ lookup_var x (m_scopes m') = Some VNil /\ m_pc m' = S (m_pc m) /\
             tl (m_scopes m') = tl (m_scopes m) /\ m_heap m' = m_heap m /\ m_out m' = m_out m.
Proof.
  intros Hs Hne. rewrite interp_S. unfold interp_step. rewrite Hs.
  destruct (m_scopes m) as [|s r] eqn:E; [congruence|]. simpl.
  eexists. split; [reflexivity|]. simpl. rewrite alist_get_set_same. auto.
Qed.

(* assigning an undeclared name is a runtime error at that statement *)
Lemma interp_assign_undeclared fuel m x xp e p v m1 :
  stmt_at code (m_pc m) = Some (FAssign AReassign x xp [] (Some e) p) ->
  eval code fuel e m = Ok (v, m1) -> lookup_var x (m_scopes m1) = None ->
  interp code (S fuel) m = fail_here code ERuntime m1.
Proof.
  intros Hs He Hl. rewrite interp_S. unfold interp_step. rewrite Hs, He. cbn [bind].
  apply (assign_undeclared x v) in Hl. rewrite Hl. reflexivity.
Qed.

(* each loop iteration starts with a fresh body scope, each block opens an empty scope and closes it again *)
Lemma interp_block_start fuel m p : stmt_at code (m_pc m) = Some (FBlockStart p) ->
  interp code (S fuel) m = Ok (next (set_scopes m ([] :: m_scopes m))).
Proof. intros Hs. rewrite interp_S. unfold interp_step. rewrite Hs. reflexivity. Qed.

Lemma interp_block_end fuel m p s r : stmt_at code (m_pc m) = Some (FBlockEnd p) -> m_scopes m = s :: r -> r <> [] ->
  interp code (S fuel) m = Ok (next (set_scopes m r)).
Proof.
  intros Hs E Hr. rewrite interp_S. unfold interp_step. rewrite Hs, E. destruct r; [congruence|]. reflexivity.
Qed.
End Machine.
