(** Static block depth of the flat statement vector and what the forward scans ([skip_block], [skip_chain]) do to it.
    [sd pc] is (#BlockStart - #BlockEnd) among the statements before [pc].  Every forward scan of the interpreter ends at
    a position of the same depth and never passes a position of smaller depth -- the fact behind "a jump never leaves
    the enclosing block". *)
From Pakhi Require Import Base Float64 Syntax Tables Lexer Interp.
From Pakhi.Proofs Require Import Unfold.
From Coq Require Import Lia ZArith.
Local Open Scope nat_scope.

Section Frames.
Variable code : list fstmt.

Definition delta (s : fstmt) : Z := match s with FBlockStart _ => 1%Z | FBlockEnd _ => (-1)%Z | _ => 0%Z end.
Fixpoint dsum (l : list fstmt) : Z := match l with [] => 0%Z | s :: r => (delta s + dsum r)%Z end.
Definition sd (pc : nat) : Z := dsum (firstn pc code).

Lemma dsum_app a b : dsum (a ++ b) = (dsum a + dsum b)%Z.
Proof. induction a as [|x a IH]; simpl; [reflexivity|]. rewrite IH. lia. Qed.

Lemma firstn_S_nth {A} (l : list A) : forall n x, nth_error l n = Some x -> firstn (S n) l = firstn n l ++ [x].
Proof.
  induction l as [|y l IH]; intros [|n] x H; simpl in *; try discriminate.
  - injection H as ->. reflexivity.
  - f_equal. apply IH. exact H.
Qed.

Lemma sd_S pc s : stmt_at code pc = Some s -> sd (S pc) = (sd pc + delta s)%Z.
Proof.
  unfold stmt_at, sd. intros H. rewrite (firstn_S_nth code pc s H), dsum_app. simpl. lia.
Qed.

Lemma stmt_at_lt pc s : stmt_at code pc = Some s -> pc < length code.
Proof. unfold stmt_at. intros H. apply nth_error_Some. congruence. Qed.

Lemma skip_block_S f m pc d : skip_block code (S f) m pc d =
  match stmt_at code pc with
  | None => unexpected_at m
  | Some (FBlockStart _) => skip_block code f m (S pc) (S d)
  | Some (FBlockEnd p) => match d with O => fail_at ERuntime p m | S O => Ok (S pc) | S d' => skip_block code f m (S pc) d' end
  | Some _ => skip_block code f m (S pc) d
  end.
Proof. reflexivity. Qed.

(** [skip_block]: where it lands *)
Lemma skip_block_sd fuel : forall m pc d pc',
  skip_block code fuel m pc d = Ok pc' ->
  pc < pc' /\ (exists q p, pc' = S q /\ stmt_at code q = Some (FBlockEnd p)) /\
  sd pc' = (sd pc - Z.of_nat d)%Z /\
  (forall k, pc <= k -> k < pc' -> (sd pc - Z.of_nat (Nat.max d 1) < sd k)%Z).
Proof.
  induction fuel as [|f IH]; intros m pc d pc' H; [discriminate|].
  cbn [skip_block] in H.
  destruct (stmt_at code pc) as [s|] eqn:Es; [|discriminate].
  assert (Hsd := sd_S pc s Es).
  assert (Hother : skip_block code f m (S pc) d = Ok pc' -> delta s = 0%Z ->
     pc < pc' /\ (exists q p, pc' = S q /\ stmt_at code q = Some (FBlockEnd p)) /\
     sd pc' = (sd pc - Z.of_nat d)%Z /\ (forall k, pc <= k -> k < pc' -> (sd pc - Z.of_nat (Nat.max d 1) < sd k)%Z)).
  { intros H' Hd. destruct (IH _ _ _ _ H') as (H1 & H2 & H3 & H4). rewrite Hd in Hsd.
    split; [lia|]. split; [exact H2|]. split; [lia|].
    intros k Hk1 Hk2. destruct (Nat.eq_dec k pc) as [->|Hne]; [lia|].
    specialize (H4 k ltac:(lia) Hk2). lia. }
  destruct s; try (apply Hother; [exact H|reflexivity]).
  - (* BlockStart *)
    destruct (IH _ _ _ _ H) as (H1 & H2 & H3 & H4). cbn [delta] in Hsd.
    split; [lia|]. split; [exact H2|]. split; [lia|].
    intros k Hk1 Hk2. destruct (Nat.eq_dec k pc) as [->|Hne]; [lia|].
    specialize (H4 k ltac:(lia) Hk2). lia.
  - (* BlockEnd *)
    cbn [delta] in Hsd. destruct d as [|[|d']].
    + unfold fail_at in H. discriminate.
    + injection H as <-. split; [lia|]. split; [exists pc, p; auto|]. split; [lia|].
      intros k Hk1 Hk2. assert (k = pc) by lia. subst. lia.
    + destruct (IH _ _ _ _ H) as (H1 & H2 & H3 & H4).
      split; [lia|]. split; [exact H2|]. split; [lia|].
      intros k Hk1 Hk2. destruct (Nat.eq_dec k pc) as [->|Hne]; [lia|].
      specialize (H4 k ltac:(lia) Hk2). lia.
Qed.

(* the machine argument only decides what an error carries *)
Lemma skip_block_indep fuel : forall m m' pc d r, skip_block code fuel m pc d = Ok r -> skip_block code fuel m' pc d = Ok r.
Proof.
  induction fuel as [|f IH]; intros m m' pc d r H; [discriminate|]. cbn [skip_block] in *.
  destruct (stmt_at code pc) as [s|]; [|discriminate].
  destruct s; try (eapply IH; exact H).
  destruct d as [|[|d']]; [discriminate|exact H|eapply IH; exact H].
Qed.

(* from any position: lands at equal depth, never passes a shallower position *)
Lemma skip_from_sd m pc pc' : skip_block_from code m pc = Ok pc' ->
  pc < pc' /\ (exists q p, pc' = S q /\ stmt_at code q = Some (FBlockEnd p)) /\ sd pc' = sd pc /\
  (forall k, pc <= k -> k <= pc' -> (sd pc <= sd k)%Z).
Proof.
  unfold skip_block_from. intros H. destruct (skip_block_sd _ _ _ _ _ H) as (H1 & H2 & H3 & H4).
  split; [exact H1|]. split; [exact H2|]. split; [lia|].
  intros k Hk1 Hk2. destruct (Nat.eq_dec k pc') as [->|Hne]; [lia|]. specialize (H4 k Hk1 ltac:(lia)). simpl in H4. lia.
Qed.

(* from a BlockStart: lands just after the matching BlockEnd; everything in between is strictly deeper *)
Lemma skip_from_bs m pc p pc' : stmt_at code pc = Some (FBlockStart p) -> skip_block_from code m pc = Ok pc' ->
  S pc < pc' /\ (exists q p', pc' = S q /\ stmt_at code q = Some (FBlockEnd p')) /\ sd pc' = sd pc /\
  (forall k, pc < k -> k < pc' -> (sd pc < sd k)%Z).
Proof.
  unfold skip_block_from. intros Hs H. rewrite skip_block_S, Hs in H.
  destruct (skip_block_sd _ _ _ _ _ H) as (H1 & H2 & H3 & H4).
  pose proof (sd_S pc _ Hs) as Hsd. cbn [delta] in Hsd.
  split; [lia|]. split; [exact H2|]. split; [lia|].
  intros k Hk1 Hk2. specialize (H4 k ltac:(lia) Hk2). simpl in H4. lia.
Qed.

(** A region (a, z): positions strictly between are strictly deeper than [a]; [z] is as deep as [a].  A forward move
    that never passes a shallower position cannot reach [z]. *)
Definition region (a z : nat) : Prop := a < z /\ sd z = sd a /\ forall k, a < k -> k < z -> (sd a < sd k)%Z.

Lemma fwd_inside a z pc t : region a z -> a < pc -> pc < z -> pc <= t ->
  (forall k, pc <= k -> k <= t -> (sd pc <= sd k)%Z) -> t < z.
Proof.
  intros (Haz & Hz & Hin) H1 H2 H3 Hnd.
  destruct (Nat.lt_ge_cases t z) as [|Hge]; [assumption|exfalso].
  specialize (Hnd z ltac:(lia) Hge). specialize (Hin pc H1 H2). lia.
Qed.

Lemma region_depth a z k : region a z -> a <= k -> k <= z -> (sd a <= sd k)%Z.
Proof.
  intros (Haz & Hz & Hin) H1 H2.
  destruct (Nat.eq_dec k a) as [->|]; [lia|]. destruct (Nat.eq_dec k z) as [->|]; [lia|].
  specialize (Hin k ltac:(lia) ltac:(lia)). lia.
Qed.

(** [skip_chain]: same shape as one skip *)
Lemma skip_chain_sd m k : forall pc m', skip_chain code m k pc = Ok m' ->
  exists t, m' = set_pc m t /\ pc < t /\ (exists q p, t = S q /\ stmt_at code q = Some (FBlockEnd p)) /\ sd t = sd pc /\
            (forall j, pc <= j -> j <= t -> (sd pc <= sd j)%Z).
Proof.
  induction k as [|k IH]; intros pc m' H; [discriminate|]. cbn [skip_chain] in H.
  set (pc1 := match stmt_at code pc with Some (FIf _ _) => S pc | _ => pc end) in *.
  assert (H1 : pc <= pc1 /\ sd pc1 = sd pc /\ (forall j, pc <= j -> j <= pc1 -> sd j = sd pc)).
  { subst pc1. destruct (stmt_at code pc) as [s|] eqn:Es; [|split; [lia|split; [reflexivity|intros; f_equal; lia]]].
    destruct s; try (split; [lia|split; [reflexivity|intros; f_equal; lia]]).
    pose proof (sd_S pc _ Es) as Hsd. cbn [delta] in Hsd.
    split; [lia|]. split; [lia|]. intros j Hj1 Hj2. assert (j = pc \/ j = S pc) as [-> | ->] by lia; lia. }
  destruct H1 as (Hle & Hs1 & Hflat).
  destruct (skip_block_from code m pc1) as [pc2| | |] eqn:Esk; try discriminate. cbn [bind] in H.
  destruct (skip_from_sd _ _ _ Esk) as (Hlt & (q & p' & -> & Hq) & Hs2 & Hnd).
  assert (Hq' : S q <= length code) by (apply stmt_at_lt in Hq; lia).
  assert (Hbase : forall j, pc <= j -> j <= S q -> (sd pc <= sd j)%Z).
  { intros j Hj1 Hj2. destruct (Nat.le_gt_cases j pc1) as [Hc|Hc]; [rewrite (Hflat j Hj1 Hc); lia|].
    specialize (Hnd j ltac:(lia) Hj2). lia. }
  destruct (stmt_at code (S q)) as [s2|] eqn:E2.
  - destruct s2; try (injection H as <-; exists (S q); split; [reflexivity|]; split; [lia|]; split; [eauto|]; split; [lia|exact Hbase]).
    destruct (IH _ _ H) as (t & -> & Ht1 & Ht2 & Ht3 & Ht4).
    pose proof (sd_S (S q) _ E2) as Hsd. cbn [delta] in Hsd.
    exists t. split; [reflexivity|]. split; [lia|]. split; [exact Ht2|]. split; [lia|].
    intros j Hj1 Hj2. destruct (Nat.le_gt_cases j (S q)) as [Hc|Hc]; [apply Hbase; lia|].
    specialize (Ht4 j ltac:(lia) Hj2). lia.
  - injection H as <-. exists (S q). split; [reflexivity|]. split; [lia|]. split; [eauto|]. split; [lia|exact Hbase].
Qed.

End Frames.
