(** C14: the parser commutes with renaming.  The parser never looks at the spelling of an identifier: it copies it into
    the tree (variable reference, declared / assigned name).  So renaming every identifier token of a token list by any
    function rho and parsing gives the renamed parse -- same statements, every variable name mapped through rho,
    positions untouched; errors are the same errors.  For rho = "qualify by the import name" and a module without
    import statements of its own this is: the statements an import contributes ARE the module's own statements,
    renamed (the renaming whose run-time harmlessness is C14_qualified_module_code_behaves_like_the_original). *)
From Pakhi Require Import Base Float64 Syntax Tables Lexer Parser.
From Pakhi.Proofs Require Import ParseTotal ParseTerm Sim2.
From Coq Require Import Lia.
Local Open Scope nat_scope.

Section Equiv.
Variable rho : text -> text.

Definition idp (p : pos) : pos := p.
Notation xm := (xmap rho idp).
Notation stm := (smap rho idp).

Definition tmap (t : token) : token :=
  if tk_is (t_kind t) TIdent then mkTok (t_kind t) (rho (t_lexeme t)) (t_line t) (t_file t) else t.
Definition sm (s : pstate) : pstate :=
  mkPs (map tmap (ps_rest s)) (option_map tmap (ps_prev s)) (tmap (ps_last s)) (ps_mods s).

Lemma tmap_kind t : t_kind (tmap t) = t_kind t. Proof. unfold tmap. destruct (tk_is _ _); reflexivity. Qed.
Lemma tmap_pos t : tpos (tmap t) = tpos t. Proof. unfold tmap, tpos. destruct (tk_is _ _); reflexivity. Qed.
Lemma tmap_line t : t_line (tmap t) = t_line t. Proof. unfold tmap. destruct (tk_is _ _); reflexivity. Qed.
Lemma tmap_file t : t_file (tmap t) = t_file t. Proof. unfold tmap. destruct (tk_is _ _); reflexivity. Qed.
Lemma tmap_ident t : t_kind t = TIdent -> t_lexeme (tmap t) = rho (t_lexeme t).
Proof. intros H. unfold tmap. rewrite H. reflexivity. Qed.

Lemma head_sm s : head (sm s) = tmap (head s).
Proof. unfold head, sm. cbn [ps_rest ps_last]. destruct (ps_rest s); reflexivity. Qed.
Lemma head2_sm s : head2 (sm s) = tmap (head2 s).
Proof. unfold head2, sm. cbn [ps_rest ps_last]. destruct (ps_rest s) as [|a [|b r]]; reflexivity. Qed.
Lemma hk_sm s : hk (sm s) = hk s.
Proof. unfold hk. rewrite head_sm. apply tmap_kind. Qed.
Lemma adv_sm s : adv (sm s) = sm (adv s).
Proof. unfold adv, sm. cbn [ps_rest]. destruct (ps_rest s) as [|t r] eqn:E; cbn [map]; [rewrite E; reflexivity|reflexivity]. Qed.
Lemma at_end_sm s : at_end (sm s) = at_end s.
Proof. unfold at_end, sm. cbn [ps_rest]. destruct (ps_rest s); reflexivity. Qed.
Lemma pos_here_sm s : pos_here (sm s) = pos_here s.
Proof. unfold pos_here. rewrite at_end_sm, head_sm, tmap_pos. reflexivity. Qed.
Lemma pos_prev_sm s : pos_prev (sm s) = pos_prev s.
Proof. unfold pos_prev. rewrite at_end_sm. unfold sm. cbn [ps_prev]. destruct (ps_prev s); cbn [option_map]; [rewrite tmap_pos|]; reflexivity. Qed.
Lemma pos_tok_sm s t : pos_tok (sm s) (tmap t) = pos_tok s t.
Proof. unfold pos_tok. rewrite at_end_sm, tmap_pos. reflexivity. Qed.
Lemma syntax_here_sm {A} s : @syntax_here A (sm s) = syntax_here s.
Proof. unfold syntax_here. rewrite at_end_sm, head_sm, tmap_line, tmap_file. reflexivity. Qed.

Definition om (r : outcome (expr * pstate)) : outcome (expr * pstate) :=
  match r with Ok (e, s) => Ok (xm e, sm s) | Err e => Err e | Panic p => Panic p | OutOfFuel => OutOfFuel end.
Definition oml (r : outcome (list expr * pstate)) : outcome (list expr * pstate) :=
  match r with Ok (es, s) => Ok (map xm es, sm s) | Err e => Err e | Panic p => Panic p | OutOfFuel => OutOfFuel end.
Definition ome (r : outcome (list expr * list expr * pstate)) : outcome (list expr * list expr * pstate) :=
  match r with Ok (ks, vs, s) => Ok (map xm ks, map xm vs, sm s) | Err e => Err e | Panic p => Panic p | OutOfFuel => OutOfFuel end.

Lemma om_syntax s : om (syntax_here s) = syntax_here s.
Proof. unfold syntax_here. destruct (at_end s); reflexivity. Qed.
Lemma oml_syntax s : oml (syntax_here s) = syntax_here s.
Proof. unfold syntax_here. destruct (at_end s); reflexivity. Qed.
Lemma ome_syntax s : ome (syntax_here s) = syntax_here s.
Proof. unfold syntax_here. destruct (at_end s); reflexivity. Qed.

Record equiv_ok (f : nat) : Prop := {
  q_pexpr : forall lvl s, pexpr f lvl (sm s) = om (pexpr f lvl s);
  q_pprimary : forall s, pprimary f (sm s) = om (pprimary f s);
  q_pbin : forall lvl e s, pbin f lvl (xm e) (sm s) = om (pbin f lvl e s);
  q_pcalls : forall e s, pcalls f (xm e) (sm s) = om (pcalls f e s);
  q_pargs : forall s, pargs f (sm s) = oml (pargs f s);
  q_pitems : forall s, pitems f (sm s) = oml (pitems f s);
  q_pentries : forall s, pentries f (sm s) = ome (pentries f s);
  q_pindexes : forall e s, pindexes f (xm e) (sm s) = om (pindexes f e s)
}.

Ltac posd t := destruct t as [?p| | |]; cbn [bind om oml ome]; try reflexivity.

Theorem expr_parser_equivariant : forall f, equiv_ok f.
Proof.
  induction f as [|f IH]; [constructor; intros; reflexivity|].
  destruct IH as [Qe Qp Qb Qc Qa Qi Qn Qx].
  constructor.
  - (* pexpr *)
    intros lvl s. cbn [pexpr].
    assert (Hbin : forall l, (do '(e, s1) <- pexpr f (S l) (sm s); pbin f l e s1) = om (do '(e, s1) <- pexpr f (S l) s; pbin f l e s1)).
    { intros l. rewrite Qe. destruct (pexpr f (S l) s) as [[e s1]| | |]; cbn [bind om]; try reflexivity. apply Qb. }
    do 6 (destruct lvl as [|lvl]; [apply Hbin|]).
    destruct lvl as [|lvl].
    { rewrite hk_sm.
      assert (Hun : forall o, (do p <- pos_here (sm s); do '(r, s1) <- pexpr f 6 (adv (sm s)); Ok (EUn o r p, s1)) =
                              om (do p <- pos_here s; do '(r, s1) <- pexpr f 6 (adv s); Ok (EUn o r p, s1))).
      { intros o. rewrite pos_here_sm, adv_sm, Qe. posd (pos_here s). destruct (pexpr f 6 (adv s)) as [[r s1]| | |]; cbn [bind om]; reflexivity. }
      destruct (hk s); try apply Qe; apply Hun. }
    destruct lvl as [|lvl].
    { rewrite Qe. destruct (pexpr f 8 s) as [[e s1]| | |]; cbn [bind om]; try reflexivity. apply Qc. }
    destruct lvl as [|lvl]; [apply Qp|apply Hbin].
  - (* pprimary *)
    intros s. cbn [pprimary]. rewrite hk_sm.
    assert (Hlit : forall mk : pos -> expr, (forall p, xm (mk p) = mk p) ->
              (do p <- pos_prev (adv (sm s)); Ok (mk p, adv (sm s))) = om (do p <- pos_prev (adv s); Ok (mk p, adv s))).
    { intros mk Hmk. rewrite adv_sm, pos_prev_sm. posd (pos_prev (adv s)). rewrite Hmk. reflexivity. }
    destruct (hk s) eqn:Ek; try (rewrite syntax_here_sm, om_syntax; reflexivity); try (apply Hlit; intros; reflexivity).
    + (* identifier *)
      rewrite head_sm, pos_tok_sm, adv_sm. posd (pos_tok s (head s)).
      rewrite tmap_ident by exact Ek. apply (Qx (EVar (t_lexeme (head s)) p) (adv s)).
    + (* record literal *)
      rewrite adv_sm, hk_sm. destruct (hk (adv s)); try (rewrite syntax_here_sm, om_syntax; reflexivity).
      rewrite adv_sm, Qn. destruct (pentries f (adv (adv s))) as [[[ks vs] s2]| | |]; cbn [bind ome om]; try reflexivity.
      rewrite adv_sm, head_sm, pos_tok_sm. posd (pos_tok (adv s2) (head s)).
    + (* grouping *)
      rewrite adv_sm, Qe. destruct (pexpr f 0 (adv s)) as [[e s1]| | |]; cbn [bind om]; try reflexivity.
      rewrite adv_sm, head_sm, pos_tok_sm. posd (pos_tok (adv s1) (head s)).
    + (* list literal *)
      rewrite adv_sm, Qi. destruct (pitems f (adv s)) as [[es s1]| | |]; cbn [bind oml om]; try reflexivity.
      rewrite adv_sm, head_sm, pos_tok_sm. posd (pos_tok (adv s1) (head s)).
  - (* pbin *)
    intros lvl e s. cbn [pbin]. rewrite hk_sm. destruct (binop_at lvl (hk s)) as [o|]; [|reflexivity].
    rewrite adv_sm, Qe. destruct (pexpr f (S lvl) (adv s)) as [[r s1]| | |]; cbn [bind om]; try reflexivity.
    rewrite pos_prev_sm. posd (pos_prev s1). apply (Qb lvl (EBin o e r p) s1).
  - (* pcalls *)
    intros e s. cbn [pcalls]. rewrite hk_sm. destruct (hk s); try reflexivity.
    cbv zeta. rewrite adv_sm, pos_prev_sm. posd (pos_prev (adv s)). rewrite hk_sm.
    assert (Hargs : (match hk (adv s) with TRParen => Ok ([], sm (adv s)) | _ => pargs f (sm (adv s)) end) =
                    oml (match hk (adv s) with TRParen => Ok ([], adv s) | _ => pargs f (adv s) end))
      by (destruct (hk (adv s)); try apply Qa; reflexivity).
    rewrite Hargs. destruct (match hk (adv s) with TRParen => Ok ([], adv s) | _ => pargs f (adv s) end) as [[args s2]| | |]; cbn [bind oml om]; try reflexivity.
    rewrite adv_sm. apply (Qc (ECall e args p) (adv s2)).
  - (* pargs *)
    intros s. cbn [pargs]. rewrite Qe. destruct (pexpr f 0 s) as [[e s1]| | |]; cbn [bind om oml]; try reflexivity.
    rewrite hk_sm. destruct (hk s1); try reflexivity.
    rewrite adv_sm, Qa. destruct (pargs f (adv s1)) as [[es s2]| | |]; cbn [bind oml]; reflexivity.
  - (* pitems *)
    intros s. cbn [pitems]. rewrite hk_sm. destruct (hk s) eqn:Ek; try reflexivity.
    all: rewrite Qe; destruct (pexpr f 0 s) as [[e s1]| | |]; cbn [bind om oml]; try reflexivity.
    all: cbv zeta; rewrite hk_sm;
         assert (Hs2 : (match hk s1 with TComma => adv (sm s1) | _ => sm s1 end) = sm (match hk s1 with TComma => adv s1 | _ => s1 end))
           by (destruct (hk s1); try reflexivity; apply adv_sm);
         rewrite Hs2, Qi; destruct (pitems f _) as [[es s3]| | |]; cbn [bind oml]; reflexivity.
  - (* pentries *)
    intros s. cbn [pentries]. rewrite hk_sm. destruct (hk s) eqn:Ek; try reflexivity.
    all: rewrite Qe; destruct (pexpr f 0 s) as [[k s1]| | |]; cbn [bind om ome]; try reflexivity.
    all: rewrite hk_sm; destruct (hk s1); try (rewrite syntax_here_sm, ome_syntax; reflexivity).
    all: rewrite adv_sm, Qe; destruct (pexpr f 0 (adv s1)) as [[v s2]| | |]; cbn [bind om ome]; try reflexivity.
    all: cbv zeta; rewrite hk_sm;
         assert (Hs3 : (match hk s2 with TComma => adv (sm s2) | _ => sm s2 end) = sm (match hk s2 with TComma => adv s2 | _ => s2 end))
           by (destruct (hk s2); try reflexivity; apply adv_sm);
         rewrite Hs3, Qn; destruct (pentries f _) as [[[ks vs] s4]| | |]; cbn [bind ome]; reflexivity.
  - (* pindexes *)
    intros e s. cbn [pindexes]. rewrite hk_sm. destruct (hk s); try reflexivity.
    cbv zeta. rewrite adv_sm, Qe. destruct (pexpr f 0 (adv s)) as [[i s1]| | |]; cbn [bind om]; try reflexivity.
    rewrite hk_sm. destruct (hk s1); try (rewrite syntax_here_sm, om_syntax; reflexivity).
    rewrite adv_sm, head_sm, pos_tok_sm. posd (pos_tok (adv s1) (head s)). apply (Qx (EIndex e i p) (adv s1)).
Qed.

Theorem expression_equivariant f s : expression f (sm s) = om (expression f s).
Proof. unfold expression. apply (q_pexpr f (expr_parser_equivariant f)). Qed.

(** ** statements *)
Definition omi (r : outcome (list expr * pstate)) := oml r.
Definition oms (r : outcome (fstmt * pstate)) : outcome (fstmt * pstate) :=
  match r with Ok (st, s) => Ok (stm st, sm s) | Err e => Err e | Panic p => Panic p | OutOfFuel => OutOfFuel end.
Definition omp (r : outcome (list fstmt)) : outcome (list fstmt) :=
  match r with Ok l => Ok (map stm l) | Err e => Err e | Panic p => Panic p | OutOfFuel => OutOfFuel end.

Lemma oms_syntax s : oms (syntax_here s) = syntax_here s.
Proof. unfold syntax_here. destruct (at_end s); reflexivity. Qed.

Lemma pindex_list_equivariant : forall f s, pindex_list f (sm s) = oml (pindex_list f s).
Proof.
  induction f as [|f IH]; intros s; [reflexivity|]. cbn [pindex_list]. rewrite hk_sm.
  assert (Go : (do '(i, s1) <- expression f (sm s); match i with EList _ _ => do '(is, s2) <- pindex_list f s1; Ok (i :: is, s2) | _ => syntax_here s1 end) =
               oml (do '(i, s1) <- expression f s; match i with EList _ _ => do '(is, s2) <- pindex_list f s1; Ok (i :: is, s2) | _ => syntax_here s1 end)).
  { rewrite expression_equivariant. destruct (expression f s) as [[i s1]| | |]; cbn [bind om oml]; try reflexivity.
    destruct i; cbn [xmap]; try (rewrite syntax_here_sm, oml_syntax; reflexivity).
    rewrite IH. destruct (pindex_list f s1) as [[is s2]| | |]; cbn [bind oml]; reflexivity. }
  destruct (hk s); try exact Go. reflexivity.
Qed.

Section Stmts.
Variable fs : text -> option text.
Variable cwd main_path : text.

(* the import keyword aside (an import names files, and its name is registered): statements of a module without imports *)
Theorem pstmt_equivariant : forall f s, eot s -> noimp s -> pstmt fs cwd main_path f (sm s) = oms (pstmt fs cwd main_path f s).
Proof.
  induction f as [|f IH]; intros s He Hn; [reflexivity|]. cbn [pstmt]. rewrite pos_here_sm, hk_sm.
  destruct (pos_here s) as [p| | |] eqn:Ep; cbn [bind oms]; try reflexivity.
  assert (Hexp : forall (mk : expr -> fstmt) (mk' : expr -> fstmt) s0 (post : pstate -> pstate) (post' : pstate -> pstate),
            (forall e, stm (mk e) = mk' (xm e)) -> (forall s1, post' (sm s1) = sm (post s1)) ->
            (do '(e, s1) <- expression f (sm s0); Ok (mk' e, post' s1)) = oms (do '(e, s1) <- expression f s0; Ok (mk e, post s1))).
  { intros mk mk' s0 post post' Hmk Hpost. rewrite expression_equivariant. destruct (expression f s0) as [[e s1]| | |]; cbn [bind om oms]; try reflexivity.
    rewrite Hmk, Hpost. reflexivity. }
  destruct (hk s) eqn:Ek; try (rewrite syntax_here_sm, oms_syntax; reflexivity).
  - (* identifier: call statement, assignment, expression statement *)
    rewrite head2_sm, tmap_kind.
    assert (Hcall : (do '(e, s1) <- expression f (sm s); Ok (FExpr e p, s1)) = oms (do '(e, s1) <- expression f s; Ok (FExpr e p, s1)))
      by (apply (Hexp (fun e => FExpr e p) (fun e => FExpr e p) s (fun x => x) (fun x => x)); reflexivity).
    assert (Hasg : (do '(idx, s1) <- pindex_list f (adv (sm s)); do '(e, s2) <- expression f (adv s1);
                    Ok (FAssign AReassign (t_lexeme (head (sm s))) (tpos (head (sm s))) idx (Some e) p, adv s2)) =
                   oms (do '(idx, s1) <- pindex_list f (adv s); do '(e, s2) <- expression f (adv s1);
                        Ok (FAssign AReassign (t_lexeme (head s)) (tpos (head s)) idx (Some e) p, adv s2))).
    { rewrite adv_sm, pindex_list_equivariant. destruct (pindex_list f (adv s)) as [[idx s1]| | |]; cbn [bind oml oms]; try reflexivity.
      rewrite adv_sm, expression_equivariant. destruct (expression f (adv s1)) as [[e s2]| | |]; cbn [bind om oms]; try reflexivity.
      rewrite head_sm, tmap_pos, tmap_ident, adv_sm by exact Ek. reflexivity. }
    destruct (t_kind (head2 s)); try exact Hcall; exact Hasg.
  - (* if *)
    rewrite adv_sm, expression_equivariant. destruct (expression f (adv s)) as [[c s1]| | |]; cbn [bind om oms]; try reflexivity.
    rewrite pos_prev_sm. destruct (pos_prev s1) as [q| | |]; cbn [bind oms]; reflexivity.
  - (* else *) cbv zeta. rewrite adv_sm, pos_prev_sm. destruct (pos_prev (adv s)) as [q| | |]; cbn [bind oms]; reflexivity.
  - (* loop *) cbv zeta. rewrite adv_sm, pos_prev_sm. destruct (pos_prev (adv s)) as [q| | |]; cbn [bind oms]; reflexivity.
  - (* declaration *)
    cbv zeta. rewrite adv_sm, hk_sm. destruct (hk (adv s)) eqn:Ek1; try (rewrite syntax_here_sm, oms_syntax; reflexivity).
    rewrite !adv_sm, hk_sm.
    assert (Hinit : (match hk (adv (adv s)) with TSemi => Ok (None, sm (adv (adv s))) | _ => do '(e, s3) <- expression f (sm (adv (adv (adv s)))); Ok (Some e, s3) end) =
                    match (match hk (adv (adv s)) with TSemi => Ok (None, adv (adv s)) | _ => do '(e, s3) <- expression f (adv (adv (adv s))); Ok (Some e, s3) end) with
                    | Ok (i, s3) => Ok (option_map xm i, sm s3) | Err e => Err e | Panic q => Panic q | OutOfFuel => OutOfFuel end).
    { destruct (hk (adv (adv s))); try reflexivity.
      all: rewrite expression_equivariant; destruct (expression f (adv (adv (adv s)))) as [[e s3]| | |]; cbn [bind om]; reflexivity. }
    rewrite Hinit.
    destruct (match hk (adv (adv s)) with TSemi => Ok (None, adv (adv s)) | _ => do '(e, s3) <- expression f (adv (adv (adv s))); Ok (Some e, s3) end) as [[init s3]| | |]; cbn [bind oms]; try reflexivity.
    rewrite hk_sm. rewrite head_sm, tmap_pos, tmap_ident by (unfold hk in Ek1; exact Ek1).
    destruct (hk s3).
    all: try (rewrite at_end_sm; destruct (at_end s3); [reflexivity|]; unfold sm at 1; cbn [ps_prev]; destruct (ps_prev s3) as [t|]; cbn [option_map oms]; [rewrite tmap_line, tmap_file|]; reflexivity).
    rewrite adv_sm. reflexivity.
  - (* function *) cbv zeta. rewrite adv_sm, pos_prev_sm. destruct (pos_prev (adv s)) as [q| | |]; cbn [bind oms]; reflexivity.
  - (* comment *) rewrite adv_sm. apply IH; [apply eot_adv; exact He|apply noimp_adv; exact Hn].
  - (* { *) cbv zeta. rewrite adv_sm, pos_prev_sm. destruct (pos_prev (adv s)) as [q| | |]; cbn [bind oms]; reflexivity.
  - (* } *) cbv zeta. rewrite adv_sm, pos_prev_sm. destruct (pos_prev (adv s)) as [q| | |]; cbn [bind oms]; reflexivity.
  - (* break *) rewrite !adv_sm. reflexivity.
  - (* continue *) rewrite !adv_sm. reflexivity.
  - (* return *)
    cbv zeta. rewrite adv_sm, hk_sm.
    assert (Hr : (match hk (adv s) with TSemi => Ok (ENil p, sm (adv s)) | _ => expression f (sm (adv s)) end) =
                 om (match hk (adv s) with TSemi => Ok (ENil p, adv s) | _ => expression f (adv s) end))
      by (destruct (hk (adv s)); try apply expression_equivariant; reflexivity).
    rewrite Hr. destruct (match hk (adv s) with TSemi => Ok (ENil p, adv s) | _ => expression f (adv s) end) as [[e s2]| | |]; cbn [bind om oms]; try reflexivity.
    rewrite adv_sm. reflexivity.
  - (* print *) rewrite adv_sm. apply (Hexp (fun e => FPrint e p) (fun e => FPrint e p) (adv s) adv adv); [reflexivity|apply adv_sm].
  - (* import: excluded *) exfalso. exact (noimp_hk s He Hn Ek).
  - rewrite adv_sm. apply (Hexp (fun e => FPrintNoEol e p) (fun e => FPrintNoEol e p) (adv s) adv adv); [reflexivity|apply adv_sm].
  - (* end marker *) reflexivity.
Qed.

Theorem pprogram_equivariant : forall f s, eot s -> noimp s ->
  pprogram fs cwd main_path f (sm s) = omp (pprogram fs cwd main_path f s).
Proof.
  induction f as [|f IH]; intros s He Hn; [reflexivity|]. cbn [pprogram].
  rewrite (pstmt_equivariant f s He Hn).
  destruct (pstmt fs cwd main_path f s) as [[st s1]| | |] eqn:E; cbn [bind oms omp]; try reflexivity.
  destruct (pstmt_progress fs cwd main_path f s st s1 He Hn E) as [Ha _].
  pose proof (eot_advances _ _ Ha He) as He1. pose proof (noimp_advances _ _ Ha Hn) as Hn1.
  assert (Hrest : (if at_end (sm s1) then unexpected
                   else do r <- pprogram fs cwd main_path f (match hk (sm s1) with TSemi => adv (sm s1) | _ => sm s1 end); Ok (stm st :: r)) =
                  omp (if at_end s1 then unexpected
                       else do r <- pprogram fs cwd main_path f (match hk s1 with TSemi => adv s1 | _ => s1 end); Ok (st :: r))).
  { rewrite at_end_sm, hk_sm. destruct (at_end s1); [reflexivity|].
    assert (Hs2 : (match hk s1 with TSemi => adv (sm s1) | _ => sm s1 end) = sm (match hk s1 with TSemi => adv s1 | _ => s1 end))
      by (destruct (hk s1); try reflexivity; apply adv_sm).
    rewrite Hs2, IH.
    - destruct (pprogram fs cwd main_path f _) as [r| | |]; cbn [bind omp map]; reflexivity.
    - destruct (hk s1); try exact He1; apply eot_adv; exact He1.
    - destruct (hk s1); try exact Hn1; apply noimp_adv; exact Hn1. }
  destruct st; cbn [smap]; try exact Hrest. reflexivity.
Qed.
End Stmts.
End Equiv.

(** ** the renaming an import applies IS such a token renaming, for a module without imports of its own *)
Definition qualify_name (alias x : text) : text :=
  if is_builtin x || text_eqb x platform_const_parser then x else alias ++ [c_slash] ++ x.

Lemma prepend_names_is_tmap alias ts : Forall (fun t => t_kind t <> TImport) ts ->
  prepend_names ts alias false = map (tmap (qualify_name alias)) ts.
Proof.
  induction 1 as [|t r Ht _ IH]; [reflexivity|]. cbn [prepend_names map].
  assert (Hf : tk_is (t_kind t) TImport = false) by (destruct (t_kind t); try reflexivity; congruence).
  rewrite Hf, IH. f_equal. unfold tmap, qualify_name. destruct (tk_is (t_kind t) TIdent); [|reflexivity].
  cbn [negb andb]. destruct (is_builtin (t_lexeme t) || text_eqb (t_lexeme t) platform_const_parser); [|reflexivity].
  destruct t; reflexivity.
Qed.

(* the statements an import-free module contributes under an import name are the module's own statements, every name
   qualified: parsing the renamed tokens = renaming the parse *)
Theorem module_parse_is_renamed_parse fs cwd main_path alias f ts prev last mods :
  Forall (fun t => t_kind t <> TImport) ts -> t_kind last = TEOT ->
  pprogram fs cwd main_path f (mkPs (prepend_names ts alias false) (option_map (tmap (qualify_name alias)) prev) (tmap (qualify_name alias) last) mods) =
  omp (qualify_name alias) (pprogram fs cwd main_path f (mkPs ts prev last mods)).
Proof.
  intros Hn Hl. rewrite (prepend_names_is_tmap alias ts Hn).
  exact (pprogram_equivariant (qualify_name alias) fs cwd main_path f (mkPs ts prev last mods) Hl Hn).
Qed.

From Pakhi.Proofs Require Import Compose.
Lemma qualify_name_is_qualify alias x : qualify_name alias x = qualify alias x.
Proof. reflexivity. Qed.
