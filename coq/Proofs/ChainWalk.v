(** C02: a whole chain.  Composition of the step laws of Control.v over any number of branches: the conditions of an
    if / else-if / ... chain are evaluated in order, each false one moves the machine to the next branch and nothing else
    (the state is the one its own evaluation left), and the walk stops at the first true one, whose block is entered; if
    all are false the machine stands at the else block, or after the chain when there is none.  No hypothesis on the
    machine state at the chain: any context, any history. *)
From Pakhi Require Import Base Float64 Syntax Tables Lexer Interp.
From Pakhi.Proofs Require Import Unfold Control.
From Coq Require Import Lia.
Local Open Scope nat_scope.

Record branch := mkBr { br_c : expr; br_p : pos; br_bp : pos; br_body : list fstmt; br_bq : pos }.
Definition br_code (b : branch) : list fstmt := FIf (br_c b) (br_p b) :: FBlockStart (br_bp b) :: br_body b ++ [FBlockEnd (br_bq b)].
(* a false branch followed by its else *)
Fixpoint false_prefix (fs : list (branch * pos)) : list fstmt :=
  match fs with [] => [] | (b, ep) :: r => br_code b ++ FElse ep :: false_prefix r end.

Section Walk.
Variable code : list fstmt.
Variable fuel : nat.

(* n statements, one after the other *)
Fixpoint steps (n : nat) (m : machine) : outcome machine :=
  match n with O => Ok m | S k => do m1 <- interp code (S fuel) m; steps k m1 end.

(* the conditions of [fs] evaluate to false one after the other, each from the state the previous one left *)
Inductive falses : list (branch * pos) -> machine -> machine -> Prop :=
| f_nil m : falses [] m m
| f_cons b ep rest m m1 m' :
    eval code fuel (br_c b) m = Ok (VBool false, m1) -> m_pc m1 = m_pc m ->
    falses rest (set_pc m1 (m_pc m + length (br_code b) + 1)) m' ->
    falses ((b, ep) :: rest) m m'.

Lemma br_code_len b : length (br_code b) = length (br_body b) + 3.
Proof. unfold br_code. simpl. rewrite app_length. simpl. lia. Qed.

Theorem walk_false_branches fs : forall pre post m m',
  code = pre ++ false_prefix fs ++ post -> Forall (fun be => balanced (br_body (fst be))) fs ->
  m_pc m = length pre -> falses fs m m' ->
  steps (length fs) m = Ok m' /\ m_pc m' = length pre + length (false_prefix fs).
Proof.
  induction fs as [|[b ep] rest IH]; intros pre post m m' Hc Hb Hpc Hf.
  - inversion Hf; subst. simpl. split; [reflexivity|lia].
  - inversion Hf as [|b0 ep0 rest0 m0 m1 m'0 He Hpc1 Hrest]; subst.
    inversion Hb as [|x l Hb1 Hbr]; subst. simpl in Hb1.
    cbn [length steps].
    assert (Hstep : interp code (S fuel) m = Ok (set_pc m1 (m_pc m + length (br_code b) + 1))).
    { rewrite (if_false code fuel m (br_c b) (br_p b) m1 pre (br_bp b) (br_body b) (br_bq b) (FElse ep :: false_prefix rest ++ post)); auto.
      - cbv iota. rewrite Hpc, br_code_len. replace (length pre + length (br_body b) + 4) with (length pre + (length (br_body b) + 3) + 1) by lia. reflexivity.
      - rewrite Hc. cbn [false_prefix br_code]. rewrite <- !app_assoc. simpl. rewrite <- !app_assoc. reflexivity. }
    rewrite Hstep. cbn [bind].
    destruct (IH (pre ++ br_code b ++ [FElse ep]) post (set_pc m1 (m_pc m + length (br_code b) + 1)) m') as [S1 S2]; auto.
    + rewrite Hc. cbn [false_prefix]. rewrite <- !app_assoc. simpl. reflexivity.
    + cbn [set_pc m_pc]. rewrite Hpc, !app_length. cbn [length]. lia.
    + split; [exact S1|]. rewrite S2. cbn [false_prefix]. rewrite !app_length. cbn [length]. lia.
Qed.

(** the first true condition after any number of false ones: exactly its block is entered *)
Theorem chain_selects_first_true fs b post m m' m1 pre :
  code = pre ++ false_prefix fs ++ br_code b ++ post -> Forall (fun be => balanced (br_body (fst be))) fs ->
  m_pc m = length pre -> falses fs m m' ->
  eval code fuel (br_c b) m' = Ok (VBool true, m1) ->
  steps (S (length fs)) m = Ok (next m1) /\
  (m_pc m1 = m_pc m' -> m_pc (next m1) = length pre + length (false_prefix fs) + 1 /\
                        stmt_at code (m_pc (next m1)) = Some (FBlockStart (br_bp b))).
Proof.
  intros Hc Hb Hpc Hf He.
  destruct (walk_false_branches fs pre (br_code b ++ post) m m' Hc Hb Hpc Hf) as [S1 S2].
  assert (Hs : stmt_at code (m_pc m') = Some (FIf (br_c b) (br_p b))).
  { rewrite S2. eapply stmt_at_app_off. rewrite Hc. unfold br_code. cbn [app]. reflexivity. }
  split.
  - replace (S (length fs)) with (length fs + 1) by lia.
    assert (G : forall n k x, steps (n + k) x = do y <- steps n x; steps k y).
    { induction n as [|n IHn]; intros k x; cbn [steps Nat.add bind]; [reflexivity|]. destruct (interp code (S fuel) x); cbn [bind]; auto. }
    rewrite G, S1. cbn [bind steps]. rewrite (if_true code fuel m' (br_c b) (br_p b) m1 Hs He). reflexivity.
  - intros Hpc1. unfold next. cbn [set_pc m_pc]. rewrite Hpc1, S2. split; [lia|].
    replace (S (length pre + length (false_prefix fs))) with (length (pre ++ false_prefix fs ++ [FIf (br_c b) (br_p b)])) by (rewrite !app_length; simpl; lia).
    apply (stmt_at_app code (pre ++ false_prefix fs ++ [FIf (br_c b) (br_p b)]) (FBlockStart (br_bp b)) (br_body b ++ [FBlockEnd (br_bq b)] ++ post)).
    rewrite Hc. unfold br_code. rewrite <- !app_assoc. simpl. rewrite <- !app_assoc. reflexivity.
Qed.

(** all conditions false, then an else block: the machine stands at the else block's opening brace, having done nothing
    but evaluate the conditions *)
Theorem chain_all_false_reaches_else fs bp body bq post m m' pre :
  code = pre ++ false_prefix fs ++ FBlockStart bp :: body ++ FBlockEnd bq :: post ->
  Forall (fun be => balanced (br_body (fst be))) fs -> m_pc m = length pre -> falses fs m m' ->
  steps (length fs) m = Ok m' /\ stmt_at code (m_pc m') = Some (FBlockStart bp).
Proof.
  intros Hc Hb Hpc Hf.
  destruct (walk_false_branches fs pre (FBlockStart bp :: body ++ FBlockEnd bq :: post) m m' Hc Hb Hpc Hf) as [S1 S2].
  split; [exact S1|]. rewrite S2.
  apply (stmt_at_app_off code pre (false_prefix fs) (FBlockStart bp) (body ++ FBlockEnd bq :: post)). exact Hc.
Qed.

(** all conditions false and no else: the last false condition continues after the whole chain *)
Theorem chain_all_false_no_else fs b post m m' m1 pre :
  code = pre ++ false_prefix fs ++ br_code b ++ post -> not_else post ->
  Forall (fun be => balanced (br_body (fst be))) fs -> balanced (br_body b) ->
  m_pc m = length pre -> falses fs m m' ->
  eval code fuel (br_c b) m' = Ok (VBool false, m1) -> m_pc m1 = m_pc m' ->
  steps (S (length fs)) m = Ok (set_pc m1 (length pre + length (false_prefix fs) + length (br_code b))).
Proof.
  intros Hc Hne Hb Hbb Hpc Hf He Hpc1.
  destruct (walk_false_branches fs pre (br_code b ++ post) m m' Hc Hb Hpc Hf) as [S1 S2].
  replace (S (length fs)) with (length fs + 1) by lia.
  assert (G : forall n k x, steps (n + k) x = do y <- steps n x; steps k y).
  { induction n as [|n IHn]; intros k x; cbn [steps Nat.add bind]; [reflexivity|]. destruct (interp code (S fuel) x); cbn [bind]; auto. }
  rewrite G, S1. cbn [bind steps].
  rewrite (if_false code fuel m' (br_c b) (br_p b) m1 (pre ++ false_prefix fs) (br_bp b) (br_body b) (br_bq b) post); auto.
  - cbn [bind]. f_equal. f_equal. rewrite app_length, br_code_len. destruct post as [|[] ?]; simpl in Hne; try contradiction; lia.
  - rewrite Hc. unfold br_code. rewrite <- !app_assoc. simpl. rewrite <- !app_assoc. reflexivity.
  - rewrite S2, app_length. reflexivity.
Qed.
End Walk.
