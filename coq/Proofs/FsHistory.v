(** C20 over histories: every file built-in changes the file system only inside its footprint (the written / deleted
    path; the created directory and its ancestors; the removed directory and everything under it), so after ANY sequence
    of successful file operations whose footprints do not contain a path, that path holds what it held before: a file
    written earlier still reads back exactly, a deleted one is still missing, a created directory is still a directory. *)
From Pakhi Require Import Base Float64 Syntax Tables Lexer Interp.
From Pakhi.Proofs Require Import Assoc FsOps.
From Coq Require Import Lia.
Local Open Scope nat_scope.

Definition norm_in (cwd p : text) : text :=
  let pre := cwd ++ [47%N] in if starts_with p pre then skipn (length pre) p else p.

Lemma fs_norm_is w p : fs_norm w p = norm_in (w_cwd w) p.
Proof. reflexivity. Qed.

(* the paths an operation may change, given the working directory *)
Definition footprint (cwd : text) (op : nat) (args : list value) (q : text) : Prop :=
  if Nat.eqb op 11 then match args with [VStr p0; VStr _] => q = norm_in cwd p0 | _ => False end
  else if Nat.eqb op 12 then match args with [VStr p0] => q = norm_in cwd p0 | _ => False end
  else if Nat.eqb op 13 then match args with [VStr p0] => In q (path_prefixes [] (norm_in cwd p0)) | _ => False end
  else if Nat.eqb op 15 then match args with [VStr p0] => q = norm_in cwd p0 \/ is_under (norm_in cwd p0) q = true | _ => False end
  else False.

Section Fs.
Variable code : list fstmt.

Ltac no_fail := match goal with H : fail_here _ _ _ = Ok _ |- _ => exfalso; exact (fail_here_not_ok code _ _ _ H)
                              | H : rt_err _ _ = Ok _ |- _ => exfalso; exact (fail_here_not_ok code _ _ _ H) end.

Lemma mkdirs_frame : forall ps w w' q, mkdirs w ps = Some w' -> ~ In q ps ->
  fs_get w' q = fs_get w q /\ w_cwd w' = w_cwd w /\ w_stdin w' = w_stdin w.
Proof.
  induction ps as [|p r IH]; intros w w' q H Hq; cbn [mkdirs] in H.
  - injection H as <-. auto.
  - assert (Hr : ~ In q r) by (intros X; apply Hq; right; exact X).
    assert (Hp : p <> q) by (intros X; apply Hq; left; exact X).
    destruct (fs_get w p) as [[c| |]|] eqn:E; try discriminate.
    + apply IH; assumption.
    + destruct (IH _ _ q H Hr) as (A & B & C). split; [|split].
      * rewrite A. unfold fs_get, fs_set. cbn [w_fs]. apply alist_get_set_other. congruence.
      * rewrite B. reflexivity.
      * rewrite C. reflexivity.
Qed.

Lemma text_eqb_false a b : a <> b -> text_eqb a b = false.
Proof. intros H. destruct (text_eqb a b) eqn:E; [|reflexivity]. apply text_eqb_eq in E. congruence. Qed.

Lemma mkdirs_env : forall ps w w', mkdirs w ps = Some w' -> w_cwd w' = w_cwd w /\ w_stdin w' = w_stdin w.
Proof.
  induction ps as [|p r IH]; intros w w' H; cbn [mkdirs] in H.
  - injection H as <-. auto.
  - destruct (fs_get w p) as [[c| |]|]; try discriminate; [apply IH; exact H|].
    destruct (IH _ _ H) as (B & C). rewrite B, C. auto.
Qed.

(** one operation: nothing outside its footprint changes; the working directory and pending input never do *)
Theorem fs_op_frame op args m v m' : 10 <= op <= 16 -> builtin_op code op args m = Ok (v, m') ->
  (forall q, ~ footprint (w_cwd (m_world m)) op args q -> fs_get (m_world m') q = fs_get (m_world m) q) /\
  w_cwd (m_world m') = w_cwd (m_world m) /\ w_stdin (m_world m') = w_stdin (m_world m) /\
  m_out m' = m_out m /\ m_scopes m' = m_scopes m /\ m_pc m' = m_pc m.
Proof.
  intros Hop H.
  assert (Hc : op = 10 \/ op = 11 \/ op = 12 \/ op = 13 \/ op = 14 \/ op = 15 \/ op = 16) by lia.
  destruct Hc as [->|[->|[->|[->|[->|[->| ->]]]]]]; unfold builtin_op in H; cbn [Nat.eqb] in H; unfold footprint; cbn [Nat.eqb].
  - (* read *)
    destruct args as [|[] [|? ?]]; try no_fail.
    destruct (fs_get (m_world m) (fs_norm (m_world m) s)) as [[c| |]|]; try no_fail. injection H as _ <-. auto 10.
  - (* write *)
    destruct args as [|[] [|[] [|? ?]]]; try no_fail.
    set (w := m_world m) in *. set (p := fs_norm w s) in *.
    assert (Hm : m' = set_world m (fs_set w p (FsFile s0))).
    { destruct (fs_get w p) as [[c0| |]|]; try no_fail; destruct (fs_parent_ok w p && negb (text_eqb p [])); try no_fail; injection H as _ <-; reflexivity. }
    subst m'. cbn [m_world set_world]. split; [|auto 10].
    intros q Hq. unfold fs_get, fs_set. cbn [w_fs]. apply alist_get_set_other. intros X. apply Hq. first [exact X | symmetry; exact X].
  - (* delete file *)
    destruct args as [|[] [|? ?]]; try no_fail.
    set (w := m_world m) in *. set (p := fs_norm w s) in *.
    assert (Hm : m' = set_world m (mkWorld (alist_remove (text_eqb p) (w_fs w)) (w_stdin w) (w_cwd w))).
    { destruct (fs_get w p) as [[c| |]|]; try no_fail; injection H as _ <-; reflexivity. }
    subst m'. cbn [m_world set_world w_cwd w_stdin]. split; [|auto 10].
    intros q Hq. unfold fs_get. cbn [w_fs]. apply alist_get_remove_other. apply text_eqb_false. intros X. apply Hq. symmetry. exact X.
  - (* create directory *)
    destruct args as [|[] [|? ?]]; try no_fail.
    set (w := m_world m) in *. set (p := fs_norm w s) in *.
    destruct p as [|c0 p1] eqn:Ep; [injection H as _ <-; auto 10|]. rewrite <- Ep in *.
    destruct (mkdirs w (path_prefixes [] p)) as [w'|] eqn:Em; try no_fail. injection H as _ <-. cbn [m_world set_world].
    split; [|destruct (mkdirs_env _ _ _ Em) as (B & C); auto 10].
    intros q Hq. apply (mkdirs_frame _ _ _ q Em). exact Hq.
  - (* list directory *)
    destruct args as [|[] [|? ?]]; try no_fail.
    destruct (fs_get (m_world m) (fs_norm (m_world m) s)) as [[c| |]|]; try no_fail.
    destruct (alloc_list (m_heap m) (map VStr (dir_entries (m_world m) (fs_norm (m_world m) s)))) as [a h'].
    injection H as _ <-. cbn. auto 10.
  - (* remove directory *)
    destruct args as [|[] [|? ?]]; try no_fail.
    set (w := m_world m) in *. set (p := fs_norm w s) in *.
    destruct (fs_get w p) as [[c| |]|]; try no_fail. injection H as _ <-. cbn [m_world set_world w_cwd w_stdin]. split; [|auto 10].
    intros q Hq. unfold fs_get. cbn [w_fs]. apply alist_get_remove_other.
    apply Bool.orb_false_iff. split.
    + apply text_eqb_false. intros X. apply Hq. left. exact X.
    + destruct (is_under p q) eqn:E; [|reflexivity]. exfalso. apply Hq. right. exact E.
  - (* file or directory *)
    destruct args as [|[] [|? ?]]; try no_fail.
    destruct (fs_get (m_world m) (fs_norm (m_world m) s)) as [[c| |]|]; try no_fail; injection H as _ <-; auto 10.
Qed.

(** histories: sequences of successful file operations *)
Fixpoint fs_run (ops : list (nat * list value)) (m : machine) : option machine :=
  match ops with
  | [] => Some m
  | (op, args) :: r => match builtin_op code op args m with Ok (_, m1) => fs_run r m1 | _ => None end
  end.

Theorem untouched_path_keeps_its_content : forall ops m m' q,
  Forall (fun oa => 10 <= fst oa <= 16) ops -> fs_run ops m = Some m' ->
  Forall (fun oa => ~ footprint (w_cwd (m_world m)) (fst oa) (snd oa) q) ops ->
  fs_get (m_world m') q = fs_get (m_world m) q /\ w_cwd (m_world m') = w_cwd (m_world m).
Proof.
  induction ops as [|[op args] r IH]; intros m m' q Hr H Hf; cbn [fs_run] in H.
  - injection H as <-. auto.
  - inversion Hr as [|? ? Hop Hr']; subst. inversion Hf as [|? ? Hq Hf']; subst. cbn [fst snd] in *.
    destruct (builtin_op code op args m) as [[v m1]| | |] eqn:E; try discriminate.
    destruct (fs_op_frame op args m v m1 Hop E) as (Fr & Cw & _).
    assert (Hf2 : Forall (fun oa => ~ footprint (w_cwd (m_world m1)) (fst oa) (snd oa) q) r) by (rewrite Cw; exact Hf').
    destruct (IH m1 m' q Hr' H Hf2) as (A & B). split.
    + rewrite A. apply Fr. exact Hq.
    + rewrite B. exact Cw.
Qed.

(** write, then any history that does not touch the path, then read: exactly the written text *)
Theorem write_history_read m p c v m1 ops m2 :
  builtin_op code 11 [VStr p; VStr c] m = Ok (v, m1) ->
  Forall (fun oa => 10 <= fst oa <= 16) ops -> fs_run ops m1 = Some m2 ->
  Forall (fun oa => ~ footprint (w_cwd (m_world m)) (fst oa) (snd oa) (fs_norm (m_world m) p)) ops ->
  builtin_op code 10 [VStr p] m2 = Ok (VStr c, m2).
Proof.
  intros Hw Hr Hrun Hf.
  destruct (write_then_read code m p c v m1 Hw) as (_ & Hread & _).
  destruct (fs_op_frame 11 _ m v m1 ltac:(lia) Hw) as (_ & Cw & _).
  assert (Hf1 : Forall (fun oa => ~ footprint (w_cwd (m_world m1)) (fst oa) (snd oa) (fs_norm (m_world m) p)) ops) by (rewrite Cw; exact Hf).
  destruct (untouched_path_keeps_its_content ops m1 m2 _ Hr Hrun Hf1) as (A & B).
  unfold builtin_op in *. cbn [Nat.eqb] in *.
  assert (Hn2 : fs_norm (m_world m2) p = fs_norm (m_world m) p) by (rewrite !fs_norm_is, B, Cw; reflexivity).
  assert (Hn1 : fs_norm (m_world m1) p = fs_norm (m_world m) p) by (rewrite !fs_norm_is, Cw; reflexivity).
  rewrite Hn2, A. rewrite Hn1 in Hread.
  destruct (fs_get (m_world m1) (fs_norm (m_world m) p)) as [[c1| |]|]; try (exfalso; exact (fail_here_not_ok code _ _ _ Hread)).
  injection Hread as ->. reflexivity.
Qed.

(** delete, then any history that does not touch the path, then read: still an error *)
Theorem delete_history_read m p v m1 ops m2 :
  builtin_op code 12 [VStr p] m = Ok (v, m1) ->
  Forall (fun oa => 10 <= fst oa <= 16) ops -> fs_run ops m1 = Some m2 ->
  Forall (fun oa => ~ footprint (w_cwd (m_world m)) (fst oa) (snd oa) (fs_norm (m_world m) p)) ops ->
  builtin_op code 10 [VStr p] m2 = fail_here code ERuntime m2.
Proof.
  intros Hd Hr Hrun Hf.
  pose proof (delete_then_read code m p v m1 Hd) as Hread.
  destruct (fs_op_frame 12 _ m v m1 ltac:(lia) Hd) as (_ & Cw & _).
  assert (Hf1 : Forall (fun oa => ~ footprint (w_cwd (m_world m1)) (fst oa) (snd oa) (fs_norm (m_world m) p)) ops) by (rewrite Cw; exact Hf).
  destruct (untouched_path_keeps_its_content ops m1 m2 _ Hr Hrun Hf1) as (A & B).
  unfold builtin_op in *. cbn [Nat.eqb] in *.
  assert (Hn2 : fs_norm (m_world m2) p = fs_norm (m_world m) p) by (rewrite !fs_norm_is, B, Cw; reflexivity).
  assert (Hn1 : fs_norm (m_world m1) p = fs_norm (m_world m) p) by (rewrite !fs_norm_is, Cw; reflexivity).
  rewrite Hn2, A. rewrite Hn1 in Hread.
  destruct (fs_get (m_world m1) (fs_norm (m_world m) p)) as [[c1| |]|]; try reflexivity.
  exfalso. unfold rt_err, fail_here, unexpected_at in Hread. destruct (stmt_at code (m_pc m1)); discriminate.
Qed.
End Fs.
