(** C12: every program made of the documented statement forms is accepted.  The statement parser inverts rendering: for
    every statement vector whose statements are of the documented forms (print with and without newline, declaration with
    and without initialiser, assignment to a variable and to an indexed path, call statement, block open / close, if,
    else, loop, break, continue, function definition marker, return with and without value, end marker) and whose
    expressions are well formed at level 0, rendering it to tokens and parsing returns that very vector, up to line/file
    metadata.  Blocks, chains, loops and function bodies are markers in the flat vector, so "nested to any depth" needs no
    extra argument.  (ParseRender.v supplies the expressions.) *)
From Pakhi Require Import Base Float64 Syntax Tables Lexer Parser.
From Pakhi.Proofs Require Import ParseRender.
From Coq Require Import Lia.
Local Open Scope nat_scope.

Definition is_nil (e : expr) : bool := match e with ENil _ => true | _ => false end.
Definition is_list_lit (e : expr) : bool := match e with EList _ _ => true | _ => false end.
(* a call statement: a call chain whose head is a variable *)
Definition call_stmt (e : expr) : bool :=
  match cspine e with (EVar _ _, _ :: _) => true | _ => false end.

Definition swf (s : fstmt) : bool :=
  match s with
  | FPrint e _ | FPrintNoEol e _ | FIf e _ => wfb 0 e
  | FAssign AFirst _ _ idx init _ => match idx with [] => true | _ => false end && match init with Some e => wfb 0 e | None => true end
  | FAssign AReassign _ _ idx init _ => forallb (fun i => is_list_lit i && wfb 0 i) idx && match init with Some e => wfb 0 e | None => false end
  | FExpr e _ => call_stmt e && wfb 0 e
  | FReturn e _ => is_nil e || wfb 0 e
  | _ => true
  end.

Definition render_stmt (s : fstmt) : list token :=
  match s with
  | FPrint e _ => tk TPrint :: render e ++ [tk TSemi]
  | FPrintNoEol e _ => tk TPrintNoEol :: render e ++ [tk TSemi]
  | FAssign AFirst x _ _ None _ => [tk TVar; tid x; tk TSemi]
  | FAssign AFirst x _ _ (Some e) _ => tk TVar :: tid x :: tk TEqual :: render e ++ [tk TSemi]
  | FAssign AReassign x _ idx (Some e) _ => tid x :: flat_map render idx ++ tk TEqual :: render e ++ [tk TSemi]
  | FAssign AReassign x _ _ None _ => []
  | FExpr e _ => render e ++ [tk TSemi]
  | FBlockStart _ => [tk TLCurly]
  | FBlockEnd _ => [tk TRCurly]
  | FFuncDef _ => [tk TFunction]
  | FReturn e _ => if is_nil e then [tk TReturn; tk TSemi] else tk TReturn :: render e ++ [tk TSemi]
  | FIf c _ => tk TIf :: render c
  | FLoop _ => [tk TLoop]
  | FContinue _ => [tk TContinue; tk TSemi]
  | FBreak _ => [tk TBreak; tk TSemi]
  | FElse _ => [tk TElse]
  | FEOS _ => [tk TEOT]
  end.

Definition serase (s : fstmt) : fstmt :=
  match s with
  | FPrint e _ => FPrint (erase e) p0
  | FPrintNoEol e _ => FPrintNoEol (erase e) p0
  | FAssign k x _ idx init _ => FAssign k x p0 (map erase idx) (option_map erase init) p0
  | FExpr e _ => FExpr (erase e) p0
  | FBlockStart _ => FBlockStart p0 | FBlockEnd _ => FBlockEnd p0 | FFuncDef _ => FFuncDef p0
  | FReturn e _ => FReturn (erase e) p0
  | FIf c _ => FIf (erase c) p0
  | FLoop _ => FLoop p0 | FContinue _ => FContinue p0 | FBreak _ => FBreak p0 | FElse _ => FElse p0 | FEOS _ => FEOS p0
  end.

(* the first token of an expression is never a statement terminator *)
Definition starts (k : tkind) : bool :=
  match k with TBool _ | TNum _ | TStr _ | TIdent | TLParen | TLSquare | TAt | TNot | TMinus => true | _ => false end.
Lemma render_starts : forall e lvl, wfb lvl e = true -> exists t r, render e = t :: r /\ starts (t_kind t) = true.
Proof.
  induction e as [p|b p|x p|s0 p|x p|es p|ks vs p|g IHg p|uo u IHu p|o e1 IHe1 e2 IHe2 p|f IHf args p|a IHa i IHi p]; intros lvl Hw; cbn [wfb] in Hw; try discriminate;
    try (eexists; eexists; split; reflexivity).
  - eexists; eexists; split; [reflexivity|]. destruct uo; reflexivity.
  - apply andb_true_iff in Hw as [Hw _]. apply andb_true_iff in Hw as [_ H2]. destruct (IHe1 _ H2) as (t & r & E & S). exists t. eexists. split; [simpl; rewrite E; reflexivity|exact S].
  - apply andb_true_iff in Hw as [Hw _]. apply andb_true_iff in Hw as [_ H2]. destruct (IHf _ H2) as (t & r & E & S). exists t. eexists. split; [simpl; rewrite E; reflexivity|exact S].
  - apply andb_true_iff in Hw as [Hw _]. apply andb_true_iff in Hw as [_ H2]. destruct (IHa _ H2) as (t & r & E & S). exists t. eexists. split; [simpl; rewrite E; reflexivity|exact S].
Qed.

Section Stmts.
Variable fs : text -> option text.
Variables cwd main_path : text.
Variable last : token.
Variable mods : list (text * text).
Notation St toks prev := (mkPs toks prev last mods).
Notation pstmt := (pstmt fs cwd main_path).
Notation pprogram := (pprogram fs cwd main_path).

(* an expression at level 0, via ParseRender *)
Lemma expr0 e rest prev : wfb 0 e = true -> rest <> [] -> stop 0 (t_kind (hd last rest)) = true ->
  exists n e' t', expression n (St (render e ++ rest) prev) = Ok (e', St rest (Some t')) /\ erase e' = erase e.
Proof. intros Hw Hne Hs. exact (parse_render_round_trip last mods (size e) e (le_n _) 0 ltac:(lia) Hw rest prev Hne Hs). Qed.

Lemma expr_mono n n' s r : n <= n' -> expression n s = Ok r -> expression n' s = Ok r.
Proof. intros H. apply (proj1 (mono_ge n n' H)). Qed.

(* a list literal followed by another '[' (the index path of an assignment: x[i][j] = ..) *)
Lemma list_lit_reads es p rest prev : wfb 0 (EList es p) = true -> rest <> [] -> tk_is (t_kind (hd last rest)) TLSquare = true ->
  exists n e' t', expression n (St (render (EList es p) ++ rest) prev) = Ok (e', St rest (Some t')) /\ erase e' = erase (EList es p).
Proof.
  intros Hw Hne Hsq. set (e := EList es p).
  assert (IH : forall e', size e' < size e -> forall lvl', lvl' <= 8 -> wfb lvl' e' = true -> Pok last mods lvl' e').
  { intros e' _ lvl' Hl Hw'. exact (parse_render_round_trip last mods (size e') e' (le_n _) lvl' Hl Hw'). }
  destruct (prim_reads last mods e IH e (le_n _) eq_refl Hw rest prev Hne ltac:(intros H; discriminate H)) as (n1 & e' & t1 & P1 & E1).
  assert (P7 : pexpr (S (S n1)) 7 (St (render e ++ rest) prev) = Ok (e', St rest (Some t1))).
  { change (pexpr (S (S n1)) 7 (St (render e ++ rest) prev)) with
      (do '(x, s1) <- pexpr (S n1) 8 (St (render e ++ rest) prev); pcalls (S n1) x s1).
    change (pexpr (S n1) 8 (St (render e ++ rest) prev)) with (pprimary n1 (St (render e ++ rest) prev)).
    rewrite P1. cbn [bind pcalls]. rewrite (hk_rest last mods rest _ Hne).
    destruct (t_kind (hd last rest)); try reflexivity; discriminate. }
  destruct (descend_from_7 0 _ _ _ _ ltac:(lia) P7) as (n2 & P2).
  - intros o. unfold e. cbn [render app]. rewrite hk_cons. destruct o; discriminate.
  - intros l0 _ _. rewrite (hk_rest last mods rest _ Hne). destruct (t_kind (hd last rest)); try discriminate. do 6 (destruct l0 as [|l0]; [reflexivity|]). reflexivity.
  - exists n2, e', t1. split; [exact P2|exact E1].
Qed.

(* the index path: any number of list literals up to the '=' *)
Lemma index_list_reads idx : forallb (fun i => is_list_lit i && wfb 0 i) idx = true -> forall rest prev,
  exists n idx' prev', pindex_list n (St (flat_map render idx ++ tk TEqual :: rest) prev) = Ok (idx', St (tk TEqual :: rest) prev') /\
                       map erase idx' = map erase idx.
Proof.
  induction idx as [|i idx IH]; intros Hall rest prev.
  - exists 1, [], prev. split; reflexivity.
  - cbn [forallb] in Hall. apply andb_true_iff in Hall as [Hi Hrest]. apply andb_true_iff in Hi as [Hlit Hw].
    destruct i as [ | | | | |es p| | | | | | ]; try discriminate.
    set (rest1 := flat_map render idx ++ tk TEqual :: rest).
    assert (Hne1 : rest1 <> []) by (unfold rest1; destruct (flat_map render idx); discriminate).
    assert (Hread : exists n e' t', expression n (St (render (EList es p) ++ rest1) prev) = Ok (e', St rest1 (Some t')) /\ erase e' = erase (EList es p)).
    { destruct idx as [|i2 idx2].
      - apply expr0; auto.
      - cbn [forallb] in Hrest. apply andb_true_iff in Hrest as [Hi2 _]. apply andb_true_iff in Hi2 as [Hl2 _].
        destruct i2; try discriminate. apply list_lit_reads; auto. }
    destruct Hread as (n1 & e' & t1 & P1 & E1).
    destruct (IH Hrest rest (Some t1)) as (n2 & idx' & prev2 & P2 & E2).
    set (N := Nat.max n1 n2).
    exists (S N), (e' :: idx'), prev2. split; [|simpl in *; rewrite E1, E2; reflexivity].
    cbn [flat_map]. rewrite <- app_assoc. fold rest1. cbn [pindex_list].
    assert (Hk : hk (St (render (EList es p) ++ rest1) prev) = TLSquare) by reflexivity.
    rewrite Hk. rewrite (expr_mono n1 N _ _ ltac:(lia) P1). cbn [bind].
    assert (He' : is_list_lit e' = true).
    { destruct e'; simpl in E1; try discriminate. reflexivity. }
    destruct e'; try discriminate.
    assert (Hm : forall a b s0 r0, a <= b -> pindex_list a s0 = Ok r0 -> pindex_list b s0 = Ok r0).
    { intros a b. revert a. induction b as [|b IHb]; intros a s0 r0 Hab Hp; [destruct a; [discriminate|lia]|].
      destruct a as [|a]; [discriminate|]. cbn [pindex_list] in Hp |- *. destruct (hk s0); try exact Hp;
        (destruct (expression a s0) as [[i0 s1]| | |] eqn:Ei; cbn [bind] in Hp; try discriminate;
         rewrite (expr_mono a b _ _ ltac:(lia) Ei); cbn [bind]; destruct i0; try exact Hp;
         destruct (pindex_list a s1) as [[is0 s2]| | |] eqn:Ep; cbn [bind] in Hp; try discriminate;
         rewrite (IHb a s1 _ ltac:(lia) Ep); exact Hp). }
    unfold rest1. rewrite (Hm n2 N _ _ ltac:(lia) P2). reflexivity.
Qed.

Definition is_eos_b (s : fstmt) : bool := match s with FEOS _ => true | _ => false end.
Definition leftover (s : fstmt) : list token := match s with FExpr _ _ => [tk TSemi] | _ => [] end.
Definition consumed (s : fstmt) : list token := match s with FExpr e _ => render e | _ => render_stmt s end.
Lemma render_stmt_split s : render_stmt s = consumed s ++ leftover s.
Proof. destruct s; simpl; rewrite ?app_nil_r; reflexivity. Qed.

Lemma pindex_mono : forall a b s0 r0, a <= b -> pindex_list a s0 = Ok r0 -> pindex_list b s0 = Ok r0.
Proof.
  intros a b. revert a. induction b as [|b IHb]; intros a s0 r0 Hab Hp; [destruct a; [discriminate|lia]|].
  destruct a as [|a]; [discriminate|]. cbn [pindex_list] in Hp |- *. destruct (hk s0); try exact Hp;
    (destruct (expression a s0) as [[i0 s1]| | |] eqn:Ei; cbn [bind] in Hp; try discriminate;
     rewrite (expr_mono a b _ _ ltac:(lia) Ei); cbn [bind]; destruct i0; try exact Hp;
     destruct (pindex_list a s1) as [[is0 s2]| | |] eqn:Ep; cbn [bind] in Hp; try discriminate;
     rewrite (IHb a s1 _ ltac:(lia) Ep); exact Hp).
Qed.

(* one statement: from some fuel on *)
Definition stmt_ok_after (s : fstmt) (rest : list token) : Prop :=
  match s with FIf _ _ => stop 0 (t_kind (hd last rest)) = true | _ => True end.

Lemma head2_cons t1 t2 r prev : head2 (St (t1 :: t2 :: r) prev) = t2. Proof. reflexivity. Qed.

Ltac open_pstmt f Hf := intros f Hf; destruct f as [|f]; [lia|]; cbn [Parser.pstmt]; rewrite pos_here_cons; cbn [bind]; rewrite hk_cons; cbn [t_kind tk tid].

Lemma stmt_reads s rest prev : swf s = true -> is_eos_b s = false -> rest <> [] -> stmt_ok_after s rest ->
  exists n s' prev', (forall f, n <= f -> pstmt f (St (consumed s ++ leftover s ++ rest) prev) = Ok (s', St (leftover s ++ rest) prev')) /\
                     serase s' = serase s.
Proof.
  intros Hw Hneos Hne Hafter.
  destruct s as [e p|e p|k x xp idx init p|e p|p|p|p|e p|c p|p|p|p|p|p]; cbn [swf] in Hw; cbn [consumed render_stmt leftover app]; try discriminate.
  - (* print *)
    destruct (expr0 e (tk TSemi :: rest) (Some (tk TPrint)) Hw ltac:(discriminate) eq_refl) as (n1 & e' & t1 & P1 & E1).
    exists (S n1), (FPrint e' (tpos (tk TPrint))), (Some (tk TSemi)). split; [|simpl; rewrite E1; reflexivity].
    rewrite <- app_assoc. cbn [app]. open_pstmt f Hf. rewrite adv_cons, (expr_mono n1 f _ _ ltac:(lia) P1). cbn [bind]. rewrite adv_cons. reflexivity.
  - (* print without newline *)
    destruct (expr0 e (tk TSemi :: rest) (Some (tk TPrintNoEol)) Hw ltac:(discriminate) eq_refl) as (n1 & e' & t1 & P1 & E1).
    exists (S n1), (FPrintNoEol e' (tpos (tk TPrintNoEol))), (Some (tk TSemi)). split; [|simpl; rewrite E1; reflexivity].
    rewrite <- app_assoc. cbn [app]. open_pstmt f Hf. rewrite adv_cons, (expr_mono n1 f _ _ ltac:(lia) P1). cbn [bind]. rewrite adv_cons. reflexivity.
  - (* declaration / assignment *)
    destruct k.
    + apply andb_true_iff in Hw as [Hidx Hinit]. destruct idx; [|discriminate]. destruct init as [e|].
      * destruct (expr0 e (tk TSemi :: rest) (Some (tk TEqual)) Hinit ltac:(discriminate) eq_refl) as (n1 & e' & t1 & P1 & E1).
        exists (S n1), (FAssign AFirst x (tpos (tid x)) [] (Some e') (tpos (tk TVar))), (Some (tk TSemi)). split; [|simpl; rewrite E1; reflexivity].
        cbn [app]. rewrite <- app_assoc. cbn [app]. open_pstmt f Hf.
        rewrite adv_cons, hk_cons. cbn [t_kind tid]. rewrite adv_cons, hk_cons. cbn [t_kind tk]. rewrite adv_cons.
        rewrite (expr_mono n1 f _ _ ltac:(lia) P1). cbn [bind]. rewrite hk_cons. cbn [t_kind tk]. rewrite adv_cons. reflexivity.
      * exists 1, (FAssign AFirst x (tpos (tid x)) [] None (tpos (tk TVar))), (Some (tk TSemi)). split; [|reflexivity].
        cbn [app]. open_pstmt f Hf. rewrite adv_cons, hk_cons. cbn [t_kind tid]. rewrite adv_cons, hk_cons. cbn [t_kind tk bind]. rewrite hk_cons. cbn [t_kind tk]. rewrite adv_cons. reflexivity.
    + apply andb_true_iff in Hw as [Hidx Hinit]. destruct init as [e|]; [|discriminate].
      destruct (index_list_reads idx Hidx (render e ++ tk TSemi :: rest) (Some (tid x))) as (n1 & idx' & prev1 & P1 & E1).
      destruct (expr0 e (tk TSemi :: rest) (Some (tk TEqual)) Hinit ltac:(discriminate) eq_refl) as (n2 & e' & t2 & P2 & E2).
      exists (S (Nat.max n1 n2)), (FAssign AReassign x (tpos (tid x)) idx' (Some e') (tpos (tid x))), (Some (tk TSemi)). split; [|simpl; rewrite E1, E2; reflexivity].
      cbn [app]. rewrite <- !app_assoc. cbn [app]. rewrite <- !app_assoc. cbn [app].
      open_pstmt f Hf.
      assert (Hh2 : t_kind (head2 (St (tid x :: flat_map render idx ++ tk TEqual :: render e ++ tk TSemi :: rest) prev)) = TEqual \/
                    t_kind (head2 (St (tid x :: flat_map render idx ++ tk TEqual :: render e ++ tk TSemi :: rest) prev)) = TLSquare).
      { destruct idx as [|i idx2]; [left; reflexivity|right]. cbn [forallb] in Hidx. apply andb_true_iff in Hidx as [Hi _]. apply andb_true_iff in Hi as [Hl _].
        destruct i; try discriminate. reflexivity. }
      rewrite adv_cons.
      destruct Hh2 as [Hh2|Hh2]; rewrite Hh2; rewrite (pindex_mono n1 f _ _ ltac:(lia) P1); cbn [bind]; rewrite adv_cons;
        rewrite (expr_mono n2 f _ _ ltac:(lia) P2); cbn [bind]; rewrite adv_cons; reflexivity.
  - (* call statement *)
    apply andb_true_iff in Hw as [Hcs Hwe]. unfold call_stmt in Hcs.
    destruct (cspine e) as [h l] eqn:Esp. destruct h as [ | | | |fx fp| | | | | | | ]; try discriminate. destruct l as [|args l]; [discriminate|].
    destruct (expr0 e (tk TSemi :: rest) prev Hwe ltac:(discriminate) eq_refl) as (n1 & e' & t1 & P1 & E1).
    exists (S n1), (FExpr e' (tpos (tid fx))), (Some t1). split; [|simpl; rewrite E1; reflexivity].
    cbn [app].
    assert (Er : render e = tid fx :: tk TLParen :: join_comma (map render args) ++ [tk TRParen] ++ calls_toks l).
    { rewrite (cspine_render e _ _ Esp). cbn [render app calls_toks flat_map]. unfold call_toks. cbn [app]. rewrite <- app_assoc. reflexivity. }
    assert (Hph : pos_here (St (render e ++ tk TSemi :: rest) prev) = Ok (tpos (tid fx))) by (rewrite Er; reflexivity).
    assert (Hhk : hk (St (render e ++ tk TSemi :: rest) prev) = TIdent) by (rewrite Er; reflexivity).
    assert (Hh2 : t_kind (head2 (St (render e ++ tk TSemi :: rest) prev)) = TLParen) by (rewrite Er; reflexivity).
    intros f Hf. destruct f as [|f]; [lia|]. cbn [Parser.pstmt]. rewrite Hph. cbn [bind]. rewrite Hhk, Hh2.
    rewrite (expr_mono n1 f _ _ ltac:(lia) P1). reflexivity.
  - (* { *) exists 1, (FBlockStart (tpos (tk TLCurly))), (Some (tk TLCurly)). split; [|reflexivity]. open_pstmt f Hf. rewrite adv_cons, (pos_prev_ok last mods rest _ Hne). reflexivity.
  - (* } *) exists 1, (FBlockEnd (tpos (tk TRCurly))), (Some (tk TRCurly)). split; [|reflexivity]. open_pstmt f Hf. rewrite adv_cons, (pos_prev_ok last mods rest _ Hne). reflexivity.
  - (* function *) exists 1, (FFuncDef (tpos (tk TFunction))), (Some (tk TFunction)). split; [|reflexivity]. open_pstmt f Hf. rewrite adv_cons, (pos_prev_ok last mods rest _ Hne). reflexivity.
  - (* return *)
    destruct (is_nil e) eqn:En.
    + destruct e; try discriminate. exists 1, (FReturn (ENil (tpos (tk TReturn))) (tpos (tk TReturn))), (Some (tk TSemi)). split; [|reflexivity].
      cbn [app]. open_pstmt f Hf. rewrite adv_cons, hk_cons. cbn [t_kind tk bind]. rewrite adv_cons. reflexivity.
    + cbn [orb] in Hw.
      destruct (expr0 e (tk TSemi :: rest) (Some (tk TReturn)) Hw ltac:(discriminate) eq_refl) as (n1 & e' & t1 & P1 & E1).
      destruct (render_starts e 0 Hw) as (t & r & Er & Hstart).
      exists (S n1), (FReturn e' (tpos (tk TReturn))), (Some (tk TSemi)). split; [|simpl; rewrite E1; reflexivity].
      cbn [app]. rewrite <- app_assoc. cbn [app]. open_pstmt f Hf. rewrite adv_cons.
      assert (Hk : hk (St (render e ++ tk TSemi :: rest) (Some (tk TReturn))) = t_kind t) by (rewrite Er; reflexivity).
      rewrite Hk. rewrite (expr_mono n1 f _ _ ltac:(lia) P1).
      destruct (t_kind t); try discriminate; cbn [bind]; rewrite adv_cons; reflexivity.
  - (* if *)
    simpl in Hafter.
    destruct (expr0 c rest (Some (tk TIf)) Hw Hne Hafter) as (n1 & c' & t1 & P1 & E1).
    exists (S n1), (FIf c' (tpos t1)), (Some t1). split; [|simpl; rewrite E1; reflexivity].
    cbn [app]. open_pstmt f Hf. rewrite adv_cons, (expr_mono n1 f _ _ ltac:(lia) P1). cbn [bind]. rewrite (pos_prev_ok last mods rest _ Hne). reflexivity.
  - (* loop *) exists 1, (FLoop (tpos (tk TLoop))), (Some (tk TLoop)). split; [|reflexivity]. open_pstmt f Hf. rewrite adv_cons, (pos_prev_ok last mods rest _ Hne). reflexivity.
  - (* continue *) exists 1, (FContinue (tpos (tk TContinue))), (Some (tk TSemi)). split; [|reflexivity]. cbn [app]. open_pstmt f Hf. rewrite !adv_cons. reflexivity.
  - (* break *) exists 1, (FBreak (tpos (tk TBreak))), (Some (tk TSemi)). split; [|reflexivity]. cbn [app]. open_pstmt f Hf. rewrite !adv_cons. reflexivity.
  - (* else *) exists 1, (FElse (tpos (tk TElse))), (Some (tk TElse)). split; [|reflexivity]. open_pstmt f Hf. rewrite adv_cons, (pos_prev_ok last mods rest _ Hne). reflexivity.
Qed.

(** ** whole statement vectors *)
Definition render_prog (ss : list fstmt) : list token := flat_map render_stmt ss.

(* statements of the documented forms, then exactly one end marker; an if is followed by its block *)
Fixpoint prog_ok (ss : list fstmt) : bool :=
  match ss with
  | [] => false
  | s :: r =>
      match r with
      | [] => is_eos_b s
      | s2 :: _ => negb (is_eos_b s) && swf s &&
                   match s with FIf _ _ => match s2 with FBlockStart _ => true | _ => false end | _ => true end && prog_ok r
      end
  end.

Lemma render_stmt_first s : swf s = true -> exists t r, render_stmt s = t :: r /\ t_kind t <> TSemi.
Proof.
  intros Hw. destruct s as [e p|e p|k x xp idx init p|e p|p|p|p|e p|c p|p|p|p|p|p]; cbn [swf] in Hw; cbn [render_stmt];
    try (eexists; eexists; split; [reflexivity|discriminate]).
  - destruct k; [destruct init; eexists; eexists; split; try reflexivity; discriminate|].
    apply andb_true_iff in Hw as [_ Hi]. destruct init; [|discriminate]. eexists; eexists; split; [reflexivity|discriminate].
  - apply andb_true_iff in Hw as [_ Hwe]. destruct (render_starts e 0 Hwe) as (t & r & Er & Hs). exists t, (r ++ [tk TSemi]). rewrite Er. split; [reflexivity|].
    intros E. rewrite E in Hs. discriminate.
  - destruct (is_nil e); eexists; eexists; split; try reflexivity; discriminate.
Qed.

Lemma prog_first ss : prog_ok ss = true -> exists t r, render_prog ss = t :: r /\ t_kind t <> TSemi /\
  (match ss with FBlockStart _ :: _ => t_kind t = TLCurly | _ => True end).
Proof.
  destruct ss as [|s r]; [discriminate|]. cbn [prog_ok]. destruct r as [|s2 r'].
  - intros He. destruct s; try discriminate. exists (tk TEOT), []. repeat split. discriminate.
  - intros H. apply andb_true_iff in H as [H _]. apply andb_true_iff in H as [H _]. apply andb_true_iff in H as [_ Hw].
    destruct (render_stmt_first s Hw) as (t & r0 & Er & Ht).
    exists t, (r0 ++ render_prog (s2 :: r')). unfold render_prog. cbn [flat_map]. rewrite Er. split; [reflexivity|]. split; [exact Ht|].
    destruct s; try exact I. simpl in Er. injection Er as <- _. reflexivity.
Qed.

Theorem prog_reads ss : prog_ok ss = true -> forall prev,
  exists n ss', (forall f, n <= f -> pprogram f (St (render_prog ss) prev) = Ok ss') /\ map serase ss' = map serase ss.
Proof.
  induction ss as [|s r IH]; [discriminate|]. intros Hok prev. cbn [prog_ok] in Hok. destruct r as [|s2 r'].
  - (* the end marker *)
    destruct s; try discriminate. exists 2, [FEOS (tpos (tk TEOT))]. split; [|reflexivity].
    intros f Hf. destruct f as [|[|f]]; try lia. reflexivity.
  - apply andb_true_iff in Hok as [Hok Hr]. apply andb_true_iff in Hok as [Hok Hif]. apply andb_true_iff in Hok as [Hne Hw].
    apply Bool.negb_true_iff in Hne.
    set (rest := render_prog (s2 :: r')).
    destruct (prog_first (s2 :: r') Hr) as (t & r0 & Erest & Hts & Hcurly).
    assert (Hrne : rest <> []) by (unfold rest; rewrite Erest; discriminate).
    assert (Hafter : stmt_ok_after s rest).
    { destruct s; try exact I. simpl. destruct s2; try discriminate. unfold rest. rewrite Erest. simpl. simpl in Hcurly. rewrite Hcurly. reflexivity. }
    destruct (stmt_reads s rest prev Hw Hne Hrne Hafter) as (n1 & s' & prev1 & P1 & E1).
    assert (Hmid : exists prev2, forall f0, (let s1 := St (leftover s ++ rest) prev1 in
                     (if at_end s1 then @unexpected (list fstmt) else
                      do r1 <- pprogram f0 (match hk s1 with TSemi => adv s1 | _ => s1 end); Ok (s' :: r1))) =
                     (do r1 <- pprogram f0 (St rest prev2); Ok (s' :: r1))).
    { destruct s; cbn [leftover app];
        try (exists prev1; intros f0; cbv zeta; unfold rest; rewrite Erest; cbn [at_end ps_rest]; rewrite hk_cons;
             destruct (t_kind t) eqn:Hk; try reflexivity; exfalso; apply Hts; reflexivity).
      exists (Some (tk TSemi)). intros f0. reflexivity. }
    destruct Hmid as (prev2 & Hmid).
    destruct (IH Hr prev2) as (n2 & ss' & P2 & E2).
    exists (S (Nat.max n1 n2)), (s' :: ss'). split; [|simpl; rewrite E1; simpl in E2; rewrite E2; reflexivity].
    intros f Hf. destruct f as [|f]; [lia|]. cbn [Parser.pprogram].
    change (render_prog (s :: s2 :: r')) with (render_stmt s ++ rest).
    rewrite render_stmt_split, <- app_assoc. rewrite (P1 f ltac:(lia)). cbn [bind].
    assert (Hs' : is_eos_b s' = false).
    { destruct s', s; simpl in E1, Hne |- *; try reflexivity; discriminate. }
    destruct s'; try discriminate; rewrite Hmid; unfold rest; rewrite (P2 f ltac:(lia)); reflexivity.
Qed.
End Stmts.

(** the same through [parse] (tokens that mention the directory constant are expanded first; the others are untouched) *)
Theorem parse_reads fs cwd main_path ss : prog_ok ss = true ->
  existsb (fun t => tk_is (t_kind t) TIdent && text_eqb (t_lexeme t) dirname_const) (render_prog ss) = false ->
  exists n ss', (forall f, n <= f -> parse fs cwd main_path f (render_prog ss) = Ok ss') /\ map serase ss' = map serase ss.
Proof.
  intros Hok Hnd.
  destruct (prog_first ss Hok) as (t & r & Er & _).
  destruct (prog_reads fs cwd main_path (last (render_prog ss) t) [] ss Hok None) as (n & ss' & P & E).
  exists n, ss'. split; [|exact E]. intros f Hf. unfold parse. rewrite Er. rewrite <- Er.
  unfold expand_dirname. rewrite Hnd. cbn [bind]. apply P. exact Hf.
Qed.
