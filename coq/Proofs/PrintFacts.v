(** C18: the bracket, separator and key literals of the model's renderer ARE the ones the three renderers of the source
    write now ([fmt_*] are regenerated from interpreter.rs on every run by tools/gen_tables.py, which also checks that
    interpret_print_stmt, interpret_print_no_eol and print_datatype use the same literals in the same order and that only
    the closing bracket / brace of a print statement ends the line). *)
From Pakhi Require Import Base Float64 Syntax Tables Lexer Interp.
Local Open Scope nat_scope.

Theorem renderer_uses_the_literals_of_the_source :
  let h := mkHeap [[VStr [97%N]; VBool true]] [] [[([107%N], VList 0)]] [] 0 in
  render_nested 5 h (VRec 0) =
    Ok [CPrint fmt_rec_open; CPrint (fmt_key_prefix ++ [107%N] ++ fmt_key_suffix); CPrint fmt_list_open; CPrint [97%N]; CPrint fmt_list_sep;
        CPrint text_true; CPrint fmt_list_close; CPrint fmt_entry_end; CPrint fmt_rec_close].
Proof. vm_compute. reflexivity. Qed.

Theorem print_statement_ends_the_line_once :
  println_last [CPrint fmt_list_open; CPrint [97%N]; CPrint fmt_list_close] = [CPrint fmt_list_open; CPrint [97%N]; CPrintln fmt_list_close].
Proof. reflexivity. Qed.
