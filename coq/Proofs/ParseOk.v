(** C13 / C12: what the parser guarantees about its output and the interpreter relies on ([code_ok]): every record
    literal has as many values as keys, every re-assignment has a right-hand side, and the statement vector ends with the
    end-of-statements marker, which occurs nowhere else. *)
From Pakhi Require Import Base Float64 Syntax Tables Lexer Parser Interp.
From Pakhi.Proofs Require Import LexTotal ParseTotal WF.
From Coq Require Import Lia.
Local Open Scope nat_scope.

Record expr_parser_wf (fs : text -> option text) (cwd main_path : text) (f : nat) : Prop := {
  wf_pexpr : forall lvl s e s', pexpr f lvl s = Ok (e, s') -> expr_ok e = true;
  wf_pprimary : forall s e s', pprimary f s = Ok (e, s') -> expr_ok e = true;
  wf_pbin : forall lvl e s e' s', expr_ok e = true -> pbin f lvl e s = Ok (e', s') -> expr_ok e' = true;
  wf_pcalls : forall e s e' s', expr_ok e = true -> pcalls f e s = Ok (e', s') -> expr_ok e' = true;
  wf_pargs : forall s es s', pargs f s = Ok (es, s') -> forallb expr_ok es = true;
  wf_pitems : forall s es s', pitems f s = Ok (es, s') -> forallb expr_ok es = true;
  wf_pentries : forall s ks vs s', pentries f s = Ok (ks, vs, s') ->
      length ks = length vs /\ forallb expr_ok ks = true /\ forallb expr_ok vs = true;
  wf_pindexes : forall e s e' s', expr_ok e = true -> pindexes f e s = Ok (e', s') -> expr_ok e' = true
}.

Theorem expr_parser_output_wf fs cwd main_path : forall f, expr_parser_wf fs cwd main_path f.
Proof.
  induction f as [|f IH]; [constructor; intros; discriminate|].
  destruct IH as [We Wp Wb Wc Wa Wi Wn Wx].
  constructor.
  - intros lvl s e s' H. cbn [pexpr] in H.
    assert (Hbin : forall e s', (do '(e0, s1) <- pexpr f (S lvl) s; pbin f lvl e0 s1) = Ok (e, s') -> expr_ok e = true).
    { intros e1 s1' H1. bind_ok H1 x. destruct x as [e0 s1]. eapply Wb; [|exact H1]. eapply We; eauto. }
    do 6 (destruct lvl as [|lvl]; [eapply Hbin; exact H|]).
    destruct lvl as [|lvl].
    { destruct (hk s); try (eapply We; exact H);
        (bind_ok H p; bind_ok H x; destruct x as [r s1]; inv_ok H; cbn [expr_ok]; eapply We; eauto). }
    destruct lvl as [|lvl].
    { bind_ok H x. destruct x as [e0 s1]. eapply Wc; [|exact H]. eapply We; eauto. }
    destruct lvl as [|lvl]; [eapply Wp; exact H|eapply Hbin; exact H].
  - intros s e s' H. cbn [pprimary] in H.
    destruct (hk s); try (exfalso; eapply syntax_here_not_ok; exact H);
      try (bind_ok H p; inv_ok H; reflexivity).
    + bind_ok H p. eapply Wx; [|exact H]. reflexivity.
    + destruct (hk (adv s)); try (exfalso; eapply syntax_here_not_ok; exact H).
      bind_ok H x. destruct x as [[ks vs] s2]. bind_ok H p. inv_ok H.
      destruct (Wn _ _ _ _ Heqo) as (L & K & V). cbn [expr_ok]. rewrite L, Nat.eqb_refl, K, V. reflexivity.
    + bind_ok H x. destruct x as [e0 s1]. bind_ok H p. inv_ok H. cbn [expr_ok]. eapply We; eauto.
    + bind_ok H x. destruct x as [es s1]. bind_ok H p. inv_ok H. cbn [expr_ok]. eapply Wi; eauto.
  - intros lvl e s e' s' He H. cbn [pbin] in H. destruct (binop_at lvl (hk s)); [|inv_ok H; exact He].
    bind_ok H x. destruct x as [r s1]. bind_ok H p.
    eapply Wb; [|exact H]. cbn [expr_ok]. rewrite He. simpl. eapply We; eauto.
  - intros e s e' s' He H. cbn [pcalls] in H. destruct (hk s); try (inv_ok H; exact He).
    bind_ok H p.
    destruct (hk (adv s)) eqn:Ek.
    all: try (bind_ok H xx; destruct xx as [args s2]; eapply Wc; [|exact H]; cbn [expr_ok]; rewrite He; simpl; eapply Wa; eassumption).
    cbn [bind] in H. eapply Wc; [|exact H]. cbn [expr_ok forallb]. rewrite He. reflexivity.
  - intros s es s' H. cbn [pargs] in H. bind_ok H x. destruct x as [e s1].
    destruct (hk s1); try (inv_ok H; cbn [forallb]; rewrite (We _ _ _ _ Heqo); reflexivity).
    bind_ok H y. destruct y as [es0 s2]. inv_ok H. cbn [forallb]. rewrite (We _ _ _ _ Heqo). simpl. eapply Wa; eauto.
  - intros s es s' H. cbn [pitems] in H.
    assert (Hmain : forall es s', (do '(e, s1) <- pexpr f 0 s; let s2 := match hk s1 with TComma => adv s1 | _ => s1 end in do '(es, s3) <- pitems f s2; Ok (e :: es, s3)) = Ok (es, s') -> forallb expr_ok es = true).
    { intros es1 s1' H1. bind_ok H1 x. destruct x as [e s1]. cbv zeta in H1. bind_ok H1 y. destruct y as [es0 s3]. inv_ok H1.
      cbn [forallb]. rewrite (We _ _ _ _ Heqo). simpl. eapply Wi; eauto. }
    destruct (hk s); try (eapply Hmain; exact H). inv_ok H. reflexivity.
  - intros s ks vs s' H. cbn [pentries] in H.
    assert (Hmain : forall ks vs s', (do '(k, s1) <- pexpr f 0 s;
                       match hk s1 with
                       | TMap => do '(v, s2) <- pexpr f 0 (adv s1);
                                 let s3 := match hk s2 with TComma => adv s2 | _ => s2 end in
                                 do '(ks, vs, s4) <- pentries f s3; Ok (k :: ks, v :: vs, s4)
                       | _ => syntax_here s1
                       end) = Ok (ks, vs, s') -> length ks = length vs /\ forallb expr_ok ks = true /\ forallb expr_ok vs = true).
    { intros ks1 vs1 s1' H1. bind_ok H1 x. destruct x as [k s1].
      destruct (hk s1); try (exfalso; eapply syntax_here_not_ok; exact H1).
      bind_ok H1 y. destruct y as [v s2]. cbv zeta in H1. bind_ok H1 z. destruct z as [[ks0 vs0] s4]. inv_ok H1.
      destruct (Wn _ _ _ _ Heqo1) as (L & K & V). cbn [length forallb].
      rewrite (We _ _ _ _ Heqo), (We _ _ _ _ Heqo0), K, V, L. auto. }
    destruct (hk s); try (eapply Hmain; exact H). inv_ok H. auto.
  - intros e s e' s' He H. cbn [pindexes] in H. destruct (hk s); try (inv_ok H; exact He).
    bind_ok H x. destruct x as [i s1]. destruct (hk s1); try (exfalso; eapply syntax_here_not_ok; exact H).
    bind_ok H p. eapply Wx; [|exact H]. cbn [expr_ok]. rewrite He. simpl. eapply We; eauto.
Qed.

Section Stmts.
Variable fs : text -> option text.
Variable cwd main_path : text.

Lemma expression_wf fuel s e s' : expression fuel s = Ok (e, s') -> expr_ok e = true.
Proof. apply (wf_pexpr fs cwd main_path fuel (expr_parser_output_wf fs cwd main_path fuel)). Qed.

Lemma pindex_list_wf fuel : forall s is s', pindex_list fuel s = Ok (is, s') -> forallb expr_ok is = true.
Proof.
  induction fuel as [|f IH]; intros s is s' H; [discriminate|]. cbn [pindex_list] in H.
  assert (Hmain : (do '(i, s1) <- expression f s; match i with EList _ _ => do '(is, s2) <- pindex_list f s1; Ok (i :: is, s2) | _ => syntax_here s1 end) = Ok (is, s') ->
                  forallb expr_ok is = true).
  { intros H1. bind_ok H1 x. destruct x as [i s1].
    destruct i; try (exfalso; eapply syntax_here_not_ok; exact H1).
    bind_ok H1 y. destruct y as [is0 s2]. inv_ok H1. cbn [forallb]. rewrite (expression_wf _ _ _ _ Heqo). simpl. eapply IH; eauto. }
  destruct (hk s); try (apply Hmain; exact H). inv_ok H. reflexivity.
Qed.

Lemma pstmt_wf : forall fuel s st s', pstmt fs cwd main_path fuel s = Ok (st, s') -> stmt_ok st = true.
Proof.
  induction fuel as [|f IH]; intros s st s' H; [discriminate|]. cbn [pstmt] in H.
  bind_ok H p.
  destruct (hk s) eqn:Ek; try (exfalso; eapply syntax_here_not_ok; exact H).
  - (* identifier *)
    destruct (t_kind (head2 s)).
    all: try (bind_ok H xx; destruct xx as [e s1]; inv_ok H; cbn [stmt_ok]; eapply expression_wf; eauto).
    all: bind_ok H xx; destruct xx as [idx s1]; bind_ok H yy; destruct yy as [e s2]; inv_ok H; cbn [stmt_ok];
         rewrite (pindex_list_wf _ _ _ _ Heqo0), (expression_wf _ _ _ _ Heqo1); reflexivity.
  - (* if *) bind_ok H x. destruct x as [c s1]. bind_ok H q. inv_ok H. cbn [stmt_ok]. eapply expression_wf; eauto.
  - (* else *) bind_ok H q. inv_ok H. reflexivity.
  - (* loop *) bind_ok H q. inv_ok H. reflexivity.
  - (* declaration *)
    destruct (hk (adv s)); try (exfalso; eapply syntax_here_not_ok; exact H).
    bind_ok H x. destruct x as [init s3].
    assert (Hinit : match init with Some e => expr_ok e = true | None => True end).
    { destruct (hk (adv (adv s))); try (bind_ok Heqo0 yy; destruct yy as [e s4]; inv_ok Heqo0; eapply expression_wf; eassumption).
      inv_ok Heqo0. exact I. }
    destruct (hk s3).
    all: try (destruct (at_end s3); [discriminate|destruct (ps_prev s3); discriminate]).
    inv_ok H. cbn [stmt_ok forallb]. destruct init; auto.
  - (* function *) bind_ok H q. inv_ok H. reflexivity.
  - (* comment *) eapply IH; eauto.
  - (* { *) bind_ok H q. inv_ok H. reflexivity.
  - (* } *) bind_ok H q. inv_ok H. reflexivity.
  - (* break *) inv_ok H. reflexivity.
  - (* continue *) inv_ok H. reflexivity.
  - (* return *)
    bind_ok H x. destruct x as [e s2]. inv_ok H. cbn [stmt_ok].
    destruct (hk (adv s)); try (eapply expression_wf; eassumption). inv_ok Heqo0. reflexivity.
  - (* print *) bind_ok H x. destruct x as [e s1]. inv_ok H. cbn [stmt_ok]. eapply expression_wf; eauto.
  - (* import *)
    destruct (hk (adv s)); try (exfalso; eapply syntax_here_not_ok; exact H).
    bind_ok H s2. eapply IH; eauto.
  - (* print without newline *) bind_ok H x. destruct x as [e s1]. inv_ok H. cbn [stmt_ok]. eapply expression_wf; eauto.
  - (* end of tokens *) inv_ok H. reflexivity.
Qed.

(* the statement vector: real statements, then exactly one end marker *)
Definition ends_properly (l : list fstmt) : Prop :=
  exists body p, l = body ++ [FEOS p] /\ forallb (fun s => negb (is_eos s)) body = true.

Lemma pprogram_wf : forall fuel s l, pprogram fs cwd main_path fuel s = Ok l -> forallb stmt_ok l = true /\ ends_properly l.
Proof.
  induction fuel as [|f IH]; intros s l H; [discriminate|]. cbn [pprogram] in H.
  bind_ok H x. destruct x as [st s1]. pose proof (pstmt_wf _ _ _ _ Heqo) as Hst.
  assert (Hrest : (if at_end s1 then unexpected else let s2 := match hk s1 with TSemi => adv s1 | _ => s1 end in do r <- pprogram fs cwd main_path f s2; Ok (st :: r)) = Ok l ->
                  is_eos st = false -> forallb stmt_ok l = true /\ ends_properly l).
  { intros H1 Hne. destruct (at_end s1); [discriminate|]. cbv zeta in H1. bind_ok H1 r. inv_ok H1.
    destruct (IH _ _ Heqo0) as (A & body & p & -> & B). split.
    - cbn [forallb]. rewrite Hst, A. reflexivity.
    - exists (st :: body), p. split; [reflexivity|]. cbn [forallb]. rewrite Hne, B. reflexivity. }
  destruct st; try (apply Hrest; [exact H|reflexivity]).
  inv_ok H. split; [reflexivity|]. exists [], p. split; reflexivity.
Qed.

Lemma ends_properly_next l : ends_properly l ->
  l <> [] /\ forall pc s, stmt_at l pc = Some s -> is_eos s = false -> S pc < length l.
Proof.
  intros (body & p & -> & Hb). split; [destruct body; discriminate|].
  intros pc s Hs Hne. unfold stmt_at in Hs. rewrite app_length. simpl.
  destruct (Nat.lt_ge_cases pc (length body)) as [Hlt|Hge]; [lia|].
  rewrite nth_error_app2 in Hs by exact Hge.
  destruct (pc - length body) as [|k] eqn:E; simpl in Hs.
  - injection Hs as <-. discriminate Hne.
  - destruct k; discriminate Hs.
Qed.

Theorem parse_output_ok fuel toks code : parse fs cwd main_path fuel toks = Ok code -> code_ok code /\ code <> [].
Proof.
  unfold parse. intros H. destruct toks as [|t0 r]; [discriminate|].
  bind_ok H ts. destruct (pprogram_wf _ _ _ H) as [A B]. destruct (ends_properly_next _ B) as [C D].
  split; [split; assumption|exact C].
Qed.

Theorem front_output_ok fuel src code : front fs cwd main_path fuel src = Ok code -> code_ok code /\ code <> [].
Proof.
  unfold front. intros H. bind_ok H toks. eapply parse_output_ok; eauto.
Qed.

End Stmts.
