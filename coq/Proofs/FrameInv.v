(** C03 / C05 / C13: the frame invariant.  While a function body runs, the height of the scope stack is a function of
    the program position (an offset plus the static block depth), the position stays inside the body, every loop
    entered by this call records exactly the height and the closing continue of its own block, and the position stays
    inside every such loop.  Hence break / continue cut the scope stack exactly to the recorded height, and a call
    returns with at least the scopes it was entered with (the subtraction in interpret_func_call_expr cannot
    underflow). *)
From Pakhi Require Import Base Float64 Syntax Tables Lexer Interp.
From Pakhi.Proofs Require Import Unfold Frames WF WFOps.
From Coq Require Import Lia ZArith.
Local Open Scope nat_scope.

Section FrameInv.
Variable code : list fstmt.

Notation sd := (sd code).
Notation region := (region code).

Record frame := mkF { f_off : Z; f_lo : nat; f_hi : nat; f_lower : list loop_env; f_ret : list nat }.

(* a function frame -- the body block: BlockStart at [f_lo], the Return that closes the definition at [f_hi] *)
Record frame_fun (F : frame) : Prop := {
  fs_reg : region (f_lo F) (f_hi F);
  fs_bs : exists p, stmt_at code (f_lo F) = Some (FBlockStart p);
  fs_ret : exists e p, stmt_at code (f_hi F) = Some (FReturn e p) }.
(* the top level as a frame: the whole statement vector, one global scope below the blocks *)
Definition frame_top (F : frame) : Prop := f_lo F = 0 /\ f_hi F = length code.
Definition frame_static (F : frame) : Prop := frame_fun F \/ frame_top F.

Record loop_ok (F : frame) (l : loop_env) : Prop := {
  lk_lo : f_lo F < l_start l;
  lk_hi : l_end l <= f_hi F;
  lk_end : 1 <= l_end l;
  lk_reg : region (l_start l) (l_end l - 1);
  lk_bs : exists p, stmt_at code (l_start l) = Some (FBlockStart p);
  lk_cont : exists p, stmt_at code (l_end l - 1) = Some (FContinue p);
  lk_depth : Z.of_nat (l_depth l) = (f_off F + sd (l_start l))%Z }.

Definition encloses (i o : loop_env) : Prop := l_start o < l_start i /\ l_end i < l_end o.
Fixpoint nested (ls : list loop_env) : Prop :=
  match ls with
  | [] => True
  | i :: r => Forall (encloses i) r /\ nested r
  end.

Definition inside (pc : nat) (l : loop_env) : Prop := l_start l <= pc /\ pc < l_end l.

Record finv (F : frame) (m : machine) : Prop := {
  fi_lo : f_lo F <= m_pc m;
  fi_hi : m_pc m <= f_hi F;
  fi_len : Z.of_nat (length (m_scopes m)) = (f_off F + sd (m_pc m))%Z;
  fi_loops : exists fl, m_loops m = fl ++ f_lower F /\ Forall (loop_ok F) fl /\ Forall (inside (m_pc m)) fl /\ nested fl;
  fi_base : m_loop_base m = length (f_lower F);
  fi_ret : m_ret m = f_ret F }.

(* the invariant only looks at what an expression leaves untouched *)
Lemma finv_sf F m m1 : sf m m1 -> finv F m -> finv F m1.
Proof.
  intros (S1 & S2 & S3 & S4 & S5) [A1 A2 A3 A4 A5 A6]. constructor.
  - rewrite S1. exact A1.
  - rewrite S1. exact A2.
  - rewrite S1, S2. exact A3.
  - rewrite S1, S3. exact A4.
  - congruence.
  - congruence.
Qed.

(* depth at a position inside a loop *)
Lemma loop_depth_le F l pc : loop_ok F l -> inside pc l -> (sd (l_start l) <= sd pc)%Z.
Proof.
  intros L [H1 H2]. apply (region_depth code (l_start l) (l_end l - 1)); [apply (lk_reg F l L)|exact H1|lia].
Qed.

(** one step to the next statement: any statement but a closing continue or a Return *)
Lemma finv_next F m m' s : frame_static F -> finv F m -> stmt_at code (m_pc m) = Some s ->
  (forall p, s <> FContinue p) -> (forall e p, s <> FReturn e p) ->
  m_pc m' = S (m_pc m) -> Z.of_nat (length (m_scopes m')) = (Z.of_nat (length (m_scopes m)) + delta s)%Z ->
  m_loops m' = m_loops m -> m_loop_base m' = m_loop_base m -> m_ret m' = m_ret m -> finv F m'.
Proof.
  intros FS [A1 A2 A3 (fl & A4 & A5 & A6 & A7) A8 A9] Hs Hnc Hnr Hpc Hlen Hl Hb Hr.
  assert (Hlt : m_pc m < f_hi F).
  { destruct FS as [FS|[_ Htop]].
    - destruct (fs_ret F FS) as (re & rp & Hret).
      destruct (Nat.eq_dec (m_pc m) (f_hi F)) as [E|]; [|lia]. rewrite E, Hret in Hs. injection Hs as <-. exfalso. eapply Hnr; reflexivity.
    - rewrite Htop. apply (stmt_at_lt code _ _ Hs). }
  constructor.
  - lia.
  - lia.
  - rewrite Hlen, Hpc, (sd_S code _ _ Hs), A3. lia.
  - exists fl. rewrite Hl. split; [exact A4|]. split; [exact A5|]. split; [|exact A7].
    rewrite Forall_forall in *. intros l Hin. destruct (A6 l Hin) as [I1 I2]. specialize (A5 l Hin).
    destruct (lk_cont F l A5) as [cp Hc].
    assert (m_pc m <> l_end l - 1).
    { intros E. rewrite E, Hc in Hs. injection Hs as <-. eapply Hnc; reflexivity. }
    split; lia.
  - congruence.
  - congruence.
Qed.

(** a forward jump that never passes a shallower position *)
Lemma finv_fwd F m s t : frame_static F -> finv F m -> stmt_at code (m_pc m) = Some s -> delta s = 0%Z ->
  (forall p, s <> FContinue p) -> (forall e p, s <> FReturn e p) ->
  m_pc m <= t -> t < length code -> sd t = sd (m_pc m) -> (forall k, m_pc m <= k -> k <= t -> (sd (m_pc m) <= sd k)%Z) ->
  finv F (set_pc m t).
Proof.
  intros FS [A1 A2 A3 (fl & A4 & A5 & A6 & A7) A8 A9] Hs Hd Hnc Hnr Hle Htl Hsd Hnd.
  assert (Ht : t < f_hi F).
  { destruct FS as [FS|[_ Htop]]; [|rewrite Htop; exact Htl].
    destruct (fs_ret F FS) as (re & rp & Hret). destruct (fs_bs F FS) as (bp & Hbs).
    assert (Hlt : m_pc m < f_hi F).
    { destruct (Nat.eq_dec (m_pc m) (f_hi F)) as [E|]; [|lia]. rewrite E, Hret in Hs. injection Hs as <-. exfalso. eapply Hnr; reflexivity. }
    assert (Hgt : f_lo F < m_pc m).
    { destruct (Nat.eq_dec (m_pc m) (f_lo F)) as [E|]; [|lia]. rewrite E, Hbs in Hs. injection Hs as <-. discriminate Hd. }
    apply (fwd_inside code _ _ _ _ (fs_reg F FS) Hgt Hlt Hle Hnd). }
  constructor; cbn [set_pc m_pc m_scopes m_loops m_loop_base m_ret].
  - lia.
  - lia.
  - rewrite Hsd. exact A3.
  - exists fl. split; [exact A4|]. split; [exact A5|]. split; [|exact A7].
    rewrite Forall_forall in *. intros l Hin. destruct (A6 l Hin) as [I1 I2]. specialize (A5 l Hin).
    destruct (lk_cont F l A5) as [cp Hc]. destruct (lk_bs F l A5) as [lp Hlb].
    assert (m_pc m <> l_end l - 1).
    { intros E. rewrite E, Hc in Hs. injection Hs as <-. eapply Hnc; reflexivity. }
    assert (m_pc m <> l_start l).
    { intros E. rewrite E, Hlb in Hs. injection Hs as <-. discriminate Hd. }
    pose proof (fwd_inside code (l_start l) (l_end l - 1) (m_pc m) t (lk_reg F l A5) ltac:(lia) ltac:(lia) Hle Hnd) as Hl.
    split; lia.
  - exact A8.
  - exact A9.
Qed.

(** entering a loop at [pc]: the loop's block starts at [S pc], its closing continue is at [pc2] *)
Lemma finv_enter_loop F m p bp cp pc2 : frame_static F -> finv F m ->
  stmt_at code (m_pc m) = Some (FLoop p) -> stmt_at code (S (m_pc m)) = Some (FBlockStart bp) ->
  skip_block_from code m (S (m_pc m)) = Ok pc2 -> stmt_at code pc2 = Some (FContinue cp) ->
  finv F (set_pc (set_loops m (mkLoop (S (m_pc m)) (S pc2) (length (m_scopes m)) :: m_loops m)) (S (m_pc m))).
Proof.
  intros FS Hf Hs Hb Hsk Hc.
  pose proof Hf as [A1 A2 A3 (fl & A4 & A5 & A6 & A7) A8 A9].
  destruct (skip_from_bs code _ _ _ _ Hb Hsk) as (S1 & _ & S3 & S4).
  pose proof (sd_S code _ _ Hs) as Hsd. cbn [delta] in Hsd.
  (* no dip from pc to pc2 *)
  assert (Hnd : forall k, m_pc m <= k -> k <= pc2 -> (sd (m_pc m) <= sd k)%Z).
  { intros k K1 K2. destruct (Nat.eq_dec k (m_pc m)) as [->|]; [lia|].
    destruct (Nat.eq_dec k (S (m_pc m))) as [->|]; [lia|].
    destruct (Nat.eq_dec k pc2) as [->|]; [lia|]. specialize (S4 k ltac:(lia) ltac:(lia)). lia. }
  assert (Hpc2 : pc2 < f_hi F).
  { destruct FS as [FS|[_ Htop]]; [|rewrite Htop; apply (stmt_at_lt code _ _ Hc)].
    destruct (fs_ret F FS) as (re & rp & Hret). destruct (fs_bs F FS) as (fbp & Hbs).
    assert (Hlt : m_pc m < f_hi F).
    { destruct (Nat.eq_dec (m_pc m) (f_hi F)) as [E|]; [|lia]. rewrite E, Hret in Hs. discriminate. }
    assert (Hgt : f_lo F < m_pc m).
    { destruct (Nat.eq_dec (m_pc m) (f_lo F)) as [E|]; [|lia]. rewrite E, Hbs in Hs. discriminate. }
    apply (fwd_inside code (f_lo F) (f_hi F) (m_pc m) pc2 (fs_reg F FS) Hgt Hlt ltac:(lia) Hnd). }
  assert (Hreg : region (S (m_pc m)) pc2) by (split; [lia|split; [exact S3|exact S4]]).
  constructor; cbn [set_pc set_loops m_pc m_scopes m_loops m_loop_base m_ret].
  - lia.
  - lia.
  - rewrite Hsd. lia.
  - exists (mkLoop (S (m_pc m)) (S pc2) (length (m_scopes m)) :: fl). split; [rewrite A4; reflexivity|].
    split; [|split].
    + constructor; [|exact A5]. constructor; cbn [l_start l_end l_depth]; try lia.
      * replace (S pc2 - 1) with pc2 by lia. exact Hreg.
      * eauto.
      * replace (S pc2 - 1) with pc2 by lia. eauto.
    + constructor; [unfold inside; cbn [l_start l_end]; lia|].
      rewrite Forall_forall in *. intros l Hin. destruct (A6 l Hin) as [I1 I2]. specialize (A5 l Hin).
      destruct (lk_cont F l A5) as [cp' Hc']. assert (m_pc m <> l_end l - 1) by (intros E; rewrite E, Hc' in Hs; discriminate).
      split; lia.
    + cbn [nested]. split; [|exact A7].
      rewrite Forall_forall in *. intros o Hin. destruct (A6 o Hin) as [I1 I2]. pose proof (A5 o Hin) as Ho.
      destruct (lk_cont F o Ho) as [cp' Hc']. destruct (lk_bs F o Ho) as [bp' Hb'].
      assert (m_pc m <> l_end o - 1) by (intros E; rewrite E, Hc' in Hs; discriminate).
      assert (m_pc m <> l_start o) by (intros E; rewrite E, Hb' in Hs; discriminate).
      pose proof (fwd_inside code (l_start o) (l_end o - 1) (m_pc m) pc2 (lk_reg F o Ho) ltac:(lia) ltac:(lia) ltac:(lia) Hnd) as Hin2.
      unfold encloses; cbn [l_start l_end]. lia.
  - exact A8.
  - exact A9.
Qed.

Lemma truncate_exact {A} n (l : list A) : n <= length l -> length (truncate n l) = n.
Proof. intros H. rewrite truncate_len_min. lia. Qed.

(** continue: back to the start of the innermost loop of this call, scopes cut exactly to the recorded height *)
Lemma finv_continue F m l ls : frame_static F -> finv F m -> m_loops m = l :: ls -> m_loop_base m < length (m_loops m) ->
  finv F (set_pc (set_scopes m (truncate (l_depth l) (m_scopes m))) (l_start l)) /\ l_depth l <= length (m_scopes m).
Proof.
  intros FS [A1 A2 A3 (fl & A4 & A5 & A6 & A7) A8 A9] Hl Hb.
  destruct fl as [|l0 fl'].
  { simpl in A4. rewrite A4, A8 in Hb. lia. }
  rewrite Hl in A4. cbn [app] in A4. injection A4 as <- ->.
  inversion A5 as [|? ? Lk A5']; subst. inversion A6 as [|? ? In0 A6']; subst.
  pose proof (loop_depth_le F l _ Lk In0) as Hd.
  assert (Hle : l_depth l <= length (m_scopes m)) by (pose proof (lk_depth F l Lk); lia).
  split; [|exact Hle].
  destruct (lk_reg F l Lk) as (R1 & R2 & R3).
  constructor; cbn [set_pc set_scopes m_pc m_scopes m_loops m_loop_base m_ret].
  - pose proof (lk_lo F l Lk). lia.
  - destruct In0. lia.
  - rewrite truncate_exact by exact Hle. apply (lk_depth F l Lk).
  - exists (l :: fl'). rewrite Hl. split; [reflexivity|]. split; [exact A5|]. split; [|exact A7].
    constructor; [unfold inside; pose proof (lk_end F l Lk); lia|].
    cbn [nested] in A7. destruct A7 as [N1 _]. rewrite Forall_forall in *. intros o Hin.
    destruct (N1 o Hin) as [E1 E2]. unfold inside. pose proof (lk_end F l Lk). lia.
  - exact A8.
  - exact A9.
Qed.

(** break: leaves exactly the innermost loop of this call *)
Lemma finv_break F m l ls : frame_static F -> finv F m -> m_loops m = l :: ls -> m_loop_base m < length (m_loops m) ->
  finv F (set_pc (set_loops (set_scopes m (truncate (l_depth l) (m_scopes m))) ls) (l_end l)) /\ l_depth l <= length (m_scopes m).
Proof.
  intros FS [A1 A2 A3 (fl & A4 & A5 & A6 & A7) A8 A9] Hl Hb.
  destruct fl as [|l0 fl'].
  { simpl in A4. rewrite A4, A8 in Hb. lia. }
  rewrite Hl in A4. cbn [app] in A4. injection A4 as <- ->.
  inversion A5 as [|? ? Lk A5']; subst. inversion A6 as [|? ? In0 A6']; subst.
  pose proof (loop_depth_le F l _ Lk In0) as Hd.
  assert (Hle : l_depth l <= length (m_scopes m)) by (pose proof (lk_depth F l Lk); lia).
  split; [|exact Hle].
  destruct (lk_reg F l Lk) as (R1 & R2 & R3). destruct (lk_cont F l Lk) as [cp Hc].
  pose proof (lk_end F l Lk) as He.
  assert (Hsd : sd (l_end l) = sd (l_start l)).
  { replace (l_end l) with (S (l_end l - 1)) by lia. rewrite (sd_S code _ _ Hc). cbn [delta]. lia. }
  constructor; cbn [set_pc set_loops set_scopes m_pc m_scopes m_loops m_loop_base m_ret].
  - pose proof (lk_lo F l Lk). lia.
  - apply (lk_hi F l Lk).
  - rewrite truncate_exact by exact Hle. rewrite Hsd. apply (lk_depth F l Lk).
  - exists fl'. split; [reflexivity|]. cbn [nested] in A7. destruct A7 as [N1 N2]. split; [exact A5'|]. split; [|exact N2].
    rewrite Forall_forall in *. intros o Hin. destruct (N1 o Hin) as [E1 E2]. unfold inside. lia.
  - exact A8.
  - exact A9.
Qed.

(** the start of a call: the callee's frame *)
Lemma finv_init m start pc2 re rp bp (env_count : nat) :
  stmt_at code start = Some (FBlockStart bp) -> skip_block_from code m start = Ok pc2 -> stmt_at code pc2 = Some (FReturn re rp) ->
  forall m2, m_pc m2 = start -> length (m_scopes m2) = S env_count -> m_loop_base m2 = length (m_loops m2) ->
  let F := mkF (Z.of_nat (S env_count) - sd start)%Z start pc2 (m_loops m2) (m_ret m2) in
  frame_fun F /\ finv F m2.
Proof.
  intros Hb Hsk Hr m2 Hpc Hlen Hbase F.
  destruct (skip_from_bs code _ _ _ _ Hb Hsk) as (S1 & _ & S3 & S4).
  split.
  - constructor; cbn [F f_lo f_hi]; eauto. split; [lia|split; [exact S3|exact S4]].
  - constructor; cbn [F f_lo f_hi f_off f_lower f_ret]; try lia; auto.
    + rewrite Hpc, Hlen. lia.
    + exists []. split; [reflexivity|]. split; [constructor|]. split; [constructor|exact I].
Qed.

(** what the invariant gives at the end of the call: at least the caller's scopes are left *)
Lemma finv_height F m : frame_fun F -> finv F m -> (f_off F + sd (f_lo F) <= Z.of_nat (length (m_scopes m)))%Z.
Proof.
  intros FS [A1 A2 A3 _ _ _]. pose proof (region_depth code _ _ _ (fs_reg F FS) A1 A2). lia.
Qed.


(** the top-level frame and what its invariant says *)
Definition top_frame : frame := mkF 1%Z 0 (length code) [] [].
Lemma top_frame_static : frame_static top_frame.
Proof. right. split; reflexivity. Qed.

(* at a top-level position outside every block and every loop: exactly the global scope, no loop, no pending call *)
Lemma finv_top_neutral m : finv top_frame m -> sd (m_pc m) = 0%Z ->
  (forall l, loop_ok top_frame l -> ~ inside (m_pc m) l) ->
  length (m_scopes m) = 1 /\ m_loops m = [] /\ m_loop_base m = 0 /\ m_ret m = [].
Proof.
  intros [A1 A2 A3 (fl & A4 & A5 & A6 & A7) A8 A9] Hsd Hout. cbn [top_frame f_off f_lower f_ret] in *.
  split; [rewrite Hsd in A3; lia|]. split; [|split; [exact A8|exact A9]].
  rewrite app_nil_r in A4. rewrite A4. destruct fl as [|l fl]; [reflexivity|].
  inversion A5; subst. inversion A6; subst. exfalso. eapply Hout; eauto.
Qed.

End FrameInv.
