(** C13: the interpreter never panics -- the layers (one level of the evaluator, one statement, one turn of the call
    loop); the induction on fuel that ties them together is in Skeleton.v, the theorems about whole runs in NoPanic.v.
    C13: the interpreter never panics.  For every statement vector that satisfies [code_ok] (the parser's output
    does, see ParseOk.v), every amount of fuel and every well-formed machine, evaluation, the call loop, one statement
    and the whole run return a value, an error or run out of fuel -- never [Panic].  Along the way: an expression leaves
    the program position, the height of the scope stack, the loop stack and the return stack as they were (calls
    included), and inside a function body the frame invariant of FrameInv.v holds at every step. *)
From Pakhi Require Import Base Float64 Syntax Tables Lexer Interp.
From Pakhi.Proofs Require Import Unfold Frames WF WFOps FrameInv Scope SkelDefs.
From Coq Require Import Lia ZArith.
Local Open Scope nat_scope.

Section NoPanic.
Variable code : list fstmt.
Hypothesis Hcode : code_ok code.

Notation vok := (vok code).
Notation eok := (eok code).
Notation hok := (hok code).
Notation sok := (sok code).
Notation mwf := (mwf code).
Notation good := (good code).
Notation Qe := (Qe code).
Notation finv := (finv code).
Notation frame_static := (frame_static code).

Definition Pe (ev : expr -> machine -> outcome (value * machine)) : Prop :=
  forall e m, mwf m -> expr_ok e = true -> post (Qe m) (ev e m).

Definition at_return (m : machine) : Prop := exists e p, stmt_at code (m_pc m) = Some (FReturn e p).

Definition Pcl (cl : machine -> outcome machine) : Prop :=
  forall m F, mwf m -> frame_static F -> finv F m ->
    post (fun m' => mwf m' /\ hle (m_heap m) (m_heap m') /\ finv F m' /\ at_return m') (cl m).

Definition Pip (ip : machine -> outcome machine) : Prop :=
  forall m, mwf m ->
    post (fun m' => mwf m' /\ hle (m_heap m) (m_heap m') /\ forall F, frame_static F -> finv F m -> finv F m') (ip m).

Lemma Qe_of_good m m1 v : good m m1 -> vok (m_heap m1) v -> Qe m (v, m1).
Proof. intros G H. split; assumption. Qed.

Lemma Qe_trans m m1 r : good m m1 -> Qe m1 r -> Qe m r.
Proof. intros G [G2 H]. split; [eapply good_trans; eauto|exact H]. Qed.

Lemma good_set_heap m m1 h' : good m m1 -> hok h' -> hle (m_heap m1) h' -> good m (set_heap m1 h').
Proof.
  intros (W & S & L) Hh Hle. split; [apply mwf_set_heap; auto|]. split; [exact S|eapply hle_trans; eauto].
Qed.

Lemma good_mwf m m1 : good m m1 -> mwf m1. Proof. intros [H _]. exact H. Qed.
Lemma good_hle m m1 : good m m1 -> hle (m_heap m) (m_heap m1). Proof. intros (_ & _ & H). exact H. Qed.

(** ** the loops of the evaluator *)
Section Loops.
Variable ev : expr -> machine -> outcome (value * machine).
Hypothesis Hev : Pe ev.

Lemma eval_list_ok es : forall m, mwf m -> forallb expr_ok es = true ->
  post (fun r => good m (snd r) /\ Forall (vok (m_heap (snd r))) (fst r)) (eval_list ev es m).
Proof.
  induction es as [|e r IH]; intros m Hm Hes; cbn [eval_list].
  - split; [apply good_refl; exact Hm|constructor].
  - simpl in Hes. apply andb_true_iff in Hes as [He Hr].
    eapply post_bind; [apply Hev; auto|]. intros [v m1] [G1 Hv]. cbn [fst snd] in *.
    eapply post_bind; [apply IH; [eapply good_mwf; eauto|exact Hr]|]. intros [vs m2] [G2 Hvs]. cbn [fst snd] in *.
    split; [eapply good_trans; eauto|]. constructor; [|exact Hvs]. eapply vok_mono; [eapply good_hle; eauto|exact Hv].
Qed.

Lemma eval_rec_ok ks : forall vs acc m, mwf m -> length ks = length vs -> forallb expr_ok ks = true -> forallb expr_ok vs = true ->
  Forall (eok (m_heap m)) acc ->
  post (fun r => good m (snd r) /\ Forall (eok (m_heap (snd r))) (fst r)) (eval_rec ev ks vs acc m).
Proof.
  induction ks as [|k ks IH]; intros vs acc m Hm Hlen Hks Hvs Hacc; cbn [eval_rec].
  - split; [apply good_refl; exact Hm|exact Hacc].
  - destruct vs as [|v vs]; [discriminate|]. simpl in Hlen, Hks, Hvs.
    apply andb_true_iff in Hks as [Hk Hks]. apply andb_true_iff in Hvs as [Hv Hvs].
    eapply post_bind; [apply Hev; auto|]. intros [kv m1] [G1 Hkv]. cbn [fst snd] in *.
    assert (Hacc1 : Forall (eok (m_heap m1)) acc) by (eapply Forall_eok_mono; [eapply good_hle; eauto|exact Hacc]).
    destruct kv; try (cbn [tl]; eapply post_weaken; [|apply IH; eauto using good_mwf]; intros r [G2 Hr]; split; [eapply good_trans; eauto|exact Hr]).
    eapply post_bind; [apply Hev; [eapply good_mwf; eauto|exact Hv]|]. intros [vv m2] [G2 Hvv]. cbn [fst snd] in *.
    eapply post_weaken; [|apply IH; eauto using good_mwf].
    + intros r [G3 Hr]. split; [|exact Hr]. eapply good_trans; [exact G1|]. eapply good_trans; eauto.
    + apply alist_set_ok; [eapply Forall_eok_mono; [eapply good_hle; eauto|exact Hacc1]|exact Hvv].
Qed.

Lemma bind_args_ok ps : forall args env m, mwf m -> forallb expr_ok args = true -> Forall (eok (m_heap m)) env ->
  post (fun r => good m (snd r) /\ Forall (eok (m_heap (snd r))) (fst r)) (bind_args ev ps args env m).
Proof.
  induction ps as [|p ps IH]; intros args env m Hm Ha Henv; cbn [bind_args].
  - split; [apply good_refl; exact Hm|exact Henv].
  - destruct args as [|a args].
    + apply IH; auto. apply alist_set_ok; [exact Henv|exact I].
    + simpl in Ha. apply andb_true_iff in Ha as [Ha1 Ha2].
      eapply post_bind; [apply Hev; auto|]. intros [v m1] [G1 Hv]. cbn [fst snd] in *.
      eapply post_weaken; [|apply IH; eauto using good_mwf].
      * intros r [G2 Hr]. split; [eapply good_trans; eauto|exact Hr].
      * apply alist_set_ok; [eapply Forall_eok_mono; [eapply good_hle; eauto|exact Henv]|exact Hv].
Qed.

Lemma eval_indexes_ok is : forall m, mwf m -> forallb expr_ok is = true ->
  post (fun r => good m (snd r) /\ length (fst r) = length is) (eval_indexes ev is m).
Proof.
  induction is as [|i r IH]; intros m Hm His; cbn [eval_indexes].
  - split; [apply good_refl; exact Hm|reflexivity].
  - simpl in His. apply andb_true_iff in His as [Hi Hr].
    eapply post_bind; [apply Hev; auto|]. intros [iv m1] [G1 Hiv]. cbn [fst snd] in *.
    destruct iv; try exact I. simpl in Hiv.
    destruct (get_list_ok code _ _ (w_h code m1 (good_mwf _ _ G1)) Hiv) as (l & -> & Hl). cbn [bind].
    destruct l as [|[] ?]; try exact I.
    + eapply post_bind; [apply IH; eauto using good_mwf|]. intros [p m2] [G2 Hp]. cbn [fst snd] in *.
      split; [eapply good_trans; eauto|simpl; congruence].
    + eapply post_bind; [apply IH; eauto using good_mwf|]. intros [p m2] [G2 Hp]. cbn [fst snd] in *.
      split; [eapply good_trans; eauto|simpl; congruence].
Qed.

(* the index expressions leave every scope with the names it had (given that one expression does) *)
Hypothesis Sev : Se code ev.
Lemma eval_indexes_skel is : forall m, mwf m -> forallb expr_ok is = true -> Ske m (@snd (list index) machine) (eval_indexes ev is m).
Proof.
  induction is as [|i r IH]; intros m Hm Hi; cbn [eval_indexes]; [reflexivity|].
  cbn [forallb] in Hi. apply andb_true_iff in Hi as [Hi1 Hi2].
  pose proof (Hev i m Hm Hi1) as P. pose proof (Sev i m Hm Hi1) as K.
  destruct (ev i m) as [[iv m1]| | |]; cbn [bind]; try exact I. cbn [post Ske snd] in P, K. destruct P as [(W & _ & _) _].
  destruct iv; try exact I.
  unfold get_list. destruct (nth_error (h_lists (m_heap m1)) a) as [l|]; cbn [bind]; [|exact I].
  destruct l as [|[] ?]; try exact I;
    (specialize (IH m1 W Hi2); destruct (eval_indexes ev r m1) as [[p m2]| | |]; cbn [bind]; try exact I; cbn [Ske snd] in *; congruence).
Qed.
End Loops.

Lemma fun_ok_stmt start : fun_ok code start -> exists s, stmt_at code start = Some s.
Proof.
  intros (pc2 & e & p & Hsk & _). specialize (Hsk (init_machine [] (mkWorld [] [] []))).
  unfold skip_block_from in Hsk. rewrite skip_block_S in Hsk.
  destruct (stmt_at code start) as [s|]; [eauto|discriminate].
Qed.

(** ** one layer of the evaluator *)
Lemma eval_step_ok ev cl : Pe ev -> Pcl cl -> Pe (eval_step code ev cl).
Proof.
  intros Hev Hcl e m Hm He. pose proof (good_refl code m Hm) as G0.
  destruct e; cbn [eval_step]; cbn [expr_ok] in He.
  - apply Qe_same; simpl; auto.
  - apply Qe_same; simpl; auto.
  - apply Qe_same; simpl; auto.
  - apply Qe_same; simpl; auto.
  - (* variable *)
    destruct (lookup_var x (m_scopes m)) as [v|] eqn:E; [|apply post_rt_err].
    apply Qe_same; auto. eapply lookup_ok; [apply (w_sc code m Hm)|exact E].
  - (* list literal *)
    eapply post_bind; [apply eval_list_ok; eauto|]. intros [vs m1] [G1 Hvs]. cbn [fst snd] in *.
    destruct (alloc_list (m_heap m1) vs) as [a h'] eqn:E.
    destruct (alloc_list_ok code _ _ _ _ (w_h code m1 (good_mwf _ _ G1)) Hvs E) as (P1 & P2 & P3).
    apply Qe_of_good; [apply good_set_heap; auto|exact P3].
  - (* record literal *)
    apply andb_true_iff in He as [He Hvs]. apply andb_true_iff in He as [Hlen Hks]. apply Nat.eqb_eq in Hlen.
    eapply post_bind; [apply eval_rec_ok; eauto|]. intros [r m1] [G1 Hr]. cbn [fst snd] in *.
    destruct (alloc_rec (m_heap m1) r) as [a h'] eqn:E.
    destruct (alloc_rec_ok code _ _ _ _ (w_h code m1 (good_mwf _ _ G1)) Hr E) as (P1 & P2 & P3).
    apply Qe_of_good; [apply good_set_heap; auto|exact P3].
  - (* group *) apply Hev; auto.
  - (* unary *)
    eapply post_bind; [apply Hev; auto|]. intros [v m1] [G1 Hv]. cbn [fst snd] in *.
    destruct v, o; try exact I; apply Qe_of_good; simpl; auto.
  - (* binary *)
    apply andb_true_iff in He as [Hl Hr].
    assert (Two : forall x1 x2, expr_ok x1 = true -> expr_ok x2 = true ->
              forall (k : value -> value -> machine -> outcome (value * machine)),
              (forall v1 v2 m2, good m m2 -> vok (m_heap m2) v1 -> vok (m_heap m2) v2 -> post (Qe m) (k v1 v2 m2)) ->
              post (Qe m) (do '(v1, m1) <- ev x1 m; do '(v2, m2) <- ev x2 m1; k v1 v2 m2)).
    { intros x1 x2 H1 H2 k Hk.
      eapply post_bind; [apply Hev; auto|]. intros [v1 m1] [G1 Hv1]. cbn [fst snd] in *.
      eapply post_bind; [apply Hev; eauto using good_mwf|]. intros [v2 m2] [G2 Hv2]. cbn [fst snd] in *.
      apply Hk; [eapply good_trans; eauto| |exact Hv2]. eapply vok_mono; [eapply good_hle; eauto|exact Hv1]. }
    destruct o.
    + apply (Two e2 e1 Hr Hl (fun rv lv m2 => match rv, lv with VBool a, VBool b => Ok (VBool (a || b), m2) | _, _ => fail_at EType (expr_pos e1) m2 end)).
      intros v1 v2 m2 G H1 H2. destruct v1, v2; try exact I. apply Qe_of_good; simpl; auto.
    + apply (Two e2 e1 Hr Hl (fun rv lv m2 => match rv, lv with VBool a, VBool b => Ok (VBool (a && b), m2) | _, _ => fail_at EType (expr_pos e1) m2 end)).
      intros v1 v2 m2 G H1 H2. destruct v1, v2; try exact I. apply Qe_of_good; simpl; auto.
    + apply (Two e1 e2 Hl Hr (fun lv rv m2 => Ok (VBool (value_eqb lv rv), m2))).
      intros v1 v2 m2 G H1 H2. apply Qe_of_good; simpl; auto.
    + apply (Two e1 e2 Hl Hr (fun lv rv m2 => Ok (VBool (negb (value_eqb lv rv)), m2))).
      intros v1 v2 m2 G H1 H2. apply Qe_of_good; simpl; auto.
    + apply (Two e1 e2 Hl Hr (fun lv rv m2 => match lv, rv with VNum a, VNum b => Ok (VBool (f_ltb a b), m2) | _, _ => fail_at EType (expr_pos e1) m2 end)).
      intros v1 v2 m2 G H1 H2. destruct v1, v2; try exact I. apply Qe_of_good; simpl; auto.
    + apply (Two e1 e2 Hl Hr (fun lv rv m2 => match lv, rv with VNum a, VNum b => Ok (VBool (f_leb a b), m2) | _, _ => fail_at EType (expr_pos e1) m2 end)).
      intros v1 v2 m2 G H1 H2. destruct v1, v2; try exact I. apply Qe_of_good; simpl; auto.
    + apply (Two e1 e2 Hl Hr (fun lv rv m2 => match lv, rv with VNum a, VNum b => Ok (VBool (f_ltb b a), m2) | _, _ => fail_at EType (expr_pos e1) m2 end)).
      intros v1 v2 m2 G H1 H2. destruct v1, v2; try exact I. apply Qe_of_good; simpl; auto.
    + apply (Two e1 e2 Hl Hr (fun lv rv m2 => match lv, rv with VNum a, VNum b => Ok (VBool (f_leb b a), m2) | _, _ => fail_at EType (expr_pos e1) m2 end)).
      intros v1 v2 m2 G H1 H2. destruct v1, v2; try exact I. apply Qe_of_good; simpl; auto.
    + (* + *)
      apply (Two e1 e2 Hl Hr (fun lv rv m2 =>
               match lv, rv with
               | VNum a, VNum b => Ok (VNum (f_add a b), m2)
               | VStr a, VStr b => Ok (VStr (a ++ b), m2)
               | VList a, VList b => do la <- get_list (m_heap m2) a; do lb <- get_list (m_heap m2) b;
                                     let '(c, h') := alloc_list (m_heap m2) (la ++ lb) in Ok (VList c, set_heap m2 h')
               | _, _ => fail_at EType (expr_pos e1) m2
               end)).
      intros v1 v2 m2 G H1 H2. destruct v1, v2; try exact I; try (apply Qe_of_good; simpl; auto).
      simpl in H1, H2. pose proof (w_h code m2 (good_mwf _ _ G)) as Hh.
      destruct (get_list_ok code _ _ Hh H1) as (la & -> & Hla). destruct (get_list_ok code _ _ Hh H2) as (lb & -> & Hlb). cbn [bind].
      destruct (alloc_list (m_heap m2) (la ++ lb)) as [c h'] eqn:E.
      destruct (alloc_list_ok code _ _ _ _ Hh (proj2 (Forall_app _ _ _) (conj Hla Hlb)) E) as (P1 & P2 & P3).
      apply Qe_of_good; [apply good_set_heap; auto|exact P3].
    + (* - *)
      apply (Two e1 e2 Hl Hr (fun lv rv m2 =>
               match lv, rv with
               | VNum a, VNum b => Ok (VNum (f_sub a b), m2)
               | VStr a, VStr b => fail_at EType (expr_pos e1) m2
               | VList a, VList b => do la <- get_list (m_heap m2) a; do lb <- get_list (m_heap m2) b; fail_at EType (expr_pos e1) m2
               | _, _ => fail_at EType (expr_pos e1) m2
               end)).
      intros v1 v2 m2 G H1 H2. destruct v1, v2; try exact I; try (apply Qe_of_good; simpl; auto).
      simpl in H1, H2. pose proof (w_h code m2 (good_mwf _ _ G)) as Hh.
      destruct (get_list_ok code _ _ Hh H1) as (la & -> & Hla). destruct (get_list_ok code _ _ Hh H2) as (lb & -> & Hlb). exact I.
    + apply (Two e2 e1 Hr Hl (fun rv lv m2 => match rv, lv with VNum b, VNum a => Ok (VNum (f_mul a b), m2) | _, _ => fail_at EType (expr_pos e1) m2 end)).
      intros v1 v2 m2 G H1 H2. destruct v1, v2; try exact I. apply Qe_of_good; simpl; auto.
    + apply (Two e2 e1 Hr Hl (fun rv lv m2 => match rv, lv with VNum b, VNum a => Ok (VNum (f_div a b), m2) | _, _ => fail_at EType (expr_pos e1) m2 end)).
      intros v1 v2 m2 G H1 H2. destruct v1, v2; try exact I. apply Qe_of_good; simpl; auto.
    + apply (Two e2 e1 Hr Hl (fun rv lv m2 => match rv, lv with VNum b, VNum a => Ok (VNum (f_rem a b), m2) | _, _ => fail_at EType (expr_pos e1) m2 end)).
      intros v1 v2 m2 G H1 H2. destruct v1, v2; try exact I. apply Qe_of_good; simpl; auto.
  - (* call *)
    apply andb_true_iff in He as [Hf Hargs].
    destruct e; try apply post_rt_err.
    destruct (is_builtin x).
    { eapply post_bind; [apply eval_list_ok; eauto|]. intros [vs m1] [G1 Hvs]. cbn [fst snd] in *.
      eapply post_weaken; [|apply call_builtin_ok; eauto using good_mwf]. intros r Hr. eapply Qe_trans; eauto. }
    destruct (lookup_var x (m_scopes m)) as [fv|] eqn:El; [cbn [bind]|unfold rt_err, fail_here, unexpected_at; destruct (stmt_at code (m_pc m)); exact I].
    pose proof (lookup_ok code _ _ _ _ (w_sc code m Hm) El) as Hfv.
    destruct fv; try exact I. simpl in Hfv. destruct Hfv as [Hfv _].
    eapply post_bind; [apply bind_args_ok; eauto; constructor|]. intros [env m1] [G1 Henv]. cbn [fst snd] in *.
    destruct (fun_ok_stmt _ Hfv) as [s0 Hs0]. rewrite Hs0.
    destruct s0; try exact I.
    destruct Hfv as (pc2 & re & rp & Hsk & Hret).
    destruct G1 as (W1 & (S1 & S2 & S3 & S4 & S5) & L1).
    set (m2 := mkM start (env :: m_scopes m1) (m_loops m1) (length (m_loops m)) (m_pc m1 :: m_ret m1) (m_heap m1) (m_out m1) (m_world m1) (m_collections m1)).
    assert (W2 : mwf m2).
    { constructor; cbn [m2 m_pc m_scopes m_heap m_loops].
      - eapply stmt_at_lt; eauto.
      - simpl. lia.
      - constructor; [exact Henv|apply (w_sc code m1 W1)].
      - apply (w_h code m1 W1).
      - apply (w_lp code m1 W1). }
    destruct (finv_init code m2 start pc2 re rp _ (length (m_scopes m)) Hs0 (Hsk m2) Hret m2 eq_refl) as [FS FI].
    { cbn [m2 m_scopes]. simpl. congruence. }
    { cbn [m2 m_loop_base m_loops]. congruence. }
    set (F := mkF (Z.of_nat (S (length (m_scopes m))) - sd code start) start pc2 (m_loops m2) (m_ret m2)) in *.
    eapply post_bind; [apply (Hcl m2 F W2 (or_introl FS) FI)|]. intros m3 (W3 & L3 & FI3 & (re3 & rp3 & Hr3)).
    rewrite Hr3.
    pose proof (fi_ret code F m3 FI3) as Hret3. cbn [F f_ret m2 m_ret] in Hret3. rewrite Hret3.
    assert (Hre3 : expr_ok re3 = true) by (apply (code_stmt_ok code Hcode _ _ Hr3)).
    pose proof (Hev re3 m3 W3 Hre3) as Hrv.
    destruct (ev re3 m3) as [[v m4]| | |]; simpl in Hrv; try contradiction; try exact I.
    destruct Hrv as [(W4 & (T1 & T2 & T3 & T4 & T5) & L4) Hv]. cbn [fst snd] in *.
    pose proof (finv_height code F m3 FS FI3) as Hh. cbn [F f_off f_lo] in Hh.
    assert (Hge : S (length (m_scopes m)) <= length (m_scopes m4)) by lia.
    destruct (length (m_scopes m4) <? length (m_scopes m)) eqn:Elt; [apply Nat.ltb_lt in Elt; lia|].
    destruct (fi_loops code F m3 FI3) as (fl & Hfl & _). cbn [F f_lower m2 m_loops] in Hfl.
    apply Qe_of_good; [|exact Hv].
    split; [|split].
    + constructor; cbn [m_pc m_scopes m_heap m_loops].
      * rewrite S1. apply (w_pc code m Hm).
      * rewrite truncate_exact by lia. apply (w_ne code m Hm).
      * apply truncate_sok. apply (w_sc code m4 W4).
      * apply (w_h code m4 W4).
      * apply truncate_sok. apply (w_lp code m4 W4).
    + repeat split; cbn [m_pc m_scopes m_loops m_loop_base m_ret].
      * exact S1.
      * apply truncate_exact. lia.
      * rewrite T3, Hfl, <- S3. apply truncate_app.
      * exact S5.
    + cbn [m_heap]. eapply hle_trans; [exact L1|]. eapply hle_trans; [|exact L4]. exact L3.
  - (* index *)
    apply andb_true_iff in He as [Ha Hi].
    eapply post_bind; [apply Hev; auto|]. intros [av m1] [G1 Hav]. cbn [fst snd] in *.
    eapply post_bind; [apply Hev; eauto using good_mwf|]. intros [iv m2] [G2 Hiv]. cbn [fst snd] in *.
    assert (G : good m m2) by (eapply good_trans; eauto).
    assert (Hav2 : vok (m_heap m2) av) by (eapply vok_mono; [apply (good_hle _ _ G2)|exact Hav]).
    pose proof (w_h code m2 (good_mwf _ _ G)) as Hh.
    destruct av, iv; try exact I.
    + simpl in Hav2. destruct (get_list_ok code _ _ Hh Hav2) as (l & -> & Hl). cbn [bind].
      destruct (valid_index x (length l)); [|exact I]. apply Qe_of_good; auto. apply nth_Forall; simpl; auto.
    + simpl in Hav2. destruct (get_rec_ok code _ _ Hh Hav2) as (r & -> & Hr). cbn [bind].
      destruct (alist_get s r) as [v|] eqn:E; [|exact I]. apply Qe_of_good; auto.
      destruct (alist_get_ok _ _ _ _ Hr E) as [k' Hk]. exact Hk.
Qed.


(** ** one statement *)
Definition Qi (m m' : machine) : Prop :=
  mwf m' /\ hle (m_heap m) (m_heap m') /\ forall F, frame_static F -> finv F m -> finv F m'.

Lemma Qi_after m m1 m' : good m m1 -> Qi m1 m' -> Qi m m'.
Proof.
  intros (W1 & S1 & L1) (W & L & Fr). split; [exact W|]. split; [eapply hle_trans; eauto|].
  intros F FS FI. apply Fr; auto. eapply finv_sf; eauto.
Qed.

Definition plain (s : fstmt) : Prop := is_eos s = false /\ (forall p, s <> FContinue p) /\ (forall e p, s <> FReturn e p).

(* a step to the next statement *)
Lemma next_Qi m m' s : mwf m -> stmt_at code (m_pc m) = Some s -> plain s ->
  m_pc m' = S (m_pc m) -> 1 <= length (m_scopes m') -> sok (m_heap m') (m_scopes m') -> hok (m_heap m') -> hle (m_heap m) (m_heap m') ->
  m_loops m' = m_loops m -> m_loop_base m' = m_loop_base m -> m_ret m' = m_ret m ->
  Z.of_nat (length (m_scopes m')) = (Z.of_nat (length (m_scopes m)) + delta s)%Z -> Qi m m'.
Proof.
  intros Hm Hs (P1 & P2 & P3) Hpc Hne Hsok Hhok Hle Hl Hb Hr Hlen.
  split; [|split; [exact Hle|]].
  - constructor; auto.
    + rewrite Hpc. eapply code_next; eauto.
    + rewrite Hl. apply (w_lp code m Hm).
  - intros F FS FI. eapply finv_next; eauto.
Qed.

Lemma moved_Qi m m' s : mwf m -> stmt_at code (m_pc m) = Some s -> plain s -> delta s = 0%Z -> moved m m' -> Qi m m'.
Proof.
  intros Hm Hs Hp Hd (M1 & M2 & M3 & M4 & M5 & M6).
  eapply next_Qi; eauto; try rewrite M2; try rewrite M3.
  - apply (w_ne code m Hm).
  - apply (w_sc code m Hm).
  - apply (w_h code m Hm).
  - apply hle_refl.
  - rewrite Hd. lia.
Qed.

(* a forward jump *)
Lemma jump_Qi m s t : mwf m -> stmt_at code (m_pc m) = Some s -> plain s -> delta s = 0%Z ->
  m_pc m <= t -> t < length code -> sd code t = sd code (m_pc m) ->
  (forall k, m_pc m <= k -> k <= t -> (sd code (m_pc m) <= sd code k)%Z) -> Qi m (set_pc m t).
Proof.
  intros Hm Hs (P1 & P2 & P3) Hd Hle Hlt Hsd Hnd.
  split; [|split; [apply hle_refl|]].
  - destruct Hm as [A B C D E]. constructor; auto.
  - intros F FS FI. eapply finv_fwd; eauto.
Qed.

Lemma scopes_cons m : mwf m -> exists s r, m_scopes m = s :: r.
Proof. intros Hm. pose proof (w_ne code m Hm). destruct (m_scopes m) as [|s r]; [simpl in *; lia|eauto]. Qed.

Ltac plain_tac := split; [reflexivity|split; intros; discriminate].

Lemma interp_step_ok ev : Pe ev -> Se code ev -> Pip (interp_step code ev).
Proof.
  intros Hev Sev m Hm. unfold interp_step.
  destruct (stmt_at code (m_pc m)) as [s|] eqn:Hs.
  2:{ pose proof (w_pc code m Hm) as Hpc. unfold stmt_at in Hs. apply nth_error_None in Hs. lia. }
  pose proof (code_stmt_ok code Hcode _ _ Hs) as Hok.
  match goal with |- post _ ?x => change (post (Qi m) x) end.
  destruct s; cbn [stmt_ok] in Hok.
  - (* print *)
    eapply post_bind; [apply Hev; auto|]. intros [v m1] [G1 Hv]. cbn [fst snd] in *.
    pose proof G1 as (W1 & (S1 & _) & _).
    eapply post_weaken; [|apply do_print_ok; [apply (w_h code m1 W1)|exact Hv]].
    intros m' Hmv. eapply Qi_after; [exact G1|]. eapply moved_Qi; eauto; [rewrite S1; exact Hs|plain_tac|reflexivity].
  - eapply post_bind; [apply Hev; auto|]. intros [v m1] [G1 Hv]. cbn [fst snd] in *.
    pose proof G1 as (W1 & (S1 & _) & _).
    eapply post_weaken; [|apply do_print_ok; [apply (w_h code m1 W1)|exact Hv]].
    intros m' Hmv. eapply Qi_after; [exact G1|]. eapply moved_Qi; eauto; [rewrite S1; exact Hs|plain_tac|reflexivity].
  - (* declaration / assignment *)
    destruct k.
    + apply andb_true_iff in Hok as [Hidx Hinit]. destruct init as [e|].
      * eapply post_bind; [apply Hev; auto|]. intros [v m1] [G1 Hv]. cbn [fst snd] in *.
        pose proof G1 as (W1 & (S1 & _) & _).
        destruct (scopes_cons m1 W1) as (s0 & r & Esc). rewrite Esc. cbn [declare bind].
        eapply Qi_after; [exact G1|].
        eapply next_Qi with (s := FAssign AFirst x xp idx (Some e) p); [exact W1|rewrite S1; exact Hs|plain_tac| | | | | | | | |]; cbn [next set_pc set_scopes m_pc m_scopes m_heap m_loops m_loop_base m_ret]; auto.
        -- simpl. lia.
        -- pose proof (w_sc code m1 W1) as Hsc. rewrite Esc in Hsc. inversion Hsc; subst. constructor; auto. apply alist_set_ok; auto.
        -- apply (w_h code m1 W1).
        -- apply hle_refl.
        -- rewrite Esc. simpl. lia.
      * destruct (scopes_cons m Hm) as (s0 & r & Esc). rewrite Esc. cbn [declare bind].
        eapply next_Qi with (s := FAssign AFirst x xp idx None p); [exact Hm|exact Hs|plain_tac| | | | | | | | |]; cbn [next set_pc set_scopes m_pc m_scopes m_heap m_loops m_loop_base m_ret]; auto.
        -- simpl. lia.
        -- pose proof (w_sc code m Hm) as Hsc. rewrite Esc in Hsc. inversion Hsc; subst. constructor; auto. apply alist_set_ok; auto. exact I.
        -- apply (w_h code m Hm).
        -- apply hle_refl.
        -- rewrite Esc. simpl. lia.
    + apply andb_true_iff in Hok as [Hidx Hinit]. destruct init as [e|]; [|discriminate].
      eapply post_bind; [apply Hev; auto|]. intros [v m1] [G1 Hv]. cbn [fst snd] in *.
      pose proof G1 as (W1 & (S1 & _) & _).
      destruct idx as [|i0 idx'].
      * destruct (assign_var x v (m_scopes m1)) as [ss|] eqn:Ea; [|apply post_rt_err].
        destruct (assign_ok code _ _ _ _ _ (w_sc code m1 W1) Hv Ea) as [Hss Hlen].
        eapply Qi_after; [exact G1|].
        eapply next_Qi with (s := FAssign AReassign x xp [] (Some e) p); [exact W1|rewrite S1; exact Hs|plain_tac| | | | | | | | |]; cbn [next set_pc set_scopes m_pc m_scopes m_heap m_loops m_loop_base m_ret]; auto.
        -- rewrite Hlen. apply (w_ne code m1 W1).
        -- apply (w_h code m1 W1).
        -- apply hle_refl.
        -- rewrite Hlen. simpl. lia.
      * destruct (lookup_var x (m_scopes m1)) as [c|] eqn:El; [|apply post_rt_err].
        pose proof (lookup_ok code _ _ _ _ (w_sc code m1 W1) El) as Hc.
        eapply post_bind with (Q1 := fun r => (good m1 (snd r) /\ length (fst r) = length (i0 :: idx')) /\ skel (m_scopes (snd r)) = skel (m_scopes m1)).
        { pose proof (eval_indexes_ok ev Hev (i0 :: idx') m1 W1 Hidx) as Pi. pose proof (eval_indexes_skel ev Hev Sev (i0 :: idx') m1 W1 Hidx) as Ki.
          destruct (eval_indexes ev (i0 :: idx') m1) as [r| | |]; cbn [post Ske] in *; auto. }
        intros [path m2] [[G2 Hp] K2]. cbn [fst snd] in *.
        pose proof G2 as (W2 & (T1 & T2 & T3 & T4 & T5) & L2).
        unfold here. rewrite T1, S1, Hs. cbn [bind].
        (* the scope that held x still holds it: scopes[found].get(x).unwrap() does not panic *)
        destruct (lookup_var x (m_scopes m2)) as [c2|] eqn:El2.
        2:{ exfalso. apply lookup_iff_holder in El2. rewrite (holder_skel x _ _ K2) in El2. apply lookup_iff_holder in El2. congruence. }
        pose proof (lookup_ok code _ _ _ _ (w_sc code m2 W2) El2) as Hc2.
        eapply post_bind.
        { apply assign_path_ok; [destruct path; [discriminate|discriminate]|apply (w_h code m2 W2)| |].
          - exact Hc2.
          - eapply vok_mono; [exact L2|exact Hv]. }
        intros m3 (h' & -> & Hh' & Hle'). cbn beta.
        eapply Qi_after; [eapply good_trans; [exact G1|exact G2]|].
        eapply next_Qi with (s := FAssign AReassign x xp (i0 :: idx') (Some e) p); [exact W2|rewrite T1, S1; exact Hs|plain_tac| | | | | | | | |]; cbn [next set_pc set_heap m_pc m_scopes m_heap m_loops m_loop_base m_ret]; auto.
        -- apply (w_ne code m2 W2).
        -- eapply sok_mono; [exact Hle'|apply (w_sc code m2 W2)].
        -- simpl. lia.
  - (* expression statement *)
    eapply post_bind; [apply Hev; auto|]. intros [v m1] [G1 Hv]. cbn [fst snd] in *.
    pose proof G1 as (W1 & (S1 & _) & _).
    eapply Qi_after; [exact G1|]. eapply moved_Qi with (s := FExpr e p); [exact W1|rewrite S1; exact Hs|plain_tac|reflexivity|].
    unfold moved, next; simpl; repeat split.
  - (* block start *)
    eapply next_Qi with (s := FBlockStart p); [exact Hm|exact Hs|plain_tac| | | | | | | | |]; cbn [next set_pc set_scopes m_pc m_scopes m_heap m_loops m_loop_base m_ret]; auto.
    + simpl. lia.
    + constructor; [constructor|apply (w_sc code m Hm)].
    + apply (w_h code m Hm).
    + apply hle_refl.
    + cbn [length delta]. lia.
  - (* block end *)
    destruct (length (m_scopes m) <=? 1) eqn:El; [apply post_rt_err|]. apply Nat.leb_gt in El.
    destruct (m_scopes m) as [|s0 r] eqn:Esc; [simpl in El; lia|].
    eapply next_Qi with (s := FBlockEnd p); [exact Hm|exact Hs|plain_tac| | | | | | | | |]; cbn [next set_pc set_scopes m_pc m_scopes m_heap m_loops m_loop_base m_ret tl]; auto.
    + simpl in El. lia.
    + pose proof (w_sc code m Hm) as Hsc. rewrite Esc in Hsc. inversion Hsc; subst. assumption.
    + apply (w_h code m Hm).
    + apply hle_refl.
    + rewrite Esc. cbn [length delta]. lia.
  - (* function definition *)
    assert (Hn : S (m_pc m) < length code) by (eapply code_next; eauto).
    destruct (stmt_at code (S (m_pc m))) as [s1|] eqn:Hs1.
    2:{ unfold stmt_at in Hs1. apply nth_error_None in Hs1. lia. }
    destruct s1; try exact I. destruct e; try exact I. destruct e; try exact I.
    match goal with |- context [match ?nm with Some _ => _ | None => _ end] => destruct nm as [params|] eqn:Enm; [|exact I] end.
    destruct (scopes_cons m Hm) as (s0 & r & Esc). rewrite Esc. cbn [declare bind].
    destruct (skip_block_from code m (S (S (m_pc m)))) as [pc2| | |] eqn:Esk; try exact I.
    2:{ unfold skip_block_from in Esk. exfalso. revert Esk. generalize (S (length code - S (S (m_pc m)))) as fu. intros fu.
        generalize (S (S (m_pc m))) as q. generalize 0 as d. induction fu as [|fu IH]; intros d q; [discriminate|].
        rewrite skip_block_S. destruct (stmt_at code q) as [[]|]; try discriminate; try apply IH. destruct d as [|[|d']]; try discriminate. apply IH. }
    cbn [bind].
    destruct (stmt_at code pc2) as [s2|] eqn:Hs2; [|exact I]. destruct s2; try exact I.
    destruct (skip_from_sd code _ _ _ Esk) as (K1 & _ & K3 & K4).
    pose proof (sd_S code _ _ Hs) as D0. pose proof (sd_S code _ _ Hs1) as D1. pose proof (sd_S code _ _ Hs2) as D2. cbn [delta] in D0, D1, D2.
    assert (Hfun : fun_ok code (S (S (m_pc m)))).
    { exists pc2, e, p3. split; [|exact Hs2]. intros m'. unfold skip_block_from in *. eapply skip_block_indep; eauto. }
    assert (Hend : S pc2 < length code) by (eapply code_next; eauto).
    set (m' := set_scopes m (alist_set x (VFun (S (S (m_pc m))) params) s0 :: r)).
    assert (Wm' : mwf m').
    { destruct Hm as [A B C D E]. constructor; cbn [m' set_scopes m_pc m_scopes m_heap m_loops]; auto.
      - simpl. lia.
      - rewrite Esc in C. inversion C; subst. constructor; auto. apply alist_set_ok; auto.
        split; [exact Hfun|]. exists p, x, p2, args, p1, p0. split; [exact Hs|split; [exact Hs1|exact Enm]]. }
    assert (Q : Qi m' (set_pc m' (S pc2))).
    { eapply jump_Qi with (s := FFuncDef p); [exact Wm'|exact Hs|plain_tac|reflexivity|cbn [m' set_scopes m_pc]; lia|exact Hend|cbn [m' set_scopes m_pc]; lia|].
      cbn [m' set_scopes m_pc]. intros k Hk1 Hk2. destruct (Nat.eq_dec k (m_pc m)) as [->|]; [lia|]. destruct (Nat.eq_dec k (S (m_pc m))) as [->|]; [lia|].
      destruct (Nat.eq_dec k (S pc2)) as [->|]; [lia|]. specialize (K4 k ltac:(lia) ltac:(lia)). lia. }
    destruct Q as (Q1 & Q2 & Q3). split; [exact Q1|]. split; [exact Q2|].
    intros F FS FI. apply Q3; auto. eapply finv_sf; [|exact FI]. cbn [m' set_scopes]. unfold sf; simpl. rewrite Esc. simpl. repeat split.
  - (* return *) apply post_rt_err.
  - (* if *)
    eapply post_bind; [apply Hev; auto|]. intros [v m1] [G1 Hv]. cbn [fst snd] in *.
    pose proof G1 as (W1 & (S1 & _) & _).
    destruct v; try exact I. destruct b.
    + eapply Qi_after; [exact G1|]. eapply moved_Qi with (s := FIf c p); [exact W1|rewrite S1; exact Hs|plain_tac|reflexivity|].
      unfold moved, next; simpl; repeat split.
    + destruct (skip_block_from code m1 (S (m_pc m1))) as [pc'| | |] eqn:Esk; try exact I.
      2:{ unfold skip_block_from in Esk. exfalso. revert Esk. generalize (S (length code - S (m_pc m1))) as fu. intros fu.
          generalize (S (m_pc m1)) as q. generalize 0 as d. induction fu as [|fu IH]; intros d q; [discriminate|].
          rewrite skip_block_S. destruct (stmt_at code q) as [[]|]; try discriminate; try apply IH. destruct d as [|[|d']]; try discriminate. apply IH. }
      cbn [bind].
      destruct (skip_from_sd code _ _ _ Esk) as (K1 & (q & bp & -> & Hq) & K3 & K4).
      assert (Hs' : stmt_at code (m_pc m1) = Some (FIf c p)) by (rewrite S1; exact Hs).
      pose proof (sd_S code _ _ Hs') as D0. cbn [delta] in D0.
      assert (Hq' : S q < length code) by (eapply code_next; eauto).
      assert (ND : forall k, m_pc m1 <= k -> k <= S q -> (sd code (m_pc m1) <= sd code k)%Z).
      { intros k Hk1 Hk2. destruct (Nat.eq_dec k (m_pc m1)) as [->|]; [lia|]. specialize (K4 k ltac:(lia) Hk2). lia. }
      assert (J : Qi m (set_pc m1 (S q))).
      { eapply Qi_after; [exact G1|]. eapply jump_Qi with (s := FIf c p); [exact W1|exact Hs'|plain_tac|reflexivity|lia|exact Hq'|lia|exact ND]. }
      destruct (stmt_at code (S q)) as [s2|] eqn:Hs2; [|exact J].
      destruct s2; try exact J.
      pose proof (sd_S code _ _ Hs2) as D2. cbn [delta] in D2.
      apply post_ok. eapply Qi_after; [exact G1|].
      eapply jump_Qi with (s := FIf c p); [exact W1|exact Hs'|plain_tac|reflexivity|lia|eapply code_next; eauto|lia|].
      intros k Hk1 Hk2. destruct (Nat.eq_dec k (S (S q))) as [->|]; [lia|]. apply ND; lia.
  - (* loop *)
    assert (Hn : S (m_pc m) < length code) by (eapply code_next; eauto).
    destruct (stmt_at code (S (m_pc m))) as [s1|] eqn:Hs1; [|exact I]. destruct s1; try exact I.
    destruct (skip_block_from code m (S (m_pc m))) as [pc2| | |] eqn:Esk; try exact I.
    2:{ unfold skip_block_from in Esk. exfalso. revert Esk. generalize (S (length code - S (m_pc m))) as fu. intros fu.
        generalize (S (m_pc m)) as q. generalize 0 as d. induction fu as [|fu IH]; intros d q; [discriminate|].
        rewrite skip_block_S. destruct (stmt_at code q) as [[]|]; try discriminate; try apply IH. destruct d as [|[|d']]; try discriminate. apply IH. }
    cbn [bind]. destruct (stmt_at code pc2) as [s2|] eqn:Hs2; [|exact I]. destruct s2; try exact I.
    assert (Hend : S pc2 < length code) by (eapply code_next; eauto).
    split; [|split; [apply hle_refl|]].
    + destruct Hm as [A B C D E]. constructor; cbn [set_pc set_loops m_pc m_scopes m_heap m_loops]; auto.
      constructor; [|exact E]. unfold lwf; cbn [l_start l_end l_depth]. lia.
    + intros F FS FI. eapply finv_enter_loop; eauto.
  - (* continue *)
    destruct (length (m_loops m) <=? m_loop_base m) eqn:Eg; [apply post_rt_err|]. apply Nat.leb_gt in Eg.
    destruct (m_loops m) as [|l ls] eqn:El; [simpl in Eg; lia|].
    pose proof (w_lp code m Hm) as Hlp. rewrite El in Hlp. inversion Hlp as [|? ? (L1 & L2 & L3) Hls]; subst.
    split; [|split; [apply hle_refl|]].
    + destruct Hm as [A B C D E]. constructor; cbn [set_pc set_scopes m_pc m_scopes m_heap m_loops]; auto.
      * rewrite truncate_len_min. lia.
      * apply truncate_sok. exact C.
    + intros F FS FI. eapply (proj1 (finv_continue code F m l ls FS FI El ltac:(rewrite El; exact Eg))).
  - (* break *)
    destruct (length (m_loops m) <=? m_loop_base m) eqn:Eg; [apply post_rt_err|]. apply Nat.leb_gt in Eg.
    destruct (m_loops m) as [|l ls] eqn:El; [simpl in Eg; lia|].
    pose proof (w_lp code m Hm) as Hlp. rewrite El in Hlp. inversion Hlp as [|? ? (L1 & L2 & L3) Hls]; subst.
    split; [|split; [apply hle_refl|]].
    + destruct Hm as [A B C D E]. constructor; cbn [set_pc set_scopes set_loops m_pc m_scopes m_heap m_loops]; auto.
      * rewrite truncate_len_min. lia.
      * apply truncate_sok. exact C.
    + intros F FS FI. eapply (proj1 (finv_break code F m l ls FS FI El ltac:(rewrite El; exact Eg))).
  - (* else *)
    destruct (skip_chain code m (S (length code)) (S (m_pc m))) as [m'| | |] eqn:Ech; try exact I.
    2:{ exfalso. revert Ech. generalize (S (length code)) as k. generalize (S (m_pc m)) as q. intros q k. revert q.
        induction k as [|k IH]; intros q; [discriminate|]. cbn [skip_chain].
        match goal with |- context [skip_block_from code m ?a] => destruct (skip_block_from code m a) as [pc2| | |] eqn:Esk end; try discriminate.
        - cbn [bind]. destruct (stmt_at code pc2) as [[]|]; try discriminate. apply IH.
        - unfold skip_block_from in Esk. exfalso. revert Esk.
          match goal with |- skip_block code ?fu m ?a 0 = _ -> _ => generalize fu as fu'; generalize a as q'; generalize 0 as d end.
          intros d q' fu'. revert d q'. induction fu' as [|fu' IH']; intros d q'; [discriminate|].
          rewrite skip_block_S. destruct (stmt_at code q') as [[]|]; try discriminate; try apply IH'. destruct d as [|[|d']]; try discriminate. apply IH'. }
    destruct (skip_chain_sd code m _ _ _ Ech) as (t & -> & T1 & (q & bp & -> & Hq) & T3 & T4).
    pose proof (sd_S code _ _ Hs) as D0. cbn [delta] in D0.
    apply post_ok. eapply jump_Qi with (s := FElse p); [exact Hm|exact Hs|plain_tac|reflexivity|lia|eapply code_next; eauto|lia|].
    intros k Hk1 Hk2. destruct (Nat.eq_dec k (m_pc m)) as [->|]; [lia|]. specialize (T4 k ltac:(lia) Hk2). lia.
  - (* end of statements *) apply post_rt_err.
Qed.

(** ** the call loop *)
Lemma call_loop_step_ok ip cl : Pip ip -> Pcl cl -> Pcl (call_loop_step code ip cl).
Proof.
  intros Hip Hcl m F Hm FS FI. unfold call_loop_step.
  destruct (stmt_at code (m_pc m)) as [s|] eqn:Hs.
  2:{ pose proof (w_pc code m Hm) as Hpc. unfold stmt_at in Hs. apply nth_error_None in Hs. lia. }
  assert (Go : post (fun m' => mwf m' /\ hle (m_heap m) (m_heap m') /\ finv F m' /\ at_return m') (do m1 <- ip m; cl m1)).
  { eapply post_bind; [apply Hip; exact Hm|]. intros m1 (W1 & L1 & Fr).
    eapply post_weaken; [|apply (Hcl m1 F W1 FS (Fr F FS FI))].
    intros m' (W & L & FI' & R). split; [exact W|]. split; [eapply hle_trans; eauto|]. split; assumption. }
  destruct s; try exact Go.
  split; [exact Hm|]. split; [apply hle_refl|]. split; [exact FI|]. exists e, p. exact Hs.
Qed.

End NoPanic.
