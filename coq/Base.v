(** Base conventions of the Pakhi model: characters, text, outcomes (DESIGN.md section 4). *)
From Coq Require Export ZArith NArith List Bool Lia.
Export ListNotations.

Definition char := N.                       (* Unicode scalar value *)
Definition text := list char.

Fixpoint text_eqb (a b : text) : bool :=
  match a, b with
  | [], [] => true
  | x :: a', y :: b' => N.eqb x y && text_eqb a' b'
  | _, _ => false
  end.

(* output: the sequence of IO::print / IO::println calls *)
Inductive chunk := CPrint (s : text) | CPrintln (s : text).

Inductive ekind := ESyntax | EType | ERuntime | EUnexpected.
(* Error tags: message text is not modelled, except the payload of _এরর(m) and the step-limit marker *)
Inductive etag := TagGeneric | TagUser (msg : text) | TagCyclic.
(* [e_out]: what the program had written when the error was raised (newest first); [] for lexer/parser errors *)
Record perr := mkErr { e_kind : ekind; e_line : N; e_file : text; e_tag : etag; e_out : list chunk }.
Notation mkErr0 k l f t := (mkErr k l f t []).

(* Every Rust operation that can panic is an explicit [Panic] outcome of the model, every unbounded
   Rust loop is recursion on fuel with the distinct outcome [OutOfFuel]. *)
Inductive site := SiteIndex | SiteUnwrap | SiteUnderflow | SiteAssert | SiteVecRange.
Inductive outcome (A : Type) := Ok (a : A) | Err (e : perr) | Panic (s : site) | OutOfFuel.
Arguments Ok {A}. Arguments Err {A}. Arguments Panic {A}. Arguments OutOfFuel {A}.

Definition bind {A B} (x : outcome A) (f : A -> outcome B) : outcome B :=
  match x with Ok a => f a | Err e => Err e | Panic s => Panic s | OutOfFuel => OutOfFuel end.
Notation "'do' x <- a ; b" := (bind a (fun x => b)) (at level 200, x name, a at level 100, b at level 200).
Notation "'do' ' p <- a ; b" := (bind a (fun x => match x with p => b end)) (at level 200, p pattern, a at level 100, b at level 200).

Notation err k line file := (Err (mkErr k line file TagGeneric [])).

Definition is_ok {A} (x : outcome A) : bool := match x with Ok _ => true | _ => false end.
Definition is_panic {A} (x : outcome A) : bool := match x with Panic _ => true | _ => false end.

(* list helpers shared by the model *)
Fixpoint list_set {A} (l : list A) (i : nat) (v : A) : list A :=
  match l, i with
  | [], _ => []
  | _ :: t, O => v :: t
  | h :: t, S i' => h :: list_set t i' v
  end.

Fixpoint insert_at {A} (l : list A) (i : nat) (v : A) : list A :=
  match i, l with
  | O, _ => v :: l
  | S i', h :: t => h :: insert_at t i' v
  | S _, [] => [v]
  end.

Fixpoint remove_at {A} (l : list A) (i : nat) : list A :=
  match l, i with
  | [], _ => []
  | _ :: t, O => t
  | h :: t, S i' => h :: remove_at t i'
  end.

Lemma text_eqb_eq a b : text_eqb a b = true <-> a = b.
Proof.
  revert b; induction a as [|x a IH]; intros [|y b]; simpl; split; intro H; try congruence; try reflexivity.
  - apply andb_true_iff in H as [H1 H2]. apply N.eqb_eq in H1. apply IH in H2. congruence.
  - injection H as -> ->. rewrite N.eqb_refl. simpl. apply IH. reflexivity.
Qed.

Lemma text_eqb_refl a : text_eqb a a = true.
Proof. apply text_eqb_eq. reflexivity. Qed.
