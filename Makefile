# /verif build entry points. All build output goes to /verif/build (gitignored).
.PHONY: setup clean
setup:
	mkdir -p build
	timeout 3000 ./check --build-only
clean:
	rm -rf build
