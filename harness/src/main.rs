// pakhi_oracle: drives the real Pakhi implementation (path dependency on /repo, built with --cfg pakhi_verif)
// on cases read from a file, one per line, and prints one canonical result line per case.
// The extracted Coq model (model_driver) prints the same format, so the differ is a line comparison.
use std::collections::HashMap;
use std::io::Write;
use std::panic;
use std::sync::mpsc;
use std::time::Duration;

use pakhi::backend::interpreter::{DataType, Interpreter};
use pakhi::backend::verif_hooks;
use pakhi::common::io::IO;
use pakhi::common::pakhi_error::PakhiErr;
use pakhi::frontend::lexer::{self, Token, TokenKind};
use pakhi::frontend::parser::{self, Assignment, AssignmentKind, Expr, Primary, Stmt};

fn enc(s: &str) -> String {
    if s.is_empty() { return "-".to_string(); }
    s.chars().map(|c| (c as u32).to_string()).collect::<Vec<_>>().join(",")
}
fn enc_chars(s: &[char]) -> String {
    if s.is_empty() { return "-".to_string(); }
    s.iter().map(|c| (*c as u32).to_string()).collect::<Vec<_>>().join(",")
}
fn dec(s: &str) -> String {
    if s == "-" { return String::new(); }
    s.split(',').map(|n| std::char::from_u32(n.parse::<u32>().unwrap()).unwrap()).collect()
}

fn kind_name(k: &TokenKind) -> (String, String) {
    match k {
        TokenKind::Num(n) => ("Num".to_string(), format!("{:016x}", n.to_bits())),
        TokenKind::String(s) => ("String".to_string(), enc(s)),
        TokenKind::Bool(b) => ("Bool".to_string(), if *b { "1".to_string() } else { "0".to_string() }),
        other => (format!("{:?}", other), "".to_string()),
    }
}

fn err_line(e: &PakhiErr) -> String {
    match e {
        PakhiErr::SyntaxError(l, f, m) => format!("err Syntax {} {} {}", l, enc(f), enc(m)),
        PakhiErr::TypeError(l, f, m) => format!("err Type {} {} {}", l, enc(f), enc(m)),
        PakhiErr::RuntimeError(l, f, m) => format!("err Runtime {} {} {}", l, enc(f), enc(m)),
        PakhiErr::UnexpectedError(m) => {
            if m == "VERIF-STEP-LIMIT" { "steplimit".to_string() } else { format!("err Unexpected 0 - {}", enc(m)) }
        }
    }
}

fn tok_str(t: &Token) -> String {
    let (k, p) = kind_name(&t.kind);
    format!("{}:{}:{}:{}:{}", k, p, enc_chars(&t.lexeme), t.line, enc(&t.src_file_path))
}

fn pos(l: &u32, f: &String) -> String { format!("{}/{}", l, enc(f)) }

fn exprs(es: &Vec<Expr>) -> String {
    format!("[{}]", es.iter().map(expr).collect::<Vec<_>>().join(" "))
}

fn expr(e: &Expr) -> String {
    match e {
        Expr::Indexing(a, i, l, f) => format!("(index {} {} {})", expr(a), expr(i), pos(l, f)),
        Expr::Or(o, l, f) => format!("(bin Or - {} {} {})", expr(&o.left), expr(&o.right), pos(l, f)),
        Expr::And(o, l, f) => format!("(bin And - {} {} {})", expr(&o.left), expr(&o.right), pos(l, f)),
        Expr::Equality(b, l, f) => format!("(bin Equality {} {} {} {})", kind_name(&b.operator).0, expr(&b.left), expr(&b.right), pos(l, f)),
        Expr::Comparison(b, l, f) => format!("(bin Comparison {} {} {} {})", kind_name(&b.operator).0, expr(&b.left), expr(&b.right), pos(l, f)),
        Expr::AddOrSub(b, l, f) => format!("(bin AddOrSub {} {} {} {})", kind_name(&b.operator).0, expr(&b.left), expr(&b.right), pos(l, f)),
        Expr::MulOrDivOrRemainder(b, l, f) => format!("(bin MulOrDivOrRemainder {} {} {} {})", kind_name(&b.operator).0, expr(&b.left), expr(&b.right), pos(l, f)),
        Expr::Unary(u, l, f) => format!("(un {} {} {})", kind_name(&u.operator).0, expr(&u.right), pos(l, f)),
        Expr::Call(c, l, f) => format!("(call {} {} {})", expr(&c.expr), exprs(&c.arguments), pos(l, f)),
        Expr::Primary(p, l, f) => match p {
            Primary::Nil => format!("(nil {})", pos(l, f)),
            Primary::Bool(b) => format!("(bool {} {})", if *b { 1 } else { 0 }, pos(l, f)),
            Primary::Num(n) => format!("(num {:016x} {})", n.to_bits(), pos(l, f)),
            Primary::String(s) => format!("(str {} {})", enc(s), pos(l, f)),
            Primary::List(es) => format!("(list {} {})", exprs(es), pos(l, f)),
            Primary::NamelessRecord((ks, vs)) => format!("(rec {} {} {})", exprs(ks), exprs(vs), pos(l, f)),
            Primary::Var(t) => format!("(var {} {} {} {})", kind_name(&t.kind).0, enc_chars(&t.lexeme), pos(&t.line, &t.src_file_path), pos(l, f)),
            Primary::Group(e) => format!("(group {} {})", expr(e), pos(l, f)),
        },
    }
}

fn assignment(a: &Assignment) -> String {
    let k = match a.kind { AssignmentKind::FirstAssignment => "First", AssignmentKind::Reassignment => "Re" };
    let init = match &a.init_value { Some(e) => expr(e), None => "none".to_string() };
    format!("{} {} {} {} {}", k, enc_chars(&a.var_name.lexeme), pos(&a.var_name.line, &a.var_name.src_file_path), exprs(&a.indexes), init)
}

fn stmt(s: &Stmt) -> String {
    match s {
        Stmt::Print(e, l, f) => format!("(print {} {})", expr(e), pos(l, f)),
        Stmt::PrintNoEOL(e, l, f) => format!("(printn {} {})", expr(e), pos(l, f)),
        Stmt::Assignment(a, l, f) => format!("(assign {} {})", assignment(a), pos(l, f)),
        Stmt::Expression(e, l, f) => format!("(expr {} {})", expr(e), pos(l, f)),
        Stmt::BlockStart(l, f) => format!("(bs {})", pos(l, f)),
        Stmt::BlockEnd(l, f) => format!("(be {})", pos(l, f)),
        Stmt::FuncDef(l, f) => format!("(funcdef {})", pos(l, f)),
        Stmt::Return(e, l, f) => format!("(return {} {})", expr(e), pos(l, f)),
        Stmt::If(e, l, f) => format!("(if {} {})", expr(e), pos(l, f)),
        Stmt::Loop(l, f) => format!("(loop {})", pos(l, f)),
        Stmt::Continue(l, f) => format!("(continue {})", pos(l, f)),
        Stmt::Break(l, f) => format!("(break {})", pos(l, f)),
        Stmt::Else(l, f) => format!("(else {})", pos(l, f)),
        Stmt::EOS(l, f) => format!("(eos {})", pos(l, f)),
    }
}

// IO implementation that records the sequence of print / println calls
struct RecIO { chunks: Vec<String> }
impl IO for RecIO {
    fn new() -> Self { RecIO { chunks: Vec::new() } }
    fn print(&mut self, m: &str) { self.chunks.push(format!("p:{}", enc(m))); }
    fn println(&mut self, m: &str) { self.chunks.push(format!("l:{}", enc(m))); }
    fn panic(&mut self, err: PakhiErr) { self.chunks.push(format!("PANIC:{}", err_line(&err).replace(' ', "_"))); }
}

fn do_lex(args: &[&str]) -> String {
    let file = dec(args[0]);
    let src: Vec<char> = dec(args[1]).chars().collect();
    match lexer::tokenize(src, file) {
        Ok(ts) => format!("ok {}", ts.iter().map(tok_str).collect::<Vec<_>>().join(" ")),
        Err(e) => err_line(&e),
    }
}

struct Scratch { dir: std::path::PathBuf, old: std::path::PathBuf }
impl Scratch {
    fn new(files: &Vec<(String, String)>) -> Scratch {
        let base = std::env::var("PAKHI_SCRATCH").unwrap_or("/verif/build/scratch".to_string());
        let dir = std::path::Path::new(&base).join(format!("{}", std::process::id()));
        let _ = std::fs::remove_dir_all(&dir);
        std::fs::create_dir_all(&dir).unwrap();
        for (p, content) in files {
            let fp = dir.join(p);
            if let Some(parent) = fp.parent() { std::fs::create_dir_all(parent).unwrap(); }
            std::fs::write(&fp, content).unwrap();
        }
        let old = std::env::current_dir().unwrap();
        std::env::set_current_dir(&dir).unwrap();
        Scratch { dir, old }
    }
}
impl Drop for Scratch {
    fn drop(&mut self) {
        let _ = std::env::set_current_dir(&self.old);
        let _ = std::fs::remove_dir_all(&self.dir);
    }
}

// files: n then n pairs (path, content); first file is the main module
fn parse_files(args: &[&str]) -> Vec<(String, String)> {
    let n: usize = args[0].parse().unwrap();
    let mut v = Vec::new();
    for i in 0..n { v.push((dec(args[1 + 2 * i]), dec(args[2 + 2 * i]))); }
    v
}

fn front(files: &Vec<(String, String)>) -> Result<Vec<Stmt>, PakhiErr> {
    let main = files[0].0.clone();
    let src: Vec<char> = files[0].1.chars().collect();
    let tokens = lexer::tokenize(src, main.clone())?;
    parser::parse(main, tokens)
}

fn do_parse(args: &[&str]) -> String {
    let files = parse_files(args);
    let _scratch = Scratch::new(&files);
    match front(&files) {
        Ok(ss) => format!("ok {}", ss.iter().map(stmt).collect::<Vec<_>>().join(" ")),
        Err(e) => err_line(&e),
    }
}

fn fs_dump(dir: &std::path::Path, rel: &str, out: &mut Vec<String>) {
    let mut entries: Vec<_> = match std::fs::read_dir(dir) { Ok(r) => r.filter_map(|e| e.ok()).collect(), Err(_) => return };
    entries.sort_by_key(|e| e.file_name());
    for e in entries {
        let name = e.file_name().to_string_lossy().to_string();
        let path = if rel.is_empty() { name.clone() } else { format!("{}/{}", rel, name) };
        let md = match e.metadata() { Ok(m) => m, Err(_) => continue };
        if md.is_dir() {
            out.push(format!("D:{}", enc(&path)));
            fs_dump(&e.path(), &path, out);
        } else {
            let bytes = std::fs::read(e.path()).unwrap_or_default();
            match String::from_utf8(bytes) {
                Ok(s) => out.push(format!("F:{}:{}", enc(&path), enc(&s))),
                Err(_) => out.push(format!("F:{}:BIN", enc(&path))),
            }
        }
    }
}

// run <budget|-> <sched: n | e | bits> <flags: h=heap dump, f=fs dump, c=collection log> <nfiles> (<path> <src>)*
fn do_run(args: &[&str]) -> String {
    let budget: Option<u64> = if args[0] == "-" { None } else { Some(args[0].parse().unwrap()) };
    let sched: Option<Vec<bool>> = match args[1] {
        "n" => None,
        "e" => Some(Vec::new()),
        bits => Some(bits.chars().map(|c| c == '1').collect()),
    };
    let flags = args[2];
    let files = parse_files(&args[3..]);
    let scratch = Scratch::new(&files);
    let mut io = RecIO::new();
    let mut extra = String::new();
    let res = match front(&files) {
        Err(e) => err_line(&e),
        Ok(ast) => {
            let mut interp = Interpreter::new(ast, &mut io);
            interp.verif.step_budget = budget;
            interp.verif.gc_schedule = sched;
            interp.verif.log_collections = flags.contains('c');
            let r = interp.run();
            if flags.contains('h') {
                extra.push_str(&format!(" | heap {} collections={}+{}", interp.verif_dump_state(),
                                        interp.verif.forced_collections, interp.verif.native_collections));
            }
            if flags.contains('c') {
                extra.push_str(&format!(" | gclog {}", interp.verif.collection_log.join(" ;; ")));
            }
            match r { Ok(()) => "ok".to_string(), Err(e) => err_line(&e) }
        }
    };
    if flags.contains('f') {
        let mut v = Vec::new();
        fs_dump(&scratch.dir, "", &mut v);
        extra.push_str(&format!(" | fs {}", v.join(" ")));
    }
    format!("out {} | res {}{}", io.chunks.join(" "), res, extra)
}

// ---- direct collector runs on synthetic heaps (hook H2) ----
fn parse_value(s: &str) -> DataType {
    let (h, t) = s.split_at(1);
    match h {
        "N" => DataType::Num(f64::from_bits(u64::from_str_radix(t, 16).unwrap())),
        "B" => DataType::Bool(t == "1"),
        "S" => DataType::String(dec(t)),
        "L" => DataType::List(t.parse().unwrap()),
        "R" => DataType::NamelessRecord(t.parse().unwrap()),
        _ => DataType::Nil,
    }
}
// gc <nscopes> {<nvars> {<name> <value>}} <nlists> {<len> {<value>}} <nfree> {<i>} <nrecs> {<len> {<key> <value>}} <nfree> {<i>}
fn do_gc(args: &[&str]) -> String {
    let mut i = 0;
    let mut next = || { let a = args[i]; i += 1; a };
    let mut scopes: Vec<HashMap<String, Option<DataType>>> = Vec::new();
    let ns: usize = next().parse().unwrap();
    for _ in 0..ns {
        let nv: usize = next().parse().unwrap();
        let mut m = HashMap::new();
        for _ in 0..nv { let k = dec(next()); let v = parse_value(next()); m.insert(k, Some(v)); }
        scopes.push(m);
    }
    let mut lists: Vec<Vec<DataType>> = Vec::new();
    let nl: usize = next().parse().unwrap();
    for _ in 0..nl {
        let len: usize = next().parse().unwrap();
        let mut l = Vec::new();
        for _ in 0..len { l.push(parse_value(next())); }
        lists.push(l);
    }
    let mut free_lists: Vec<usize> = Vec::new();
    let nf: usize = next().parse().unwrap();
    for _ in 0..nf { free_lists.push(next().parse().unwrap()); }
    let mut recs: Vec<HashMap<String, DataType>> = Vec::new();
    let nr: usize = next().parse().unwrap();
    for _ in 0..nr {
        let len: usize = next().parse().unwrap();
        let mut m = HashMap::new();
        for _ in 0..len { let k = dec(next()); let v = parse_value(next()); m.insert(k, v); }
        recs.push(m);
    }
    let mut free_recs: Vec<usize> = Vec::new();
    let nfr: usize = next().parse().unwrap();
    for _ in 0..nfr { free_recs.push(next().parse().unwrap()); }
    verif_hooks::verif_collect(&mut scopes, &mut lists, &mut free_lists, &mut recs, &mut free_recs);
    format!("ok {}", verif_hooks::dump_state(&scopes, &lists, &free_lists, &recs, &free_recs, 0))
}

// f64 print <bits> | f64 parse <text>
fn do_f64(args: &[&str]) -> String {
    match args[0] {
        "print" => {
            let x = f64::from_bits(u64::from_str_radix(args[1], 16).unwrap());
            format!("ok {}", enc(&x.to_string()))
        },
        "parse" => match dec(args[1]).parse::<f64>() {
            Ok(x) => format!("ok {:016x}", if x.is_nan() { 0x7ff8000000000000u64 } else { x.to_bits() }),
            Err(_) => "none".to_string(),
        },
        "usize" => {
            let x = f64::from_bits(u64::from_str_radix(args[1], 16).unwrap());
            format!("ok {}", x as usize)
        },
        "arith" => {
            let x = f64::from_bits(u64::from_str_radix(args[2], 16).unwrap());
            let y = f64::from_bits(u64::from_str_radix(args[3], 16).unwrap());
            let r = match args[1] { "add" => x + y, "sub" => x - y, "mul" => x * y, "div" => x / y, "rem" => x % y, _ => f64::NAN };
            let c = format!("{}{}{}", if x < y { 1 } else { 0 }, if x <= y { 1 } else { 0 }, if x == y { 1 } else { 0 });
            format!("ok {:016x} {}", if r.is_nan() { 0x7ff8000000000000u64 } else { r.to_bits() }, c)
        },
        _ => "bad".to_string(),
    }
}

fn chartable() {
    let mut start: Option<u32> = None;
    for c in 0..=0x110000u32 {
        let n = if c == 0x110000 { false } else { std::char::from_u32(c).map_or(false, |ch| ch.is_numeric()) };
        match (n, start) {
            (true, None) => start = Some(c),
            (false, Some(s)) => { println!("numeric {} {}", s, c - 1); start = None; },
            _ => {},
        }
    }
}

fn dispatch(line: &str) -> String {
    let parts: Vec<&str> = line.split(' ').collect();
    match parts[0] {
        "lex" => do_lex(&parts[1..]),
        "parse" => do_parse(&parts[1..]),
        "run" => do_run(&parts[1..]),
        "gc" => do_gc(&parts[1..]),
        "f64" => do_f64(&parts[1..]),
        _ => "bad-command".to_string(),
    }
}

fn main() {
    let args: Vec<String> = std::env::args().collect();
    if args.len() >= 2 && args[1] == "chartable" { chartable(); return; }
    if args.len() < 2 { eprintln!("usage: pakhi_oracle <cases-file> [start-index] | chartable"); std::process::exit(2); }
    let start: usize = if args.len() >= 3 { args[2].parse().unwrap() } else { 0 };
    let timeout_ms: u64 = std::env::var("PAKHI_CASE_TIMEOUT_MS").ok().and_then(|s| s.parse().ok()).unwrap_or(5000);
    panic::set_hook(Box::new(|_| {}));
    let content = std::fs::read_to_string(&args[1]).unwrap();
    let stdout = std::io::stdout();
    for (idx, line) in content.lines().enumerate() {
        if idx < start { continue; }
        let owned = line.to_string();
        let (tx, rx) = mpsc::channel();
        // deep recursion in the parser / printer needs stack; give the worker a big one
        let handle = std::thread::Builder::new().stack_size(256 * 1024 * 1024).spawn(move || {
            let r = panic::catch_unwind(|| dispatch(&owned));
            let _ = tx.send(match r { Ok(s) => s, Err(_) => "panic".to_string() });
        }).unwrap();
        match rx.recv_timeout(Duration::from_millis(timeout_ms)) {
            Ok(s) => { let _ = handle.join(); let mut o = stdout.lock(); writeln!(o, "{}", s).unwrap(); },
            Err(mpsc::RecvTimeoutError::Timeout) => {
                // cannot kill the worker: report and exit, the driver restarts after this case
                let mut o = stdout.lock(); writeln!(o, "hang").unwrap(); o.flush().unwrap();
                std::process::exit(3);
            },
            Err(mpsc::RecvTimeoutError::Disconnected) => {
                // thread died without sending (e.g. stack overflow is a process abort, not reached here)
                let mut o = stdout.lock(); writeln!(o, "panic").unwrap();
            },
        }
    }
}
