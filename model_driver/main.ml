(* pakhi_model: runs the extracted Coq model on the same case file the oracle reads.
   All parsing and printing is done by the extracted Gallina function Model.run_case;
   this file only converts between OCaml strings and Coq [list N]. *)
let rec pos_of_int (n : int) : Model.positive =
  if n = 1 then Model.XH
  else if n land 1 = 0 then Model.XO (pos_of_int (n lsr 1))
  else Model.XI (pos_of_int (n lsr 1))
let n_of_int (n : int) : Model.n = if n = 0 then Model.N0 else Model.Npos (pos_of_int n)
let rec int_of_pos (p : Model.positive) : int =
  match p with Model.XH -> 1 | Model.XO q -> 2 * int_of_pos q | Model.XI q -> 2 * int_of_pos q + 1
let int_of_n (n : Model.n) : int = match n with Model.N0 -> 0 | Model.Npos p -> int_of_pos p

let text_of_string (s : string) : Model.n list =
  let rec go i acc = if i < 0 then acc else go (i - 1) (n_of_int (Char.code s.[i]) :: acc) in
  go (String.length s - 1) []
let string_of_text (t : Model.n list) : string =
  let b = Buffer.create 256 in
  List.iter (fun c -> Buffer.add_char b (Char.chr (int_of_n c land 255))) t;
  Buffer.contents b

let () =
  let file = Sys.argv.(1) in
  let start = if Array.length Sys.argv > 2 then int_of_string Sys.argv.(2) else 0 in
  let ic = open_in file in
  let idx = ref 0 in
  (try
     while true do
       let line = input_line ic in
       if !idx >= start then begin
         let out = (try string_of_text (Model.run_case (text_of_string line))
                    with Stack_overflow -> "model-stack-overflow") in
         print_string out; print_newline ()
       end;
       incr idx
     done
   with End_of_file -> ());
  close_in ic
