"""Additional case families, added after the second round of seeded changes showed which shapes the first
generators reached too rarely.  Each family is deterministic or nearly so (small cross products), so that the shape is
present in every run, quick tier included."""
import itertools
from genprog import bn

T, F = 'সত্য', 'মিথ্যা'


def prog(stmts):
    return '\n'.join(stmts) + '\n'


def ind(lines, n=1):
    return ['    ' * n + l for l in lines]


# ---------------------------------------------------------------- argument binding: arguments named like parameters
ARG_DECL = ['নাম ক = ১০;', 'নাম খ = ৩;', 'নাম গ = ৭;',
            'ফাং বিয়োগ(ক, খ) { ফেরত ক - খ; } ফেরত;',
            'ফাং তিন(ক, খ, গ) { ফেরত ক * ১০০ + খ * ১০ + গ; } ফেরত;',
            'ফাং গসাগু(ক, খ) { যদি খ == ০ { ফেরত ক; } ফেরত গসাগু(খ, ক % খ); } ফেরত;',
            'ফাং জোড়া(ক, খ) { ফেরত [ক, খ]; } ফেরত;']


def arg_exprs(rng, n):
    """calls whose later arguments mention caller variables spelled like earlier parameters"""
    atoms = ['ক', 'খ', 'গ', 'ক - খ', 'ক % খ', 'খ + গ', '১', 'গ * ২']
    out = ['বিয়োগ(খ, ক)', 'বিয়োগ(খ, ক % খ)', 'তিন(গ, ক, খ)', 'তিন(খ, গ, ক - খ)', 'বিয়োগ(বিয়োগ(খ, ক), ক)', 'গসাগু(৪৮, ১৮)', 'গসাগু(খ * ৬, ক + ২)',
           'জোড়া(খ, ক)', 'জোড়া(গ, ক)[১]', 'তিন(খ, ক, ক)', 'বিয়োগ(গ, ক) + বিয়োগ(খ, ক)']
    for _ in range(n):
        f = rng.choice([('বিয়োগ', 2), ('তিন', 3), ('জোড়া', 2), ('গসাগু', 2)])
        out.append('%s(%s)' % (f[0], ', '.join(rng.choice(atoms) for _ in range(f[1]))))
    return out


def arg_binding_programs(rng, n):
    return [prog(ARG_DECL + ['দেখাও %s;' % e, 'দেখাও [ক, খ, গ];']) for e in arg_exprs(rng, n)]


# ---------------------------------------------------------------- list concatenation: result is a fresh list
def concat_identity_exprs():
    ops = ['তা', 'তা২', 'খালি', '[]', '[১]', '(তা)', 'একই(তা)']
    out = []
    for x in ops:
        for y in ops:
            for z in ['তা', 'খালি']:
                out.append('(%s + %s) == %s' % (x, y, z))
                out.append('%s + %s != %s' % (x, y, z))
    return out


def concat_fresh_programs(rng, n):
    """the result of + is a new list whatever the operands look like: growing it leaves the operands alone"""
    lefts = ['ক', '(ক)', 'একই(ক)', 'ধর["l"]', 'মোড়া[০]', 'ক + []', '[] + ক', 'একই(একই(ক))', '((ক))', 'ফেরা()']
    rights = ['খ', '[]', '[৯]', 'একই(খ)', '(খ)', 'খালি']
    cases = []
    combos = [(l, r) for l in lefts for r in rights]
    rng.shuffle(combos)
    for l, r in combos[:n]:
        cases.append(prog(['নাম ক = [১, ২];', 'নাম খ = [৩];', 'নাম খালি = [];', 'নাম ধর = @{"l" -> ক,};', 'নাম মোড়া = [ক];',
                           'ফাং একই(x) { ফেরত x; } ফেরত;', 'ফাং ফেরা() { ফেরত ক; } ফেরত;',
                           'নাম ফল = %s + %s;' % (l, r), 'দেখাও ফল;', 'দেখাও ফল == ক;', '_লিস্ট-পুশ(ফল, ৭৭);', 'ফল[০] = ৫৫;',
                           'দেখাও [ক, খ, খালি, ফল];', 'দেখাও _লিস্ট-লেন(ক);', '_লিস্ট-পুশ(ক, ৮৮);', 'দেখাও [ক, ফল];']))
    return cases


# ---------------------------------------------------------------- chains executed repeatedly along different routes
def repeated_chain_programs(rng, n):
    cases = []
    conds = ['ই == ০', 'ই == ১', 'ই == ২', 'ই % ২ == ০', 'ই % ৩ == ১', 'ই > ৩', 'ই < ২', 'ই == ৫', 'মিথ্যা', 'শর্ত(ই - ২)']
    for _ in range(n):
        k = rng.randint(3, 5)
        cs = [rng.choice(conds) for _ in range(k)]
        has_else = rng.random() < 0.6
        ch = []
        for i, c in enumerate(cs):
            ch.append(('যদি %s {' if i == 0 else '} অথবা যদি %s {') % c)
            ch.append('    _দেখাও "%s";' % 'কখগঘঙ'[i])
            if rng.random() < 0.2: ch += ['    যদি ই % ২ == ১ {', '        _দেখাও "+";', '    } অথবা যদি ই == ৪ {', '        _দেখাও "৪";', '    } অথবা {', '        _দেখাও "-";', '    }']
        if has_else: ch += ['} অথবা {', '    _দেখাও "e";']
        ch.append('}')
        pre = ['ফাং শর্ত(ক) {', '    _দেখাও "c";', '    ফেরত ক > ০;', '} ফেরত;']
        form = rng.choice(['loop', 'func', 'funcloop'])
        if form == 'loop':
            body = ['নাম ই = -১;', 'লুপ {', '    ই = ই + ১;', '    যদি ই > ৬ {', '        থামাও;', '    }'] + ind(ch) + ['    _দেখাও ".";', '} আবার;']
        elif form == 'func':
            body = ['ফাং ধাপ(ই) {'] + ind(ch) + ['    ফেরত ই;', '} ফেরত;'] + ['ধাপ(%s);' % bn(i) for i in rng.sample(range(0, 7), 6)]
        else:
            body = ['ফাং ধাপ(ই) {'] + ind(ch) + ['    ফেরত ই;', '} ফেরত;', 'নাম জ = ০;', 'লুপ {', '    যদি জ > ৬ {', '        থামাও;', '    }', '    ধাপ(জ);', '    ধাপ(৬ - জ);', '    জ = জ + ১;', '} আবার;']
        cases.append(prog(pre + body + ['দেখাও "পরে";']))
    return cases


# ---------------------------------------------------------------- a loop inside a function entered at several stack depths
def loop_depth_programs(rng, n):
    cases = []
    for _ in range(n):
        lim = rng.randint(2, 4)
        jump = rng.choice(['আবার;', 'থামাও;'])
        f = ['ফাং ঘুর(ন) {', '    নাম ই = ০;', '    নাম যোগ = ০;', '    লুপ {', '        ই = ই + ১;', '        যদি ই > ন {', '            থামাও;', '        }',
             '        যদি ই == %s {' % bn(lim), '            নাম ভিতরে = ই;', '            %s' % jump, '        }', '        নাম স্থানীয় = ই * ২;', '        যোগ = যোগ + স্থানীয়;', '    } আবার;', '    ফেরত যোগ;', '} ফেরত;',
             'ফাং পুনঃ(ন) {', '    যদি ন <= ০ {', '        ফেরত ০;', '    }', '    নাম জ = ০;', '    নাম ফল = ০;', '    লুপ {', '        জ = জ + ১;', '        যদি জ > ২ {', '            থামাও;', '        }',
             '        {', '            ফল = ফল + পুনঃ(ন - ১) + ১;', '        }', '    } আবার;', '    ফেরত ফল + ন;', '} ফেরত;']
        calls = []
        for _ in range(rng.randint(2, 4)):
            c = ['দেখাও %s;' % rng.choice(['ঘুর(%s)' % bn(rng.randint(1, 6)), 'পুনঃ(%s)' % bn(rng.randint(1, 3))])]
            for _ in range(rng.randint(0, 3)):
                c = rng.choice([['যদি সত্য {'] + ind(c) + ['}'], ['{'] + ind(c) + ['}'], ['ফাং মোড়ক%s() {' % bn(len(calls)), '    নাম ক = ৫;'] + ind(c) + ['    দেখাও ক;', '} ফেরত;', 'মোড়ক%s();' % bn(len(calls))]])
            calls += c
        cases.append(prog(f + calls + ['দেখাও "শেষ";']))
    return cases


# ---------------------------------------------------------------- a callee that allocates past the collection threshold while
# the caller holds containers only in a half-evaluated expression
def callee_alloc_programs():
    pre = ['ফাং ব্যস্ত(ন) {', '    নাম ই = ০;', '    লুপ {', '        যদি ই >= ন {', '            থামাও;', '        }', '        ই = ই + ১;', '        নাম আ = [ই, ই];', '    } আবার;', '    ফেরত ন;', '} ফেরত;',
           'ফাং প্রথম(ক, খ) {', '    ফেরত ক;', '} ফেরত;', 'ফাং বানাও(ন) {', '    নাম ফল = [];', '    নাম ই = ০;', '    লুপ {', '        যদি ই >= ন {', '            থামাও;', '        }', '        _লিস্ট-পুশ(ফল, [ই]);', '        ই = ই + ১;', '    } আবার;', '    ফেরত ফল;', '} ফেরত;']
    uses = [['দেখাও প্রথম([১, ২, ৩], ব্যস্ত(৪০০));'], ['দেখাও [৭, ৮] + [ব্যস্ত(৪০০)];'], ['দেখাও [[১, ২, ৩], ব্যস্ত(৪০০)];'], ['দেখাও প্রথম(@{"ক" -> ১,}, ব্যস্ত(৪০০));'],
            ['দেখাও _লিস্ট-লেন(বানাও(৩) + বানাও(৬০০));'], ['নাম ধ = [[১], [২]];', 'দেখাও [ধ[০] + [৩], ব্যস্ত(৪০০), ধ];'], ['নাম রক = @{"a" -> [১, ২], "b" -> ব্যস্ত(৪০০),};', 'দেখাও রক["a"];']]
    return [{'src': prog(pre + u + ['দেখাও "পরে";']), 'kind': 'callee-alloc', 'budget': 30000} for u in uses]


# ---------------------------------------------------------------- shadowed container variables across collections
def shadow_gc_programs(rng, n):
    cases = []
    for _ in range(n):
        lines = ['নাম রাখা = [১, ২, [৩, ৪]];', 'নাম নথি = @{"চাবি" -> "মান", "ভিতরে" -> [৫],};']
        depth = rng.randint(1, 3)
        body = ['নাম রাখা = %s;' % rng.choice(['১', '"ছায়া"', '[৯]']), 'নাম নথি = %s;' % rng.choice(['২', '@{"অন্য" -> ১,}']),
                'নাম আবর্জনা = [১, ২, ৩] + [৪];', 'নাম আবর্জনা২ = @{"k" -> [১],};', 'দেখাও রাখা;', 'দেখাও নথি;']
        if rng.random() < 0.5:
            body += ['নাম ই = ০;', 'লুপ {', '    যদি ই >= %s {' % bn(rng.choice([3, 400])), '        থামাও;', '    }', '    ই = ই + ১;', '    নাম রাখা = [ই, ই, ই];', '} আবার;']
        for _ in range(depth): body = ['{'] + ind(body) + ['}']
        lines += body + ['দেখাও রাখা;', 'দেখাও নথি["চাবি"];', 'দেখাও নথি["ভিতরে"];', 'নাম নতুন = [৭, ৭];', 'নাম নতুন২ = @{"n" -> ৭,};', 'দেখাও [রাখা, নতুন];', 'দেখাও নতুন২;']
        cases.append({'src': prog(lines), 'kind': 'shadow-gc', 'budget': 60000})
    return cases


# ---------------------------------------------------------------- records that become garbage, several collections, new records
def record_reuse_lines(rng):
    v = bn(rng.randint(10, 99))
    return ['নাম বাদ = @{"t" -> %s,};' % v, 'বাদ = ০;', 'নাম সময় = ১;', 'সময় = ২;', 'নাম নরে১ = @{"a" -> %s,};' % v, 'নাম নরে২ = @{"b" -> %s,};' % v, 'নরে১["c"] = ৩;',
            'দেখাও নরে১["a"]; দেখাও নরে২["b"]; দেখাও নরে১ == নরে২;']


def record_churn_p1():
    """garbage records, then list churn across the threshold twice with the low list slots live"""
    return ['নাম ধরে = [[১], [২], [৩]];', 'নাম র১ = @{"a" -> ১,};', 'নাম র২ = @{"b" -> ২,};', 'র১ = ০;', 'র২ = ০;', 'নাম চ = ০;', 'লুপ {', '    চ = চ + ১;', '    যদি চ > ৮০০ {', '        থামাও;', '    }', '    নাম আবর্জ = [চ, চ];', '} আবার;', 'দেখাও ধরে;']
