"""Third batch of program generators: inputs that need something specific to matter -- thresholds (sizes, depths,
allocation counts), special float values, unusual but legal spellings at the junctions of the grammar, self-containing
containers, names and paths that differ only slightly.  Each returns a list of cases (dict src/kind[/files/budget])."""
import decimal, math, struct
from genprog import bn

T, F = 'সত্য', 'মিথ্যা'


def prog(stmts):
    return '\n'.join(stmts) + '\n'


def ind(lines, n=1):
    return ['    ' * n + l for l in lines]


def counted_loop(var, n, body):
    return ['নাম %s = ০;' % var, 'লুপ {', '    যদি %s >= %s {' % (var, bn(n)), '        থামাও;', '    }', '    %s = %s + ১;' % (var, var)] + ind(body) + ['} আবার;']


# ---------------------------------------------------------------- temporaries held across a call that allocates a lot
def temporaries_programs(rng, n_extra=4):
    """a caller holds lists / records only in a half-evaluated expression while the callee allocates past the collection
    threshold (several times over)"""
    pre = ['ফাং ভরাট(ন) {', '    নাম ই = ০;', '    লুপ {', '        যদি ই >= ন {', '            থামাও;', '        }', '        ই = ই + ১;', '        নাম আ = [ই, ই, ই];', '        নাম আ২ = @{"k" -> ই,};', '    } আবার;', '    ফেরত ন;', '} ফেরত;',
           'ফাং তালিকা(ন) {', '    নাম ফল = [];', '    নাম ই = ০;', '    লুপ {', '        যদি ই >= ন {', '            থামাও;', '        }', '        _লিস্ট-পুশ(ফল, [ই, ই]);', '        ই = ই + ১;', '    } আবার;', '    ফেরত [_লিস্ট-লেন(ফল), ফল[ন - ১]];', '} ফেরত;',
           'ফাং দুই(ক, খ) {', '    ফেরত [ক, খ];', '} ফেরত;', 'ফাং গভীর(ন) {', '    যদি ন <= ০ {', '        ফেরত ভরাট(৩০০);', '    }', '    নাম জ = দুই([ন, ন], গভীর(ন - ১));', '    ফেরত জ[১];', '} ফেরত;']
    uses = ['দেখাও [[১, ২, ৩], ভরাট({N})];', 'নাম রক = @{{"ক" -> [১, ২], "খ" -> ভরাট({N}),}};\nদেখাও রক["ক"];', 'দেখাও দুই(["প্রথম"], ভরাট({N}));', 'দেখাও [৭, ৮] + [ভরাট({N})];', 'দেখাও ([১] + [২]) + তালিকা({N});',
            'নাম ধ = [[১], [২]];\nদেখাও [ধ[০] + [৩], ভরাট({N}), ধ];', 'নাম দফ = দুই(@{{"r" -> [১, ২],}}, তালিকা({N}));\nদেখাও দফ[০]["r"];', 'দেখাও [["শুরু", ১] + [২], [ভরাট({N})], ["শেষ"]];',
            'নাম ল = [০, ০];\nল[ভরাট({N}) - {N}] = [৪, ৫];\nদেখাও ল;', 'দেখাও [[৯, ৯], গভীর(৪)];', 'দেখাও _লিস্ট-লেন([[১], [২], [৩]] + [তালিকা({N})]);', 'দেখাও [[১, ২] == [১, ২], ভরাট({N}), [৩] + [৪]];']
    cases = []
    for N in (300, 1100):
        for u in uses:
            cases.append({'src': prog(pre + u.format(N=bn(N)).split('\n') + ['দেখাও "পরে";']), 'kind': 'temporaries', 'budget': 12 * N + 4000})
    for _ in range(n_extra):
        body = []
        for _ in range(rng.randint(2, 4)):
            body += rng.choice(uses).format(N=bn(rng.choice([260, 340, 520, 1001]))).split('\n')
        cases.append({'src': prog(pre + body + ['দেখাও "পরে";']), 'kind': 'temporaries', 'budget': 60000})
    return cases


# ---------------------------------------------------------------- special float values in conditions
def special_float_chain_programs():
    vals = [('ঋশূ', '০ * -১'), ('ধশূ', '০'), ('অসং', '০ / ০'), ('অসীম', '১ / ০'), ('ঋঅসীম', '-১ / ০'), ('এক', '১'), ('ঋএক', '-১')]
    decl = ['নাম %s = %s;' % (v, e) for v, e in vals]
    cases = []
    for op in ['<', '<=', '>', '>=', '==', '!=']:
        lines = list(decl)
        for a, _ in vals:
            for b, _ in vals:
                lines += ['যদি %s %s %s {' % (a, op, b), '    _দেখাও "T";', '} অথবা {', '    _দেখাও "F";', '}']
            lines.append('দেখাও "";')
        # literal operands and the printed value of the same comparison
        lines += ['যদি -০ %s ০ {' % op, '    _দেখাও "T";', '} অথবা যদি ০ %s -০ {' % op, '    _দেখাও "U";', '} অথবা {', '    _দেখাও "F";', '}', 'দেখাও [ঋশূ %s ধশূ, ধশূ %s ঋশূ, অসং %s অসং, অসং %s এক];' % (op, op, op, op)]
        cases.append({'src': prog(lines), 'kind': 'special-float-conditions', 'budget': 20000})
    return cases


# ---------------------------------------------------------------- legal spellings at the junctions of an if / else-if / else chain
def chain_junction_programs(rng, n):
    fill_after_brace = ['', ' ', '\n', ' # মন্তব্য # ', '\n# দুই\nলাইন #\n', ';', '; ', ' ;\n', '# a # # b #', '\n\n\n']
    fill_after_else = [' ', '\n', ' # মাঝে # ', '  \t ']
    cases = []
    for _ in range(n):
        k = rng.randint(1, 3)
        tv = [rng.random() < 0.35 for _ in range(k)]
        has_else = rng.random() < 0.7
        s = 'দেখাও "আগে";\n'
        for i, b in enumerate(tv):
            cond = rng.choice([T, '১ < ২', 'গ == ০'] if b else [F, '২ < ১', 'গ != ০'])
            if i == 0: s += 'নাম গ = ০;\nযদি %s%s{' % (cond, rng.choice([' ', '\n', ' # c # ']))
            else: s += '}%sঅথবা%sযদি %s {' % (rng.choice(fill_after_brace), rng.choice(fill_after_else), cond)
            s += '\n    দেখাও "শ-%d";\n' % i
        if has_else:
            s += '}%sঅথবা%s{\n    দেখাও "শ-e";\n' % (rng.choice(fill_after_brace), rng.choice(fill_after_else))
        s += '}%s\nদেখাও "পরে";\n' % rng.choice(['', ';', ' # শেষ #', ' ;'])
        cases.append({'src': s, 'kind': 'chain-junctions'})
    return cases


# ---------------------------------------------------------------- return out of several loops of the callee, then break / continue in the caller
def nested_loop_return_programs(rng, n):
    cases = []
    for _ in range(n):
        depth = rng.randint(2, 3)
        target = rng.randint(1, 9)
        vs = ['ই', 'জ', 'ট'][:depth]
        inner = ['যদি %s == ল {' % ' * '.join(vs), '    ফেরত %s;' % ' + '.join('%s * %s' % (v, bn(10 ** i)) for i, v in enumerate(vs)), '}']
        if rng.random() < 0.5: inner = ['যদি সত্য {'] + ind(inner) + ['}']
        body = inner
        for v in reversed(vs):
            body = ['নাম %s = ০;' % v, 'লুপ {', '    %s = %s + ১;' % (v, v), '    যদি %s > ৩ {' % v, '        থামাও;', '    }'] + ind(body) + ['} আবার;']
        f = ['ফাং খোঁজ(ল) {'] + ind(body + ['ফেরত -১;']) + ['} ফেরত;']
        after = rng.choice([['যদি ক == ২ {', '    আবার;', '}'], ['যদি ক == ৩ {', '    থামাও;', '}'], ['যদি ফল < ০ {', '    আবার;', '}'], []])
        caller = ['নাম ক = ০;', 'লুপ {', '    ক = ক + ১;', '    যদি ক > ৫ {', '        থামাও;', '    }', '    নাম ফল = খোঁজ(ক * %s);' % bn(rng.choice([1, 2, 3])), '    _দেখাও ফল;', '    _দেখাও " ";'] + ind(after) + ['    দেখাও ক;', '} আবার;', 'দেখাও "লুপ শেষ";',
                  'দেখাও খোঁজ(%s);' % bn(target), 'থামাও;' if rng.random() < 0.3 else 'দেখাও "শেষ";']
        if rng.random() < 0.4: caller = ['ফাং বাইরে() {'] + ind(caller[:-1] + ['ফেরত ক;']) + ['} ফেরত;', 'দেখাও বাইরে();', 'দেখাও "শেষ";']
        cases.append({'src': prog(f + caller), 'kind': 'nested-loop-return', 'budget': 30000})
    return cases


# ---------------------------------------------------------------- the return after the body's closing brace, with an operand
def closing_return_programs(rng, n):
    cases = []
    operands = ['ক', 'ক + খ', '[ক, খ]', 'স্থানীয়', 'গ', 'ক * ২ + গ', 'আর(ক)', '']
    for _ in range(n):
        op = rng.choice(operands)
        body = rng.sample(['ক = ক * ২;', 'নাম স্থানীয় = ক + ১;', 'নাম গ = ৫০;', 'খ = ৯;', 'যদি ক > ১০০ {\n    ফেরত "ভিতর";\n}', '_দেখাও "দেহ";', 'গ = গ + ১;'], rng.randint(1, 4))
        f = ['ফাং আর(x) {', '    ফেরত x + ১০০০;', '} ফেরত;', 'ফাং ফ(ক, খ) {'] + ind([l for b in body for l in b.split('\n')]) + ['} ফেরত%s;' % ((' ' + op) if op else '')]
        pre = ['নাম গ = ৭;', 'নাম ক = ৩;', 'নাম স্থানীয় = ৪;'] if rng.random() < 0.6 else ['নাম গ = ৭;']
        calls = ['দেখাও ফ(%s);' % rng.choice(['১০, ২০', '১০, ২০', '৩, ৪', '১', '', '২০০, ১', '[১], [২]']) for _ in range(rng.randint(1, 3))]
        cases.append({'src': prog(pre + f + calls + ['দেখাও গ;', 'দেখাও "শেষ";']), 'kind': 'closing-return'})
    return cases


# ---------------------------------------------------------------- containers that contain themselves (never printed whole)
def self_containing_programs(rng, n):
    cases = []
    for _ in range(n):
        lines = ['নাম ক = [১, ২];', 'নাম র = @{"n" -> ১,};', 'নাম খ = ক;']
        last_is_self = False; rec_self = False
        for _ in range(rng.randint(3, 9)):
            ops = ['_লিস্ট-পুশ(ক, ক);', '_লিস্ট-পুশ(খ, ক);', 'র["আমি"] = র;', 'র["তালিকা"] = ক;', 'নাম গ = ক + ক;\nদেখাও _লিস্ট-লেন(গ);\nদেখাও গ == ক;', '_লিস্ট-পুশ(ক, ০, ৫);', 'ক[০] = ক;', 'ক[১] = [ক];']
            if last_is_self: ops += ['_লিস্ট-পুশ(ক[_লিস্ট-লেন(ক) - ১], ৭);', 'ক[_লিস্ট-লেন(ক) - ১][০] = ৯;', '_লিস্ট-পুশ(ক[_লিস্ট-লেন(ক) - ১][_লিস্ট-লেন(ক) - ১], ৮);', 'নাম শেষ = ক[_লিস্ট-লেন(ক) - ১];\n_লিস্ট-পুশ(শেষ, ৬);\nদেখাও শেষ == ক;'] * 2
            if rec_self: ops += ['র["আমি"]["x"] = ৫;', 'র["আমি"]["আমি"]["y"] = ৬;', 'দেখাও র["আমি"] == র;']
            op = rng.choice(ops)
            lines.append(op)
            if op in ('_লিস্ট-পুশ(ক, ক);', '_লিস্ট-পুশ(খ, ক);'): last_is_self = True
            elif 'পুশ(ক[' in op or 'পুশ(শেষ' in op or op == '_লিস্ট-পুশ(ক, র);': last_is_self = False
            if op == 'র["আমি"] = র;': rec_self = True
            obs = ['দেখাও _লিস্ট-লেন(ক);', 'দেখাও _লিস্ট-লেন(ক) == _লিস্ট-লেন(খ);', 'দেখাও ক == খ;', 'দেখাও _টাইপ(ক[_লিস্ট-লেন(ক) - ১]);', 'দেখাও ক[_লিস্ট-লেন(ক) - ১] == ক;', 'দেখাও _টাইপ(ক[০]);', 'দেখাও ক[০] == ক;', 'দেখাও _টাইপ(র["n"]);']
            if rec_self: obs += ['দেখাও _টাইপ(র["আমি"]["n"]);']
            lines.append(rng.choice(obs))
        cases.append({'src': prog([l for x in lines for l in x.split('\n')]), 'kind': 'self-containing'})
    return cases


# ---------------------------------------------------------------- a long live chain of nested containers across collections
def deep_chain_programs():
    cases = []
    for depth, kind in [(2300, 'list'), (2300, 'rec'), (2300, 'mixed'), (150, 'list')]:
        if kind == 'list': grow, head, rest, empty = 'শিকল = [ই, শিকল];', 'প[০]', 'প[১]', '_টাইপ(প) == "_লিস্ট" & _লিস্ট-লেন(প) == ০'
        elif kind == 'rec': grow, head, rest, empty = 'শিকল = @{"v" -> ই, "n" -> শিকল,};', 'প["v"]', 'প["n"]', '_টাইপ(প) == "_লিস্ট"'
        else: grow, head, rest, empty = 'শিকল = [ই, @{"n" -> শিকল,}];', 'প[০]', 'প[১]["n"]', '_লিস্ট-লেন(প) == ০'
        for churn in (1500, 4500):
            lines = ['নাম শিকল = [];'] + counted_loop('ই', depth, [grow]) + counted_loop('জ', churn, ['নাম আ = [জ, জ];', 'নাম আ২ = @{"k" -> জ,};'])
            lines += ['নাম প = শিকল;', 'নাম ধাপ = ০;', 'নাম যোগ = ০;', 'লুপ {', '    যদি %s {' % empty, '        থামাও;', '    }', '    যোগ = যোগ + %s;' % head, '    প = %s;' % rest, '    ধাপ = ধাপ + ১;', '} আবার;',
                      'দেখাও ধাপ;', 'দেখাও যোগ;', 'নাম নতুন১ = [১, ২];', 'নাম নতুন২ = [৩, ৪];', 'নাম নতুন৩ = @{"a" -> ৫,};', 'দেখাও [নতুন১, নতুন২, নতুন৩["a"]];']
            cases.append({'src': prog(lines), 'kind': 'deep-chain %s' % kind, 'route': 'deep-%s-%d' % (kind, depth), 'N': churn, 'live': depth + 10, 'budget': 12 * (depth + churn) + 30000})
    return cases


# ---------------------------------------------------------------- numbers: many fraction digits; long literals at rounding boundaries
def _next_up(x):
    b = struct.unpack('<q', struct.pack('<d', x))[0]
    return struct.unpack('<d', struct.pack('<q', b + 1))[0]


def fraction_digit_texts(rng, n):
    """short significands with 1..40 fraction digits: d * 10^-k"""
    out = []
    for k in range(1, 41):
        for _ in range(n * 3 if 20 <= k <= 26 else n):
            d = rng.choice([1, 3, 7, 9, 11, 25, 123, 999, rng.randint(1, 10 ** rng.randint(1, 15) - 1)])
            s = str(d)
            if len(s) > k: txt = s[:len(s) - k] + '.' + s[len(s) - k:]
            else: txt = '0.' + '0' * (k - len(s)) + s
            out.append(txt)
    return out


def midpoint_literals(rng, n):
    """decimal texts of 20-60 significant digits on, just above and just below the midpoint of two adjacent doubles"""
    decimal.getcontext().prec = 1200
    out = []
    seeds = [1.0, 2.0 ** 53, 9007199254740993.0, 0.1, 1e22, 147573952589676412928.0, 0.3, 5e-5, 123456.789]
    for _ in range(n): seeds.append(rng.choice([rng.uniform(0.001, 1000), rng.uniform(1e15, 1e21), float(rng.randint(2 ** 52, 2 ** 60)), rng.uniform(1e-5, 1e-3)]))
    for x in seeds:
        y = _next_up(x)
        mid = (decimal.Decimal(x) + decimal.Decimal(y)) / 2
        t = format(mid, 'f')
        if 'E' in t or len(t) > 120: continue
        if '.' not in t: t += '.0'
        out.append(t)                                   # the tie
        out.append(t + '0' * rng.randint(0, 9) + '1')    # just above
        ip, fp = t.split('.')
        digs = list(ip + fp)
        i = len(digs) - 1
        while i >= 0 and digs[i] == '0': digs[i] = '9'; i -= 1
        if i >= 0:
            digs[i] = str(int(digs[i]) - 1)
            below = ''.join(digs[:len(ip)]) + '.' + ''.join(digs[len(ip):]) + '9' * rng.randint(1, 9)
            out.append(below.lstrip('0') if not below.startswith('0.') else below)
    return out


def number_text_cases(rng, tier):
    cases = []
    for t in fraction_digit_texts(rng, 5 if tier != 'thorough' else 20):
        b = bn(t)
        cases.append({'src': prog(['নাম ক = %s;' % b, 'দেখাও ক;', 'দেখাও _সংখ্যা("%s") == ক;' % b, 'দেখাও _সংখ্যা(_স্ট্রিং(ক)) == ক;', 'দেখাও _সংখ্যা("%s") * ১০০০ == ক * ১০০০;' % b]), 'kind': 'fraction-digits', 'lit': b})
    for t in midpoint_literals(rng, 12 if tier != 'thorough' else 80):
        b = bn(t)
        cases.append({'src': prog(['নাম ক = %s;' % b, 'দেখাও ক;', 'দেখাও _সংখ্যা("%s") == ক;' % b, 'দেখাও _সংখ্যা(_স্ট্রিং(ক)) == ক;']), 'kind': 'midpoint-literal', 'lit': b})
    return cases


# ---------------------------------------------------------------- lexer: beginnings of files, quotes and backslashes inside comments
LEX_CORPUS = ['#!/usr/bin/pakhi\n# দেখাও ১;', '#!/ x # দেখাও ১; # y #', '#!/\n#', '#!/ #', '#! / # ক', '# ব্যাস ৫" # দেখাও "ক";', '# " # "a" # " #', '# \' # "a"', '# পথ C:\\দল\\\nপরের লাইন #\nক', '# a\\\n\\\nb #\nক খ',
              '# \\\\# ক #', '# \\# \\\\# খ', '#\\', '#\\#', '# \\', '"a\\"b"', '"a\\\nb" ক', '# ক\r\nখ #\r\nগ', '"ক\r\nখ"\r\nগ', '\ufeffদেখাও ১;', 'দেখাও ১;\x00', '#!/usr/bin/env pakhi\nদেখাও ১;\n']


# ---------------------------------------------------------------- comment texts for the layout stream
COMMENTS = ['# ব্যাস ৫" #', '# "খোলা #', '# \'একক\' #', '# পথ C:\\দল\\\nপরের লাইন #', '# a\\\nb\\\nc #', '#!/usr/bin/pakhi #', '# \\\\# এখনও মন্তব্য #', '# { ( [ #', '# } অথবা { #', '# ; #']


# ---------------------------------------------------------------- parser: wide statements, long lexemes in error positions
def wide_statement_sources(sizes=(300,)):
    out = []
    for n in sizes:
        out.append(('নাম ত = [' + ', '.join(['@{"a" -> ১,}'] * n) + '];', 'wide-records'))
        out.append(('নাম ত = [' + ', '.join(['[১]'] * n) + '];', 'wide-lists'))
        out.append(('নাম ত = ' + ' + '.join(['ফ(১)'] * n) + ';', 'wide-calls'))
        out.append(('নাম ত = ' + ' + '.join(['(১)'] * n) + ';', 'wide-groups'))
        out.append(('নাম ত = ' + ' + '.join(['ক[০]'] * n) + ';', 'wide-indexes'))
        out.append(('নাম ত = @{' + ' '.join(['"k%d" -> [১],' % i for i in range(n)]) + '};', 'wide-entries'))
        out.append(('ফ(' + ', '.join(['@{}'] * n) + ');', 'wide-args'))
    return out


def long_lexeme_sources(sizes=(16, 17, 18, 33, 34, 35, 100)):
    out = []
    for n in sizes:
        S = '"' + 'ক' * n + '"'
        I = 'ক' * n
        N = '১' * min(n, 40)
        for t in [S + ';', 'দেখাও ১ ' + S + ';', 'নাম ' + S + ' = ১;', 'যদি ' + S + ' {', I + ' ' + I + ';', 'নাম ' + I + ' ' + I + ';', N + ' ' + N + ';', 'দেখাও (' + S + ';', '@{' + S + ' ' + S + '};', 'ফাং ' + S + '() {', 'মডিউল ' + S + ' = ' + S + ';',
                  '} ' + S, 'দেখাও ' + S + ' ' + I + ';', 'অথবা ' + I + ';', '# ' + I + ' #' + ' ) ' + I + ';', 'দেখাও [' + S + ' ' + S + '];', 'দেখাও ' + I + '(' + S + ' ' + S + ');']:
            out.append((t, 'long-lexeme-error'))
    return out


# ---------------------------------------------------------------- faults: fractional negative indexes, odd comments before the fault
EXTRA_FAULTS = [('index', 'তা[-০.৫]'), ('index', 'তা[-০.০০১]'), ('index', 'তা[০ - ০.৯৯]'), ('index', 'তা[১ / ০]'), ('index', 'তা[-১ / ০]'), ('index', 'তা[১.৯৯৯]'), ('index', 'তা[২.০০০০০১]'),
                ('builtin', '_লিস্ট-পপ(তা, -০.৫)'), ('builtin', '_লিস্ট-পুশ(তা, -০.৫, ০)'), ('builtin', '_লিস্ট-পপ(তা, ০ / ০)'), ('builtin', '_লিস্ট-পুশ(তা, ০ / ০, ০)'), ('undecl', 'ক' * 40), ('builtin', '_সংখ্যা("' + 'ক' * 40 + '")'),
                ('user', '_এরর("' + 'খ' * 60 + '")'), ('key', 'রে["' + 'গ' * 40 + '"]')]

FAULT_PREFIX_COMMENTS = [[], ['# পথ C:\\দল\\', 'পরের লাইন #'], ['# a\\', '\\', 'b #'], ['# ব্যাস ৫" # নাম উ = "ক";'], ['# \\# এক', 'দুই \\# #'], ['#', '', '', '#'], ['নাম উ২ = "বহু', 'লাইন', 'স্ট্রিং";'], ['#!/ শুরু #']]


def negative_fraction_write_programs():
    cases = []
    for ix in ['-০.৫', '-০.২৫', '০ - ০.৯৯', '-০.০০০০০০১', '১.৫', '০.৯৯']:
        cases.append({'src': prog(['নাম তা = [১০, ২০, ৩০];', 'দেখাও "আগে";', 'তা[%s] = ৯৯;' % ix, 'দেখাও তা;', 'দেখাও তা[%s];' % ix, 'দেখাও "পরে";']), 'kind': 'fault fraction-index'})
    return cases


# ---------------------------------------------------------------- modules: names that are prefixes, repeated aliases along a nesting, case, slashes
def module_alias_programs():
    cases = []
    store = prog(['নাম মজুদ = ১০০;', 'ফাং নাও(ন) {', '    মজুদ = মজুদ - ন;', '    ফেরত মজুদ;', '} ফেরত;', 'দেখাও "ভাণ্ডার";'])
    # the same alias at two nesting levels; the middle module has the same names of its own
    for outer, inner in [('দ', 'দ'), ('দ', 'ভ'), ('ক/খ', 'ক/খ'), ('ক', 'ক/খ'), ('দোকান', 'দোকান')]:
        shop = prog(['মডিউল %s = "bhandar.pakhi";' % inner, 'নাম মজুদ = ১০;', 'ফাং নাও(ন) {', '    মজুদ = মজুদ - ন;', '    ফেরত মজুদ;', '} ফেরত;', 'ফাং দুটোই(ন) {', '    ফেরত [নাও(ন), %s/নাও(ন)];' % inner, '} ফেরত;',
                     'দেখাও %s/মজুদ;' % inner, 'দেখাও মজুদ;', '%s/মজুদ = %s/মজুদ + ৫;' % (inner, inner), 'দেখাও [মজুদ, %s/মজুদ];' % inner])
        main = prog(['মডিউল %s = "dokan.pakhi";' % outer, 'নাম মজুদ = ১;', 'দেখাও %s/দুটোই(১);' % outer, 'দেখাও %s/মজুদ;' % outer, 'দেখাও %s/%s/মজুদ;' % (outer, inner), 'দেখাও %s/%s/নাও(২);' % (outer, inner), 'দেখাও %s/নাও(৩);' % outer, 'দেখাও মজুদ;'])
        cases.append({'src': main, 'files': [('dokan.pakhi', shop), ('bhandar.pakhi', store)], 'kind': 'alias-repeated-along-nesting'})
    # sibling import names of which one is a textual prefix of the other, reaching the same file (a diamond, or twice)
    logf = prog(['নাম গণনা = ০;', 'ফাং লেখ(ব) {', '    গণনা = গণনা + ১;', '    দেখাও "লগ " + ব;', '    ফেরত গণনা;', '} ফেরত;', 'দেখাও "log";'])
    logger = prog(['মডিউল ভিতর = "log.pakhi";', 'ফাং লেখ(ব) {', '    ফেরত ভিতর/লেখ("[" + ব + "]");', '} ফেরত;', 'দেখাও "logger";'])
    for a1, a2 in [('লগ', 'লগার'), ('m1', 'm10'), ('util', 'utils'), ('ম', 'ম২'), ('লগার', 'লগ'), ('ক', 'ক-খ'), ('ক', 'ক_খ')]:
        cases.append({'src': prog(['মডিউল %s = "log.pakhi";' % a1, 'মডিউল %s = "logger.pakhi";' % a2, 'দেখাও %s/লেখ("এক");' % a1, 'দেখাও %s/লেখ("দুই");' % a2, 'দেখাও %s/গণনা;' % a1, 'দেখাও %s/ভিতর/গণনা;' % a2]),
                      'files': [('log.pakhi', logf), ('logger.pakhi', logger)], 'kind': 'alias-prefix-diamond'})
        cases.append({'src': prog(['মডিউল %s = "log.pakhi";' % a1, 'মডিউল %s = "log.pakhi";' % a2, 'দেখাও %s/লেখ("এক");' % a1, 'দেখাও %s/লেখ("দুই");' % a2, 'দেখাও [%s/গণনা, %s/গণনা];' % (a1, a2)]),
                      'files': [('log.pakhi', logf)], 'kind': 'alias-prefix-twice'})
    return cases


def import_graph_oddities():
    cases = []
    # an import name with a literal '/' inside a non-root module; cycles that do not pass through the root
    for alias in ['খ/গ', 'খ', 'x/y/z', 'ক/খ']:
        for pre in ([], ['দেখাও "আগে";']):
            cases.append({'src': prog(['মডিউল ক = "a.pakhi";', 'দেখাও "main";']),
                          'files': [('a.pakhi', prog(pre + ['মডিউল %s = "b.pakhi";' % alias, 'দেখাও "a";'])), ('b.pakhi', prog(pre + ['মডিউল ঘ = "a.pakhi";', 'দেখাও "b";']))], 'kind': 'inner-cycle-slash-alias'})
            cases.append({'src': prog(['মডিউল ক = "a.pakhi";', 'দেখাও "main";']),
                          'files': [('a.pakhi', prog(pre + ['মডিউল %s = "b.pakhi";' % alias, 'দেখাও "a";'])), ('b.pakhi', prog(pre + ['মডিউল %s = "c.pakhi";' % alias, 'দেখাও "b";'])), ('c.pakhi', prog(['দেখাও "c";']))], 'kind': 'chain-slash-alias'})
            cases.append({'src': prog(['মডিউল %s = "a.pakhi";' % alias, 'মডিউল ক = "b.pakhi";', 'দেখাও "main";']),
                          'files': [('a.pakhi', prog(pre + ['মডিউল %s = "b.pakhi";' % alias, 'দেখাও "a";'])), ('b.pakhi', prog(['দেখাও "b";']))], 'kind': 'diamond-slash-alias'})
    # file names that differ only in letter case are different files
    for n1, n2 in [('vector.pakhi', 'Vector.pakhi'), ('lib/util.pakhi', 'lib/UTIL.pakhi'), ('A.pakhi', 'a.pakhi')]:
        d = (n1.rsplit('/', 1)[0] + '/') if '/' in n1 else ''
        cases.append({'src': prog(['দেখাও "শুরু";', 'মডিউল ক = "%s";' % n1, 'দেখাও ক/খ/মান + ক/মান;', 'দেখাও "শেষ";']),
                      'files': [(n1, prog(['মডিউল খ = "%s";' % n2[len(d):] if d else 'মডিউল খ = "%s";' % n2, 'নাম মান = ১;', 'দেখাও "%s";' % n1])), (n2, prog(['নাম মান = ৫;', 'দেখাও "%s";' % n2]))], 'kind': 'case-distinct-files'})
        cases.append({'src': prog(['মডিউল ক = "%s";' % n1, 'মডিউল খ = "%s";' % n2, 'দেখাও [ক/মান, খ/মান];']), 'files': [(n1, 'নাম মান = ১;\n'), (n2, 'নাম মান = ২;\n')], 'kind': 'case-distinct-files'})
    return cases


# ---------------------------------------------------------------- text built-ins: line terminators, empty list with wrong separator
def text_oddities():
    cases = []
    for s, sep in [('a\r\nb\r\nc', '\n'), ('a\r\nb\r\n', '\n'), ('a\r', '\n'), ('\r\n', '\n'), ('a\r\nb', '\r\n'), ('a\rb\rc', '\r'), ('ক\tখ\tগ', '\t'), ('a\n\nb\n', '\n'), ('a \r\n b', '\n'), ('\r', '\n'), ('x\r\ny', '\r')]:
        cases.append({'src': prog(['নাম ভাগ = _স্ট্রিং-স্প্লিট("%s", "%s");' % (s, sep), 'দেখাও _লিস্ট-লেন(ভাগ);', 'নাম আবার_জোড়া = _স্ট্রিং-জয়েন(ভাগ, "%s");' % sep, 'দেখাও আবার_জোড়া == "%s";' % s, 'দেখাও _স্ট্রিং-জয়েন(ভাগ, "|");',
                                   'দেখাও _লিস্ট-লেন(_স্ট্রিং-স্প্লিট(ভাগ[০], ""));']), 'kind': 'split-eol', 's': s, 'sep': sep})
    for bad in ['_স্ট্রিং-জয়েন([], ১)', '_স্ট্রিং-জয়েন([], সত্য)', '_স্ট্রিং-জয়েন([], [])', '_স্ট্রিং-জয়েন(_স্ট্রিং-স্প্লিট("", ""), ১)', '_স্ট্রিং-জয়েন([], শূ)', '_স্ট্রিং-জয়েন([])', '_স্ট্রিং-জয়েন([], "", "")', '_স্ট্রিং-স্প্লিট("", ১)', '_স্ট্রিং-স্প্লিট("")',
                '_স্ট্রিং-জয়েন([১], ১)', '_স্ট্রিং-জয়েন([], ",")', '_স্ট্রিং-জয়েন([""], ",")', '_স্ট্রিং-জয়েন(["", ""], "")', '_টাইপ([], [])', '_স্ট্রিং-স্প্লিট([], "")']:
        cases.append({'src': prog(['নাম শূ;', 'দেখাও "আগে";', 'দেখাও _টাইপ(%s);' % bad, 'দেখাও %s;' % bad, 'দেখাও "পরে";']), 'kind': 'badargs'})
    return cases


# ---------------------------------------------------------------- printing: long strings, long lists
def big_print_programs():
    cases = []
    def build(var, unit, count):
        """statements leaving in var the unit repeated count times (by doubling)"""
        lines = ['নাম %s = "";' % var, 'নাম একক = "%s";' % unit, 'নাম বাকি = %s;' % bn(count)]
        lines += ['লুপ {', '    যদি বাকি < ১ {', '        থামাও;', '    }', '    যদি বাকি % ২ == ১ {', '        %s = %s + একক;' % (var, var), '        বাকি = বাকি - ১;', '    }', '    একক = একক + একক;', '    বাকি = বাকি / ২;', '} আবার;']
        return lines
    for unit in ['ক', 'aক', 'é', '😀', 'ab']:
        for count in (2729, 2730, 2731, 2732, 4096, 5462, 8193, 21846):
            if count > 9000 and unit != 'ক': continue
            lines = build('বড়', unit, count) + ['দেখাও _লিস্ট-লেন(_স্ট্রিং-স্প্লিট(বড়, ""));', 'দেখাও বড়;', '_দেখাও বড়;', 'দেখাও "";', 'দেখাও [বড়, ১];', 'দেখাও @{"k" -> বড়,};', 'দেখাও "x" + বড় + "y";']
            cases.append({'src': prog(lines), 'kind': 'print-long-string', 'budget': 3000})
    for count in (1023, 1024, 1025, 2050):
        lines = ['নাম ল = [];'] + counted_loop('ই', count, ['_লিস্ট-পুশ(ল, ই);']) + ['দেখাও ল;', '_দেখাও ল;', 'দেখাও "";', 'দেখাও [ল, [ল]];', 'দেখাও @{"k" -> ল,};']
        cases.append({'src': prog(lines), 'kind': 'print-long-list', 'budget': 8 * count + 3000})
        lines = ['নাম র = @{};'] + counted_loop('ই', min(count, 1030), ['র[_স্ট্রিং(ই)] = ই;']) + ['দেখাও র;']
        cases.append({'src': prog(lines), 'kind': 'print-big-record', 'budget': 8 * count + 3000})
    return cases


# ---------------------------------------------------------------- fragments: histories of the free lists
def free_list_history_p1():
    """P1 fragments that leave the collector's free lists in particular states: more free slots than are reused before the
    next collection, then an older (lower) slot dropped, then another collection"""
    out = []
    for holders in (3, 30):
        hold = ['নাম ধ%s = [%s];' % (bn(i), bn(i)) for i in range(holders)]
        churn1 = counted_loop('আক', 1100, ['নাম আবর্জ = [আক];'])
        few = ['নাম ন%s = [%s, %s];' % (bn(i), bn(i), bn(i)) for i in range(5)]
        drop = ['ধ০ = ০;', 'ধ১ = ০;']
        churn2 = counted_loop('আখ', 1100, ['নাম আবর্জ২ = [আখ];'])
        out.append(hold + churn1 + few + drop + churn2 + ['দেখাও [ধ২, ন০, ন৪];'])
        out.append(hold + churn1 + drop + churn1[:0] + counted_loop('আগ', 600, ['নাম আবর্জ৩ = @{"a" -> আগ,};']) + churn2 + ['দেখাও ধ২;'])
    return out


def free_list_forced_p1(rng, n):
    """short histories for forced collection schedules: a burst of garbage (many free slots), a few re-uses, an OLD (low)
    container dropped, a few more boundaries"""
    out = []
    for _ in range(n):
        holders = rng.randint(2, 6)
        lines = ['নাম ধ%s = [%s];' % (bn(i), bn(i)) for i in range(holders)]
        if rng.random() < 0.5: lines += ['নাম রধ%s = @{"a" -> %s,};' % (bn(i), bn(i)) for i in range(rng.randint(1, 4))]
        burst = rng.randint(4, 14)
        lines += ['নাম ট = [%s];' % ', '.join('[%s]' % bn(i) for i in range(burst)), 'ট = ০;']
        if rng.random() < 0.5: lines += ['নাম রট = [%s];' % ', '.join('@{"k" -> %s,}' % bn(i) for i in range(rng.randint(3, 9))), 'রট = ০;']
        lines += ['নাম ন%s = [%s, %s];' % (bn(i), bn(i), bn(i)) for i in range(rng.randint(0, burst - 2))]
        for i in rng.sample(range(holders), rng.randint(1, holders - 1)): lines.append('ধ%s = ০;' % bn(i))
        if 'রধ০' in ' '.join(lines) and rng.random() < 0.7: lines.append('রধ০ = ০;')
        lines += ['নাম ফ = ১;', 'ফ = ২;', 'ফ = ৩;'][:rng.randint(1, 3)]
        if rng.random() < 0.4: lines += ['নাম ট২ = [[১], [২], [৩]];', 'ট২ = ০;', 'ফ = ৪;']
        out.append(lines)
    return out


def free_list_p2():
    return [['নাম দ্বিক = [১, ২];', 'নাম দ্বিখ = [৩, ৪];', 'নাম দ্বিগ = [৫, ৬];', 'নাম দ্বিঘ = [৭, ৮, ৯];', 'নাম দ্বির = @{"a" -> ১,};', 'নাম দ্বির২ = @{"b" -> ২,};', '_লিস্ট-পুশ(দ্বিক, ০);', 'দ্বির["c"] = ৩;',
             'দেখাও [দ্বিক, দ্বিখ, দ্বিগ, দ্বিঘ];', 'দেখাও [দ্বিক == দ্বিখ, দ্বিখ == দ্বিগ, দ্বিগ == দ্বিঘ, দ্বিক == দ্বিঘ, দ্বির == দ্বির২];', 'দেখাও দ্বির২;'],
            ['নাম দ্বিসব = [];'] + counted_loop('দ্বিই', 40, ['_লিস্ট-পুশ(দ্বিসব, [দ্বিই]);']) + ['নাম দ্বিভুল = ০;'] + counted_loop('দ্বিজ', 40, ['যদি দ্বিসব[দ্বিজ - ১][০] != দ্বিজ {', '    দ্বিভুল = দ্বিভুল + ১;', '}', '_লিস্ট-পুশ(দ্বিসব[দ্বিজ - ১], ০);']) +
            ['দেখাও দ্বিভুল;', 'দেখাও _লিস্ট-লেন(দ্বিসব[০]);', 'দেখাও _লিস্ট-লেন(দ্বিসব[৩৯]);']]


# ---------------------------------------------------------------- file system: dot names, names sharing a stem
FS_EXTRA_PATHS = ['.env', 'd/.cache', '.x.tmp', 'd/..data', 'notes.txt', 'notes.tmp', 'notes', 'd/a.b.c', 'f.txt.tmp']


def lex_corpus(): return list(LEX_CORPUS)
def parse_sources(): return wide_statement_sources() + long_lexeme_sources()
def parse_sources_impl_only():
    """too large for the model's (quadratic) parser: checked on the implementation alone -- the wide statements are
    documented forms and must be accepted, the malformed ones must be rejected with an error value"""
    return wide_statement_sources((998, 1001, 1500, 4000)) + long_lexeme_sources((2731, 5462))
