"""Program generators specialised per property (DESIGN.md section 7). Each returns a list of cases:
dict(src=..., files=[(path, content)...] (optional), kind=..., sched=..., budget=...)."""
import random, itertools
import genprog
import pstreams2 as P2
import pstreams3 as P3
import pstreams4 as P4
import pstreams5 as P5
from genprog import bn, Gen, Scope, render

T, F = 'সত্য', 'মিথ্যা'


def prog(stmts):
    return '\n'.join(stmts) + '\n'


# ------------------------------------------------------------------------------------------------ C01 expressions
OPERANDS_NUM = ['০', '১', '২', '৩', '-১', '০.৫', '১০', '৭', '০.১', '১০০০০০০০০০০০০০০০০০০০০০০০০০০০০০০০০০০০০০০০০০০০০০০০০০০০০০০০০০০০০০০০০০০০০০০০০০০০০০০০০০০০০০০০০০০০০০০০০০০০০০০০০০০০০০০০০০০০০০০০০০০০০০০০০০০০০০০০০০০০০০০০০০০০০০০০০০০০০০০০০০০০০০০০০০০০০০০০০০০০০০০০০০০০০০০০০০০০০০০০০০০০০০০০০০০০০০০০০০০০০০০০০০০০০০০০০০০০০০০০০০০০০০০০০০০০০০০০০০০০০০০০০০০০০০০০০০০০০০০০০০০০০০০০০০০০০০০০০০০০০০০০০০০০০',
                '৯০০৭১৯৯২৫৪৭৪০৯৯৩', '০.০০০০০০০০০০০০০০০০০০০০০০০০০০০০০০০০০০০০০০০০০০০০০০০০০০০০০০০০০০০০০০০০০০০০০০০০০০০০০০০০০০০০০০০০০০০০০০০০০০০০০০০০০০০০০০০০০০০০০০০০০০০০০০০০০০০০০০০০০০০০০০০০০০০০০০০০০০০০০০০০০০০০০০০০০০০০০০০০০০০০০০০০০০০০০০০০০০০০০০০০০০০০০০০০০০০০০০০০০০০০০০০০০০০০০০০০০০০০০০০০০০০০০০০০০০০০০০০০০০০০০০০০০০০০০০০০০০০০০০০০০০০০০০০০০০০০০০০০০০০০০০০০০০০০০০০০০০০০০০০০০০০০০৫']


class ExprGen:
    """typed expression trees over all value types; returns (tokens-with-minimal-parens, tree)"""
    LEVEL = {'|': 0, '&': 1, '==': 2, '!=': 2, '<': 3, '<=': 3, '>': 3, '>=': 3, '+': 4, '-': 4, '*': 5, '/': 5, '%': 5}

    def __init__(self, rng, vars_by_type, funcs, ill=0.1, maxdepth=5):
        self.r, self.vars, self.funcs, self.ill, self.maxdepth = rng, vars_by_type, funcs, ill, maxdepth

    def tree(self, ty, d=0):
        r = self.r
        if r.random() < self.ill and d > 0: ty = r.choice(['num', 'bool', 'str', 'list', 'rec', 'nil'])
        leaf = d >= self.maxdepth or r.random() < 0.25
        vs = self.vars.get(ty, [])
        if leaf:
            if vs and r.random() < 0.5: return ('var', r.choice(vs))
            if ty == 'num': return ('lit', r.choice(OPERANDS_NUM))
            if ty == 'bool': return ('lit', r.choice([T, F]))
            if ty == 'str': return ('lit', '"' + r.choice(genprog.STRS) + '"')
            if ty == 'list': return ('list', [self.tree(r.choice(['num', 'str', 'list']), d + 2) for _ in range(r.randint(0, 2))])
            if ty == 'rec': return ('var', r.choice(self.vars.get('rec', ['রেক'])))
            return ('var', r.choice(self.vars.get('nil', ['শূন'])))
        k = r.random()
        if ty == 'num':
            if k < 0.7: return ('bin', r.choice(['+', '-', '*', '/', '%']), self.tree('num', d + 1), self.tree('num', d + 1))
            if k < 0.8: return ('un', '-', self.tree('num', d + 1))
            if k < 0.9 and self.funcs.get('num'): return ('call', r.choice(self.funcs['num']), [self.tree('num', d + 1)])
            return ('call', '_লিস্ট-লেন', [self.tree('list', d + 1)])
        if ty == 'bool':
            if k < 0.3: return ('bin', r.choice(['<', '<=', '>', '>=']), self.tree('num', d + 1), self.tree('num', d + 1))
            if k < 0.55:
                t2 = r.choice(['num', 'str', 'bool', 'list', 'rec', 'nil'])
                return ('bin', r.choice(['==', '!=']), self.tree(t2, d + 1), self.tree(t2 if r.random() < 0.7 else r.choice(['num', 'str', 'list']), d + 1))
            if k < 0.85: return ('bin', r.choice(['&', '|']), self.tree('bool', d + 1), self.tree('bool', d + 1))
            return ('un', '!', self.tree('bool', d + 1))
        if ty == 'str':
            if k < 0.7: return ('bin', '+', self.tree('str', d + 1), self.tree('str', d + 1))
            if k < 0.85: return ('call', '_স্ট্রিং', [self.tree('num', d + 1)])
            return ('call', '_টাইপ', [self.tree(r.choice(['num', 'str', 'bool', 'list', 'rec', 'nil']), d + 1)])
        if ty == 'list':
            if k < 0.6: return ('bin', '+', self.tree('list', d + 1), self.tree('list', d + 1))
            return ('list', [self.tree(r.choice(['num', 'str', 'bool']), d + 1) for _ in range(r.randint(0, 3))])
        return self.tree(ty, self.maxdepth)

    def level(self, t):
        if t[0] == 'bin': return self.LEVEL[t[1]]
        if t[0] == 'un': return 6
        return 8

    def render(self, t, extra=0.0):
        """minimal parentheses from the precedence ladder, left associative; extra: probability of redundant parens"""
        r = self.r
        def go(t):
            k = t[0]
            if k in ('var', 'lit'): s = [t[1]]
            elif k == 'list':
                s = ['[']
                for i, e in enumerate(t[1]):
                    s += go(e)
                    if i < len(t[1]) - 1: s.append(',')
                s.append(']')
            elif k == 'call':
                s = [t[1], '(']
                for i, e in enumerate(t[2]):
                    s += go(e)
                    if i < len(t[2]) - 1: s.append(',')
                s.append(')')
            elif k == 'un':
                inner = go(t[2])
                if self.level(t[2]) < 6: inner = ['('] + inner + [')']
                elif t[1] == '-' and inner and inner[0].startswith('-'): inner = ['('] + inner + [')']   # "- -১" is fine, "--১" too, keep explicit
                s = [t[1]] + inner
            else:
                lv = self.LEVEL[t[1]]
                a, b = go(t[2]), go(t[3])
                if self.level(t[2]) < lv: a = ['('] + a + [')']
                if self.level(t[3]) <= lv: b = ['('] + b + [')']
                s = a + [t[1]] + b
            if extra and r.random() < extra: s = ['('] + s + [')']
            return s
        return go(t)


def c01_cases(rng, tier):
    n = 4000 if tier == 'thorough' else 500
    cases = []
    decl = ['নাম সং = ৩;', 'নাম ভগ্ন = ০.২৫;', 'নাম ঋণ = -৭;', 'নাম বু = সত্য;', 'নাম শব = "কখ";', 'নাম ফাঁকা = "";', 'নাম তা = [১, ২];', 'নাম তা২ = তা;',
            'নাম খালি = [];', 'নাম রেক = @{"k" -> ১,};', 'নাম রেক২ = রেক;', 'নাম শূন;',
            'ফাং দ্বিগুণ(ক) { ফেরত ক * ২; } ফেরত;', 'ফাং যোগ১(ক) { ফেরত ক + ১; } ফেরত;']
    vars_by_type = {'num': ['সং', 'ভগ্ন', 'ঋণ'], 'bool': ['বু'], 'str': ['শব', 'ফাঁকা'], 'list': ['তা', 'তা২', 'খালি'], 'rec': ['রেক', 'রেক২'], 'nil': ['শূন']}
    funcs = {'num': ['দ্বিগুণ', 'যোগ১']}
    for i in range(n):
        g = ExprGen(rng, vars_by_type, funcs, ill=0.0 if i % 5 else 0.25, maxdepth=rng.choice([2, 3, 4, 6] if tier != 'thorough' else [3, 5, 8, 10]))
        ty = rng.choice(['num', 'num', 'bool', 'bool', 'str', 'list'])
        t = g.tree(ty)
        base = g.render(t)
        variants = [base, g.render(t, extra=0.3), ['('] + base + [')']]
        cases.append({'decl': decl, 'exprs': [' '.join(v) for v in variants], 'tree': repr(t)[:300], 'kind': ty, 'toks': base})
    # unparenthesised chains of operators of one level (left associativity) and of adjacent levels (the ladder)
    scal = ['০', '১', '২', '৩', '৮', '৪', 'সত্য', 'মিথ্যা', '"a"', '""', 'সং', 'বু', 'শব', 'শূন', 'তা', 'তা২', 'খালি']
    levels = [['|'], ['&'], ['==', '!='], ['<', '<=', '>', '>='], ['+', '-'], ['*', '/', '%']]
    for _ in range(n // 2):
        k = rng.randint(3, 5)
        mode = rng.random()
        if mode < 0.5:
            lv = rng.randrange(len(levels))
            ops = [rng.choice(levels[lv]) for _ in range(k - 1)]
        else:
            ops = [rng.choice(rng.choice(levels)) for _ in range(k - 1)]
        if all(o in '+-*/%' for o in ops): pool = ['১', '২', '৩', '৮', '৪', '১০', '০.৫', 'সং', 'ঋণ']
        elif all(o in '|&' for o in ops): pool = ['সত্য', 'মিথ্যা', 'বু']
        elif all(o in ('==', '!=') for o in ops): pool = ['সত্য', 'মিথ্যা', '১', '২', '"a"', 'বু', 'সং', 'শূন', 'তা', 'তা২']
        else: pool = scal
        toks = []
        for i in range(k):
            toks.append(rng.choice(pool))
            if i < k - 1: toks.append(ops[i])
        e = ' '.join(toks)
        cases.append({'decl': decl, 'exprs': [e, '(' + e + ')'], 'tree': e, 'kind': 'chain'})
    # calls whose arguments are spelled like the callee's parameters; + on lists yields a new list
    for e in P2.arg_exprs(rng, 40 if tier != 'thorough' else 300):
        cases.append({'decl': P2.ARG_DECL, 'exprs': [e, '(' + e + ')'], 'tree': e, 'kind': 'argbind'})
    for e in P2.concat_identity_exprs():
        cases.append({'decl': decl + ['ফাং একই(x) { ফেরত x; } ফেরত;'], 'exprs': [e, '(' + e + ')'], 'tree': e, 'kind': 'concat-identity'})
    return cases


# ------------------------------------------------------------------------------------------------ control flow (C02, C03, C05, C19)
HISTORIES = [
    [],
    ['যদি সত্য {', '    _দেখাও "h1";', '}'],
    ['যদি মিথ্যা {', '    _দেখাও "h2";', '}'],
    ['ফাং হফ(ক) {', '    যদি ক > ০ {', '        ফেরত ১;', '    }', '    ফেরত ০;', '} ফেরত;', 'হফ(১);', 'হফ(-১);'],
    ['নাম হগ = ০;', 'লুপ {', '    যদি হগ >= ২ {', '        থামাও;', '    }', '    হগ = হগ + ১;', '} আবার;'],
    ['লুপ {', '    যদি সত্য {', '        যদি সত্য {', '            থামাও;', '        }', '    }', '} আবার;'],
    ['ফাং হল() {', '    লুপ {', '        যদি সত্য {', '            ফেরত ৫;', '        }', '    } আবার;', '} ফেরত;', 'হল();'],
    ['যদি সত্য {', '    যদি মিথ্যা {', '    } অথবা {', '        _দেখাও "h3";', '    }', '}'],
    ['যদি মিথ্যা {', '} অথবা যদি সত্য {', '    _দেখাও "h4";', '} অথবা {', '}'],
]


def chain_src(conds, has_else, tag, indent=''):
    """chain printing which branch ran; cond strings"""
    out = []
    for i, c in enumerate(conds):
        head = 'যদি' if i == 0 else '} অথবা যদি'
        out.append('%s%s %s {' % (indent, head, c))
        out.append('%s    দেখাও "%s-%d";' % (indent, tag, i))
    if has_else:
        out.append('%s} অথবা {' % indent)
        out.append('%s    দেখাও "%s-e";' % (indent, tag))
    out.append('%s}' % indent)
    return out


def c02_cases(rng, tier):
    cases = []
    conds_pool = [T, F, '১ < ২', '২ < ১', 'শর্ত(১)', 'শর্ত(-১)', 'গ == ০', 'গ != ০']
    pre = ['নাম গ = ০;', 'ফাং শর্ত(ক) {', '    _দেখাও "c";', '    ফেরত ক > ০;', '} ফেরত;']
    lens = [1, 2, 3, 4] if tier == 'thorough' else [1, 2, 3]
    combos = []
    for n in lens:
        for tv in itertools.product([True, False], repeat=n):
            for e in (False, True):
                combos.append((tv, e))
    contexts = ['top', 'block', 'loop', 'chain', 'func', 'else', 'funcloop']
    hist_pairs = [(a, b) for a in range(len(HISTORIES)) for b in range(len(HISTORIES))] if tier == 'thorough' else None
    count = 0
    for tv, e in combos:
        for ctx in contexts:
            hs = hist_pairs if hist_pairs and len(tv) <= 2 else [(rng.randrange(len(HISTORIES)), rng.randrange(len(HISTORIES))) for _ in range(2 if tier != 'thorough' else 4)]
            for h1, h2 in hs:
                conds = []
                for b in tv:
                    pool = [T, '১ < ২', 'শর্ত(১)', 'গ == ০'] if b else [F, '২ < ১', 'শর্ত(-১)', 'গ != ০']
                    conds.append(rng.choice(pool))
                ch = chain_src(conds, e, 'শ')
                body = wrap_context(ch, ctx)
                src = prog(pre + HISTORIES[h1] + HISTORIES[h2] + body + ['দেখাও "পরে";'])
                alone = prog(pre + body + ['দেখাও "পরে";'])
                cases.append({'src': src, 'alone': alone, 'kind': 'chain len=%d ctx=%s hist=%d,%d' % (len(tv), ctx, h1, h2), 'hist_out': None})
                count += 1
    # non-boolean conditions
    for c in ['১', '"a"', '[]', 'শূ', '@{}']:
        cases.append({'src': prog(['নাম শূ;', 'দেখাও "আগে";', 'যদি %s {' % c, '    দেখাও "ভিতরে";', '}', 'দেখাও "পরে";']), 'alone': None, 'kind': 'nonbool'})
        cases.append({'src': prog(['নাম শূ;', 'যদি মিথ্যা {', '} অথবা যদি %s {' % c, '    দেখাও "ভিতরে";', '}', 'দেখাও "পরে";']), 'alone': None, 'kind': 'nonbool'})
    for src in P2.repeated_chain_programs(rng, 120 if tier != 'thorough' else 800):
        cases.append({'src': src, 'alone': None, 'kind': 'repeated-chain'})
    for c in P3.special_float_chain_programs() + P3.chain_junction_programs(rng, 80 if tier != 'thorough' else 600) + P4.chain_block_shape_programs(rng, 150 if tier != 'thorough' else 1000) + P4.jump_only_branch_programs() + \
             P5.chain_then_jump_programs(rng, 60 if tier != 'thorough' else 400) + P5.recursive_condition_programs() + P5.chain_edge_programs():
        cases.append(dict(c, alone=None))
    return cases


def ind(lines, n=1):
    return ['    ' * n + l for l in lines]


def wrap_context(body, ctx):
    if ctx == 'top': return body
    if ctx == 'block': return ['{'] + ind(body) + ['}']
    if ctx == 'loop':
        return ['নাম লগ = ০;', 'লুপ {', '    যদি লগ >= ২ {', '        থামাও;', '    }', '    লগ = লগ + ১;'] + ind(body) + ['} আবার;']
    if ctx == 'chain': return ['যদি সত্য {'] + ind(body) + ['} অথবা {', '    দেখাও "ভুল";', '}']
    if ctx == 'else': return ['যদি মিথ্যা {', '    দেখাও "ভুল";', '} অথবা {'] + ind(body) + ['}']
    if ctx == 'func': return ['ফাং মোড়ক() {'] + ind(body) + ['} ফেরত;', 'মোড়ক();', 'মোড়ক();']
    if ctx == 'funcloop':
        return ['ফাং মোড়ক২() {', '    নাম লগ = ০;', '    লুপ {', '        যদি লগ >= ২ {', '            ফেরত লগ;', '        }', '        লগ = লগ + ১;'] + ind(body, 2) + ['    } আবার;', '} ফেরত;', 'দেখাও মোড়ক২();']
    return body


def c03_cases(rng, tier):
    """loop nests with break/continue followed textually by nested loops, continue statements and blocks"""
    cases = []
    n = 1500 if tier == 'thorough' else 250
    for _ in range(n):
        cnt = [0]
        def loop(depth, infunc):
            cnt[0] += 1
            v = 'ল' + bn(cnt[0])
            lim = rng.randint(1, 3)
            b = ['নাম %s = ০;' % v, 'লুপ {', '    যদি %s >= %s {' % (v, bn(lim)), '        থামাও;', '    }', '    %s = %s + ১;' % (v, v),
                 '    নাম ভিতর%s = %s * ১০;' % (bn(cnt[0]), v)]
            for _ in range(rng.randint(0, 3)):
                k = rng.random()
                if k < 0.1:
                    # an explicit continue written directly after the '}' of a chain or of a bare block (everything after it
                    # in the body is dead); the loop's own closing continue is the one after the body's '}'
                    if rng.random() < 0.5:
                        b += ind(['যদি %s == ১ {' % v, '    _দেখাও "c";', '} অথবা {', '    _দেখাও "d";', '}', 'আবার;', '_দেখাও "মৃত";'])
                    else:
                        b += ind(['{', '    নাম ব্লক২ = %s;' % v, '    _দেখাও ব্লক২;', '}', 'আবার;', '_দেখাও "মৃত";'])
                elif k < 0.25:
                    nest = rng.randint(1, 3)
                    op = rng.choice(['থামাও;', 'আবার;'])
                    cond = rng.choice(['%s == ১' % v, '%s == ২' % v, T, F, '%s %% ২ == ০' % v])
                    seg = ['যদি %s {' % cond]
                    for j in range(nest - 1): seg = seg + ['    ' * (j + 1) + 'যদি সত্য {']
                    seg.append('    ' * nest + 'নাম টেম্প = ১;')
                    seg.append('    ' * nest + op)
                    for j in range(nest - 1, 0, -1): seg.append('    ' * j + '}')
                    seg.append('}')
                    b += ind(seg)
                elif k < 0.45 and depth < 3:
                    b += ind(loop(depth + 1, infunc))
                elif k < 0.6:
                    b += ind(['{', '    নাম ব্লক = %s;' % v, '    _দেখাও ব্লক;', '}'])
                elif k < 0.8:
                    b += ind(['_দেখাও %s;' % v])
                else:
                    b += ind(['যদি %s > ১ {' % v, '    _দেখাও "b";', '} অথবা {', '    _দেখাও "s";', '}'])
            b += ['} আবার;', 'দেখাও %s;' % v]
            return b
        body = loop(0, False)
        # variables declared in the body must be undefined afterwards
        tail = ['দেখাও "শেষ";']
        if rng.random() < 0.3: tail.append('দেখাও ভিতর১;')
        ctx = rng.choice(['top', 'top', 'func', 'block', 'chain'])
        pre = rng.choice(HISTORIES)
        cases.append({'src': prog(pre + wrap_context(body, ctx) + tail), 'kind': 'loops ctx=%s' % ctx})
    for src in function_depth_loop_programs(rng, n // 3):
        cases.append({'src': src, 'kind': 'loops function-depths'})
    # stray break / continue
    for s in [['থামাও;'], ['আবার;'], ['ফাং ফ() {', '    থামাও;', '} ফেরত;', 'লুপ {', '    ফ();', '    থামাও;', '} আবার;'],
              ['ফাং ফ() {', '    আবার;', '} ফেরত;', 'নাম ক = ০;', 'লুপ {', '    ক = ক + ১;', '    যদি ক > ২ {', '        থামাও;', '    }', '    ফ();', '} আবার;']]:
        cases.append({'src': prog(['দেখাও "আগে";'] + s + ['দেখাও "পরে";']), 'kind': 'stray'})
    for src in P2.loop_depth_programs(rng, 60 if tier != 'thorough' else 400):
        cases.append({'src': src, 'kind': 'loop-depths', 'budget': 60000})
    cases += P3.nested_loop_return_programs(rng, 60 if tier != 'thorough' else 400)
    cases += P4.many_locals_programs(rng, 80 if tier != 'thorough' else 500)
    cases += P5.jump_only_exit_programs(rng, 60 if tier != 'thorough' else 400)
    cases += P5.continue_after_block_programs(rng, 40 if tier != 'thorough' else 300)
    cases += P5.stale_name_cache_programs(rng, 30 if tier != 'thorough' else 200)
    return cases


def function_depth_loop_programs(rng, n):
    """a function containing a loop whose body shadows an outer variable, called from several block depths: the loop's
    recorded scope depth must be the one of THIS entry"""
    out = []
    for _ in range(n):
        lim = rng.randint(2, 4)
        body = ['ফাং ঘোর(ক) {', '    নাম বাইরে = ১০০;', '    নাম ই = ০;', '    লুপ {', '        যদি ই >= %s {' % bn(lim), '            থামাও;', '        }', '        ই = ই + ১;',
                '        _দেখাও বাইরে;', '        নাম বাইরে = ই;', '        যদি ই %s %s {' % (rng.choice(['==', '>', '<']), bn(rng.randint(1, 3))), '            নাম গভীর = ই * ২;',
                '            %s' % rng.choice(['আবার;', 'থামাও;', '_দেখাও গভীর;']), '        }', '        নাম পরে = ই + ক;', '        _দেখাও পরে;', '    } আবার;', '    দেখাও বাইরে;', '    ফেরত ই;', '} ফেরত;']
        calls = []
        for _ in range(rng.randint(2, 4)):
            c = ['দেখাও ঘোর(%s);' % bn(rng.randint(1, 9))]
            for _ in range(rng.randint(0, 3)):
                c = rng.choice([['যদি সত্য {'] + ind(c) + ['}'], ['{'] + ind(c) + ['}'], ['যদি মিথ্যা {', '} অথবা {'] + ind(c) + ['}']])
            calls += c
            if rng.random() < 0.5: calls.append('দেখাও গভীর;' if rng.random() < 0.3 else 'দেখাও "মাঝে";')
        out.append(prog(body + calls + ['দেখাও "শেষ";']))
    return out


def c05_cases(rng, tier):
    cases = []
    n = 1200 if tier == 'thorough' else 250
    for _ in range(n):
        ar = rng.randint(0, 4)
        params = ['প' + bn(i + 1) for i in range(ar)]
        # body: return from a random nesting
        ret_expr = rng.choice(['প১' if ar else '০', '(প১ + ১)' if ar else '১', '"s"', '[%s]' % ', '.join(params), '[%s]' % ', '.join(params), ''])
        nest = rng.randint(0, 3)
        body = ['নাম স্থানীয় = ১০০;']
        if ar: body.append('প১ = প১;')
        if rng.random() < 0.5 and ar >= 2: body.append('প২ = ৯৯;')
        inner = ['ফেরত %s;' % ret_expr if ret_expr else 'ফেরত;']
        for j in range(nest):
            kind = rng.choice(['if', 'loop', 'block', 'else'])
            if kind == 'if': inner = ['যদি সত্য {'] + ind(inner) + ['}']
            elif kind == 'else': inner = ['যদি মিথ্যা {', '} অথবা {'] + ind(inner) + ['}']
            elif kind == 'block': inner = ['{'] + ind(inner) + ['}']
            else: inner = ['লুপ {'] + ind(inner) + ['} আবার;']
        if rng.random() < 0.3: inner = ['যদি প১ == ৪২ {' if ar else 'যদি মিথ্যা {'] + ind(inner) + ['}']
        fdef = ['ফাং ফ(%s) {' % ', '.join(params)] + ind(body + inner) + ['} ফেরত;']
        nargs = rng.choice([ar, ar, ar, max(0, ar - 1), ar + 1, 0])
        args = [rng.choice(['১', '২', 'গ', 'স্থানীয়', '"x"', '[১]', 'প১', 'প১', 'প২', 'প১ + ১']) for _ in range(nargs)]
        call = 'ফ(%s)' % ', '.join(args)
        site = rng.choice(['stmt', 'operand', 'arg', 'cond', 'ret', 'loop', 'chain', 'decl', 'index'])
        pre = ['নাম গ = ৫;', 'নাম স্থানীয় = ৭;', 'নাম প১ = ৩;', 'নাম প২ = ৪;']
        if site == 'stmt': use = [call + ';']
        elif site == 'operand': use = ['দেখাও [%s, %s];' % (call, call)]
        elif site == 'arg': use = ['দেখাও _টাইপ(%s);' % call]
        elif site == 'cond': use = ['যদি _টাইপ(%s) == "_সংখ্যা" {' % call, '    দেখাও "num";', '} অথবা {', '    দেখাও "other";', '}']
        elif site == 'ret': use = ['ফাং বাইরে() {', '    ফেরত %s;' % call, '} ফেরত;', 'দেখাও _টাইপ(বাইরে());']
        elif site == 'loop': use = ['নাম ই = ০;', 'লুপ {', '    যদি ই >= ২ {', '        থামাও;', '    }', '    ই = ই + ১;', '    দেখাও _টাইপ(%s);' % call, '    যদি ই == ১ {', '        আবার;', '    }', '    দেখাও "শেষে";', '} আবার;']
        elif site == 'chain': use = ['যদি সত্য {', '    দেখাও _টাইপ(%s);' % call, '} অথবা {', '    দেখাও "ভুল";', '}']
        elif site == 'decl': use = ['নাম ফল = %s;' % call, 'দেখাও _টাইপ(ফল);']
        else: use = ['নাম তা = [১, ২, ৩];', 'দেখাও তা[_লিস্ট-লেন([%s]) - ১];' % call]
        post = ['দেখাও গ;', 'দেখাও স্থানীয়;', 'দেখাও প১;', 'দেখাও প২;']
        cases.append({'src': prog(pre + fdef + use + post), 'kind': 'call arity=%d args=%d site=%s nest=%d' % (ar, nargs, site, nest)})
    # recursion
    for d in ([5, 50, 200] if tier != 'thorough' else [5, 50, 200, 400]):
        cases.append({'src': prog(['ফাং গুণ(ন) {', '    যদি ন <= ১ {', '        ফেরত ১;', '    }', '    ফেরত ন * গুণ(ন - ১);', '} ফেরত;', 'দেখাও গুণ(%s);' % bn(min(d, 20)),
                                   'ফাং গভীর(ন) {', '    যদি ন <= ০ {', '        ফেরত ০;', '    }', '    ফেরত ১ + গভীর(ন - ১);', '} ফেরত;', 'দেখাও গভীর(%s);' % bn(d)]), 'kind': 'recursion', 'budget': 400000})
    cases.append({'src': prog(['ফাং জোড়(ন) {', '    যদি ন == ০ {', '        ফেরত সত্য;', '    }', '    ফেরত বিজোড়(ন - ১);', '} ফেরত;',
                               'ফাং বিজোড়(ন) {', '    যদি ন == ০ {', '        ফেরত মিথ্যা;', '    }', '    ফেরত জোড়(ন - ১);', '} ফেরত;', 'দেখাও জোড়(১০);', 'দেখাও জোড়(৭);']), 'kind': 'mutual'})
    for src in P2.arg_binding_programs(rng, 60 if tier != 'thorough' else 400):
        cases.append({'src': src, 'kind': 'argbind'})
    for src in P2.loop_depth_programs(rng, 60 if tier != 'thorough' else 400):
        cases.append({'src': src, 'kind': 'loop-depths', 'budget': 60000})
    cases += P2.callee_alloc_programs()
    cases += P3.closing_return_programs(rng, 80 if tier != 'thorough' else 500)
    cases += P4.higher_order_programs(rng, 80 if tier != 'thorough' else 500) + P4.self_tail_call_programs(rng, 40 if tier != 'thorough' else 300)
    cases += P5.surplus_argument_programs(rng, 60 if tier != 'thorough' else 400)
    cases += P5.prefix_return_programs()
    cases += P3.nested_loop_return_programs(rng, 20 if tier != 'thorough' else 100)
    return cases


# ------------------------------------------------------------------------------------------------ C04 scopes
def c04_cases(rng, tier):
    cases = P4.shadowed_scalar_index_programs() + P4.many_locals_programs(rng, 40 if tier != 'thorough' else 300) + P4.higher_order_programs(rng, 30 if tier != 'thorough' else 200)
    cases += P5.shadow_then_return_programs()
    for src in function_depth_loop_programs(rng, 40 if tier != 'thorough' else 300):
        cases.append({'src': src, 'kind': 'scopes function-depths'})
    n = 1500 if tier == 'thorough' else 300
    names = ['ক', 'খ', 'গ']
    for _ in range(n):
        lines = []
        val = [0]
        def block(depth, budget):
            for _ in range(rng.randint(1, 5)):
                if budget[0] <= 0: return
                budget[0] -= 1
                k = rng.random()
                x = rng.choice(names)
                val[0] += 1
                if k < 0.07:
                    # the initialiser of a declaration reads the name being declared (the outer / previous binding) or another name
                    y = rng.choice(names)
                    lines.append('    ' * depth + 'নাম %s = %s;' % (x, rng.choice(['%s', '[%s]', '_টাইপ(%s)', '[%s, %s]' % (y, '%s')]) % x if rng.random() < 0.7 else y))
                elif k < 0.25: lines.append('    ' * depth + 'নাম %s = %s;' % (x, bn(val[0]) if rng.random() < 0.7 else rng.choice(['[%s]', '@{"k" -> %s,}', '[[%s]]']) % bn(val[0])))
                elif k < 0.3: lines.append('    ' * depth + 'নাম %s;' % x)
                elif k < 0.5: lines.append('    ' * depth + '%s = %s;' % (x, bn(val[0])))
                elif k < 0.75: lines.append('    ' * depth + 'দেখাও %s;' % x)
                elif depth < 5:
                    kind = rng.choice(['block', 'if', 'else', 'loop', 'func'])
                    if kind == 'block':
                        lines.append('    ' * depth + '{'); block(depth + 1, budget); lines.append('    ' * depth + '}')
                    elif kind == 'if':
                        lines.append('    ' * depth + 'যদি সত্য {'); block(depth + 1, budget); lines.append('    ' * depth + '}')
                    elif kind == 'else':
                        lines.append('    ' * depth + 'যদি মিথ্যা {'); lines.append('    ' * depth + '} অথবা {'); block(depth + 1, budget); lines.append('    ' * depth + '}')
                    elif kind == 'loop':
                        v = 'ই' + bn(val[0])
                        lines.append('    ' * depth + 'নাম %s = ০;' % v)
                        lines.append('    ' * depth + 'লুপ {')
                        lines.append('    ' * (depth + 1) + 'যদি %s >= ২ {' % v); lines.append('    ' * (depth + 2) + 'থামাও;'); lines.append('    ' * (depth + 1) + '}')
                        lines.append('    ' * (depth + 1) + '%s = %s + ১;' % (v, v))
                        block(depth + 1, budget)
                        if rng.random() < 0.5:
                            lines.append('    ' * (depth + 1) + 'যদি %s == ১ {' % v)
                            lines.append('    ' * (depth + 2) + 'নাম %s = %s;' % (rng.choice(names), bn(val[0] + 500)))
                            lines.append('    ' * (depth + 2) + rng.choice(['আবার;', 'আবার;', 'থামাও;']))
                            lines.append('    ' * (depth + 1) + '}')
                            block(depth + 1, budget)
                        lines.append('    ' * depth + '} আবার;')
                    else:
                        f = 'ফ' + bn(val[0])
                        lines.append('    ' * depth + 'ফাং %s(%s) {' % (f, rng.choice(names)))
                        block(depth + 1, budget)
                        lines.append('    ' * depth + '} ফেরত;')
                        lines.append('    ' * depth + '%s(%s);' % (f, bn(val[0])))
        # mostly declared at top so that reads succeed
        for x in names:
            if rng.random() < 0.93: lines.append('নাম %s = %s;' % (x, bn(rng.randint(100, 999))))
        block(0, [rng.randint(6, 25)])
        for x in names: lines.append('দেখাও %s;' % x)
        cases.append({'src': prog(lines), 'kind': 'scopes'})
    for src in P2.arg_binding_programs(rng, 40 if tier != 'thorough' else 300):
        cases.append({'src': src, 'kind': 'argbind'})
    cases += P2.shadow_gc_programs(rng, 40 if tier != 'thorough' else 300)
    return cases


# ------------------------------------------------------------------------------------------------ C06 / C16 containers
def c06_cases(rng, tier):
    cases = []
    n = 1200 if tier == 'thorough' else 250
    for _ in range(n):
        lines = ['নাম ক = [১, [২, ৩], @{"k" -> [৪, ৫], "r" -> @{"z" -> ৬,},}, "s"];', 'নাম খ = ক;', 'নাম গ = ক[১];', 'নাম ঘ = ক[২];', 'নাম চ = ঘ["k"];',
                 'নাম র = @{"l" -> ক, "n" -> ১,};', 'ফাং একই(x) {', '    ফেরত x;', '} ফেরত;', 'নাম ছ = একই(গ);', 'নাম জ = গ + চ;', 'নাম সং = ১০;', 'নাম সং২ = সং;', 'নাম শব = "ক";', 'নাম শব২ = শব;']
        allv = ['ক', 'খ', 'গ', 'ঘ', 'চ', 'র', 'ছ', 'জ', 'সং', 'সং২', 'শব২']
        for _ in range(rng.randint(3, 30 if tier == 'thorough' else 12)):
            k = rng.random()
            v = bn(rng.randint(10, 99))
            if k < 0.15: lines.append('%s[%s] = %s;' % (rng.choice(['ক', 'খ']), rng.choice(['০', '৩', '০', '৩', '০', '৩', '৪', '-১']), v))
            elif k < 0.3: lines.append('%s[১][%s] = %s;' % (rng.choice(['ক', 'খ']), rng.choice(['০', '১', '০', '১', '০', '১', '২']), v))
            elif k < 0.4: lines.append('%s[২]["k"][%s] = %s;' % (rng.choice(['ক', 'খ']), rng.choice(['০', '১', '০', '১', '০', '১', '৫']), v))
            elif k < 0.5: lines.append('%s["%s"] = %s;' % (rng.choice(['ঘ', 'র']), rng.choice(['k', 'new', 'n']), rng.choice([v, '[' + v + ']'])))
            elif k < 0.55: lines.append('র["l"][২]["r"]["%s"] = %s;' % (rng.choice(['z', 'y']), v))
            elif k < 0.65: lines.append('_লিস্ট-পুশ(%s, %s);' % (rng.choice(['গ', 'ছ', 'চ', 'জ', 'ক']), v))
            elif k < 0.68: lines.append('_লিস্ট-পপ(%s);' % rng.choice(['জ', 'জ', 'গ', 'চ']))
            elif k < 0.8: lines.append('জ = জ + %s;' % rng.choice(['গ', 'চ', '[' + v + ']']))
            elif k < 0.85: lines.append('সং = সং + ১;');
            elif k < 0.9: lines.append('শব = শব + "খ";')
            elif k < 0.95: lines.append('গ[০] = গ;' if rng.random() < 0.2 else 'গ[০] = [%s];' % v)
            elif rng.random() < 0.3: lines.append('ঘ["missing"]["x"] = ১;' if rng.random() < 0.3 else 'ক[১][৯] = ১;')
            if 'গ[০] = গ;' in lines: break        # cyclic value: printing it would not terminate
            if rng.random() < 0.08: lines += P2.record_reuse_lines(rng)
            if rng.random() < 0.08: lines += ['নাম ঝ = %s + %s;' % (rng.choice(['একই(গ)', '(গ)', 'ক[১]', 'গ + []', '[] + গ']), rng.choice(['চ', '[]', '[%s]' % v])), '_লিস্ট-পুশ(ঝ, %s);' % v, 'দেখাও ঝ;']
            lines.append('দেখাও [ক[০], ক[১], ক[৩]]; দেখাও ঘ["k"]; দেখাও [গ, চ, ছ, জ]; দেখাও [সং, সং২]; দেখাও শব২;')
        cases.append({'src': prog(lines), 'kind': 'alias'})
    for src in P2.concat_fresh_programs(rng, 60 if tier != 'thorough' else 60):
        cases.append({'src': src, 'kind': 'concat-fresh'})
    for _ in range(10):
        cases.append({'src': prog(['নাম ধরে = [[১], [২], [৩]];'] + P2.record_reuse_lines(rng) + P2.record_reuse_lines(rng)), 'kind': 'record-reuse'})
    cases += P3.self_containing_programs(rng, 60 if tier != 'thorough' else 400)
    k4 = 60 if tier != 'thorough' else 400
    cases += P4.assignment_order_programs(rng, k4) + P4.expression_statement_programs(rng, k4) + P4.concat_nested_identity_programs(rng, k4) + P4.shadowed_scalar_index_programs()
    cases += P5.held_while_callee_allocates_programs() + P5.multi_level_assignment_programs(rng, 20 if tier != 'thorough' else 150)
    cases += P5.fractional_index_programs(rng, 20 if tier != 'thorough' else 150) + P5.record_only_gc_programs()
    cases += P5.shadowed_root_programs()
    return cases


def c16_cases(rng, tier):
    cases = []
    n = 1200 if tier == 'thorough' else 250
    for _ in range(n):
        lines = ['নাম ল = [];', 'নাম ল২ = ল;']
        length = 0
        steps = rng.randint(1, 40 if tier == 'thorough' else 15)
        # an invalid operation ends the program: at most one, as the last operation (half of the programs have one)
        bad_at = steps - 1 if rng.random() < 0.5 else -1
        for step in range(steps):
            k = rng.random()
            v = bn(rng.randint(0, 99))
            target = rng.choice(['ল', 'ল২'])
            bad_pos = [bn(length + 1), bn(length + 2), '-১', '-০.৫', '১০০০০০০০০০০০০০০০০০০০০০', '০ / ০', '১ / ০', '"a"', 'সত্য', '[০]']
            if step == bad_at:
                lines.append(rng.choice(['_লিস্ট-পুশ(%s, %s, %s);' % (target, rng.choice(bad_pos), v), '_লিস্ট-পপ(%s, %s);' % (target, rng.choice(bad_pos + [bn(length)])), '%s[%s] = %s;' % (target, rng.choice(bad_pos[:7] + [bn(length)]), v),
                                         '_লিস্ট-পুশ(%s);' % rng.choice(['"না"', '৫', 'ল', '']), '_লিস্ট-পপ(%s);' % rng.choice(['"না"', '', 'ল, ০, ১']), 'দেখাও ল[%s];' % rng.choice(bad_pos[:7] + [bn(length)]), '_লিস্ট-পপ([]);' if length == 0 else '_লিস্ট-লেন(ল, ল);']))
            else:
                def pos(hi):      # a valid position in 0..hi, sometimes fractional (truncated) or written as an expression
                    q = rng.randint(0, max(0, hi))
                    return rng.choice([bn(q), bn(q), '%s.৫' % bn(q) if q < hi else bn(q), '%s + ০' % bn(q), '_লিস্ট-লেন(ল) - %s' % bn(length - q)])
                if k < 0.3: lines.append('_লিস্ট-পুশ(%s, %s);' % (target, v)); length += 1
                elif k < 0.55: lines.append('_লিস্ট-পুশ(%s, %s, %s);' % (target, pos(length), v)); length += 1
                elif k < 0.65 and length > 0: lines.append('_লিস্ট-পপ(%s);' % target); length -= 1
                elif k < 0.8 and length > 0: lines.append('_লিস্ট-পপ(%s, %s);' % (target, pos(length - 1))); length -= 1
                elif k < 0.9 and length > 0: lines.append('%s[%s] = %s;' % (target, pos(length - 1), v))
                elif k < 0.95: lines.append('ল = ল + [%s];' % v); lines.append('ল২ = ল;'); length += 1
                else: lines.append('_লিস্ট-পুশ(%s, [%s]);' % (target, v)); length += 1
            lines.append('দেখাও ল; দেখাও _লিস্ট-লেন(ল২);')
        cases.append({'src': prog(lines), 'kind': 'listops'})
    for src in P2.concat_fresh_programs(rng, 60):
        cases.append({'src': src, 'kind': 'concat-fresh'})
    cases += P4.expression_statement_programs(rng, 60 if tier != 'thorough' else 400)
    cases += P5.multi_level_assignment_programs(rng, 40 if tier != 'thorough' else 300) + P5.held_while_callee_allocates_programs()
    cases += P5.shadowed_root_programs()
    return cases


# ------------------------------------------------------------------------------------------------ C17 text
def c17_cases(rng, tier):
    cases = []
    alpha = ['a', 'b', 'ক']
    def rs(n): return ''.join(rng.choice(alpha) for _ in range(n))
    pairs = []
    if tier == 'thorough':
        for n in range(0, 7):
            for s in itertools.product('ab', repeat=n):
                for m in range(0, 3):
                    for sep in itertools.product('ab', repeat=m):
                        pairs.append((''.join(s), ''.join(sep)))
    else:
        for s in ['', 'a', 'aa', 'aaa', 'ab', 'aba', 'abab', ',a,', ',', ',,', 'a,b', 'a,,b', 'ক,খ', 'এবংএবং']:
            for sep in ['', 'a', 'aa', 'ab', ',', 'এবং', 'ক']:
                pairs.append((s, sep))
        for _ in range(300): pairs.append((rs(rng.randint(0, 8)), rs(rng.randint(0, 3))))
    for s, sep in pairs:
        cases.append({'src': prog(['নাম ভাগ = _স্ট্রিং-স্প্লিট("%s", "%s");' % (s, sep), 'দেখাও ভাগ;', 'দেখাও _লিস্ট-লেন(ভাগ);', 'দেখাও _স্ট্রিং-জয়েন(ভাগ, "%s");' % sep]),
                      'kind': 'split', 's': s, 'sep': sep})
    lists = [['a', ''], ['', ''], ['x'], ['', 'a', ''], ['ab', 'ba'], ['a', 'b', 'c'], ['']] + [[rs(rng.randint(0, 3)) for _ in range(rng.randint(1, 4))] for _ in range(100 if tier != 'thorough' else 1000)]
    for l in lists:
        for sep in [',', '-', 'aa', 'ab', '', 'ক']:
            lit = '[' + ', '.join('"%s"' % x for x in l) + ']'
            cases.append({'src': prog(['নাম জোড়া = _স্ট্রিং-জয়েন(%s, "%s");' % (lit, sep), 'দেখাও জোড়া;', 'দেখাও _স্ট্রিং-স্প্লিট(জোড়া, "%s");' % sep]),
                          'kind': 'join', 'list': l, 'sep': sep})
    for l in lists[:40]:
        lit = '[' + ', '.join('"%s"' % x for x in l) + ']'
        cases.append({'src': prog(['নাম তা = %s;' % lit, 'নাম তা২ = তা;', 'দেখাও _স্ট্রিং-জয়েন(তা, ",");', 'দেখাও তা;', 'দেখাও _স্ট্রিং-জয়েন(তা২, "-");', 'দেখাও _লিস্ট-লেন(তা);',
                                   'দেখাও _স্ট্রিং-স্প্লিট(_স্ট্রিং-জয়েন(তা, "|"), "|");', 'দেখাও তা২;']), 'kind': 'join-reuse'})
    for s_, sep in [('x===>y==>z', '==>'), ('xaaaby', 'aab'), ('aaab', 'aab'), ('aabaab', 'aab'), ('কককখগ', 'ককখ'), ('ababac', 'abac'), ('aaa', 'aa'), ('aaaa', 'aa'), ('abababa', 'aba'),
                    ('নাম,বয়স,,', ','), (',,', ','), ('a,', ','), ('aaaa', 'a'),
                    ('ক।', '।'), ('।', '।'), ('ক।।খ', '।।'), ('কখ', 'কখগ'), ('অ', 'অআ'), ('ক খ', ' '), ('এক—দুই', '—'), ('😀a😀', '😀')]:
        cases.append({'src': prog(['নাম ভাগ = _স্ট্রিং-স্প্লিট("%s", "%s");' % (s_, sep), 'দেখাও ভাগ;', 'দেখাও _লিস্ট-লেন(ভাগ);', 'দেখাও _স্ট্রিং-জয়েন(ভাগ, "%s");' % sep]), 'kind': 'split', 's': s_, 'sep': sep})
    for e in ['১', '"a"', 'সত্য', '[১]', '@{}', 'শূ', 'ফ', '_টাইপ(১)']:
        cases.append({'src': prog(['নাম শূ;', 'ফাং ফ() {', '} ফেরত;', 'দেখাও _টাইপ(%s);' % e]), 'kind': 'type'})
    for bad in ['_টাইপ()', '_টাইপ(১, ২)', '_স্ট্রিং-স্প্লিট("a")', '_স্ট্রিং-স্প্লিট("a", ১)', '_স্ট্রিং-স্প্লিট(১, "a")', '_স্ট্রিং-জয়েন(["a"])', '_স্ট্রিং-জয়েন(["a", ১], ",")', '_স্ট্রিং-জয়েন("a", ",")', '_স্ট্রিং-জয়েন(["a"], ১)', '_স্ট্রিং-স্প্লিট("a", "b", "c")']:
        cases.append({'src': prog(['দেখাও "আগে";', 'দেখাও %s;' % bad, 'দেখাও "পরে";']), 'kind': 'badargs'})
    cases += P3.text_oddities() + P4.unbound_split_programs(rng, 20 if tier != 'thorough' else 100) + P4.file_text_split_programs()
    cases += P5.join_fault_programs()
    return cases


# ------------------------------------------------------------------------------------------------ C18 print
def c18_cases(rng, tier):
    cases = []
    n = 1000 if tier == 'thorough' else 200
    scal = ['১', '-০', '০.৫', '১০০০০০০০০০০০০০০০০০০০০০০', '০.০০০০০০১', 'সত্য', 'মিথ্যা', '"শব্দ"', '""', '"a b"']
    def val(d):
        k = rng.random()
        if d >= 4 or k < 0.35: return rng.choice(scal)
        if k < 0.7: return '[' + ', '.join(val(d + 1) for _ in range(rng.randint(0, 3))) + ']'
        keys = rng.sample(['"ক"', '"খ"', '"গ"', '"নাম"', '"বয়স"', '"a\\b"', '"ট্যাব\tএখানে"', '"k q"', '"\'"'], rng.randint(0, 3))
        return '@{' + ' '.join('%s -> %s,' % (k_, val(d + 1)) for k_ in keys) + '}'
    for _ in range(n):
        lines = ['নাম ভাগা = [১, "দুই"];', 'নাম রে = @{"ক" -> ১,};']
        for _ in range(rng.randint(1, 6)):
            k = rng.random()
            v = val(0)
            if rng.random() < 0.2: v = rng.choice(['[ভাগা, ভাগা]', '[রে, [রে]]', '@{"x" -> ভাগা, "y" -> ভাগা,}', 'ভাগা', 'রে'])
            if k < 0.4: lines.append('দেখাও %s;' % v)
            elif k < 0.7: lines.append('_দেখাও %s;' % v)
            elif k < 0.8: lines.append('নাম ট = %s;' % v)
            elif k < 0.85: lines.append('যদি সত্য {'); lines.append('    _দেখাও %s;' % v); lines.append('}')
            elif k < 0.9: lines.append(rng.choice(['দেখাও শূ;', 'দেখাও [১, শূ];', 'দেখাও ফ;', '_দেখাও @{"k" -> ফ,};', 'দেখাও [১, ১০ / ০];', '_দেখাও শূ;', 'দেখাও ০ / ০;']))
            else: lines.append('_লিস্ট-পুশ(ভাগা, %s);' % rng.choice(scal))
        cases.append({'src': prog(['নাম শূ;', 'ফাং ফ() {', '} ফেরত;'] + lines), 'kind': 'print'})
    cases += P3.big_print_programs() + P4.print_state_programs(rng, 150 if tier != 'thorough' else 1000)
    return cases


# ------------------------------------------------------------------------------------------------ C13 faults
FAULTS = [('type', '১ + "a"'), ('type', '"a" * ২'), ('type', '-"a"'), ('type', '!১'), ('type', 'সত্য & ১'), ('type', '১ < "a"'), ('undecl', 'অজানা'), ('undecl', 'অজানা()'),
          ('builtin', '_লিস্ট-লেন(১)'), ('builtin', '_সংখ্যা("abc")'), ('builtin', '_স্ট্রিং("a")'), ('builtin', '_লিস্ট-পপ([১], ৫)'), ('index', 'তা[৫]'), ('index', 'তা[-১]'), ('index', 'তা[০ / ০]'),
          ('key', 'রে["নাই"]'), ('user', '_এরর("বার্তা এক")'), ('user', '_এরর("")'), ('user', '_এরর(১)'), ('call', 'তা()'), ('index', 'তা["k"]'), ('index', 'রে[০]'), ('index', '১[০]'),
          ('builtin', '_রিড-ফাইল("নাই.txt")'), ('print', 'শূ'),
          # positions exactly at and just past the ends of a list (তা has two elements)
          ('builtin', '_লিস্ট-পপ(তা, ২)'), ('builtin', '_লিস্ট-পপ([১], ১)'), ('builtin', '_লিস্ট-পপ([], ০)'), ('builtin', '_লিস্ট-পপ(তা, _লিস্ট-লেন(তা))'),
          ('builtin', '_লিস্ট-পুশ(তা, ৩, ০)'), ('builtin', '_লিস্ট-পুশ(তা, -১, ০)'), ('builtin', '_লিস্ট-পুশ([], ১, ০)'), ('index', 'তা[২]'), ('index', 'তা[_লিস্ট-লেন(তা)]')]
FAULTS += P3.EXTRA_FAULTS
BUILTIN_FAULTS = P4.builtin_argument_faults()


def c13_cases(rng, tier):
    cases = []
    pre = ['নাম তা = [১, ২];', 'নাম রে = @{"k" -> ১,};', 'নাম শূ;', 'দেখাও "আগে";']
    shapes = ['print', 'printn', 'decl', 'assign', 'exprstmt', 'cond', 'elsecond', 'ret', 'arg', 'index', 'listlit', 'reclit', 'reckey', 'recnested', 'idxassign', 'idxassign2', 'operand', 'callarg', 'unary']
    depths = [0, 1, 2, 3]
    combos = [(f, s, d, m) for f in FAULTS for s in shapes for d in depths for m in (False, True)]
    if tier != 'thorough': combos = rng.sample(combos, 400)
    else: combos = rng.sample(combos, 2500)
    # every fault at least once in the plainest position, whatever the seed
    combos = [(f, 'decl', 0, False) for f in FAULTS if f[0] != 'print'] + [(f, 'print', 1, False) for f in FAULTS] + combos
    for (fk, fe), shape, depth, inmod in combos:
        # lines before the program proper: comments and strings that span lines, end a line with a backslash, hold a lone quote
        head = rng.choice(P3.FAULT_PREFIX_COMMENTS) if rng.random() < 0.35 else []
        if shape == 'print': st = ['দেখাও %s;' % fe]
        elif shape == 'printn': st = ['_দেখাও %s;' % fe]
        elif shape == 'decl': st = ['নাম ন =', '    %s;' % fe]
        elif shape == 'assign': st = ['তা = %s;' % fe]
        elif shape == 'exprstmt': st = ['_টাইপ(%s);' % fe] if not fe.endswith(')') else ['%s;' % fe]
        elif shape == 'cond': st = ['যদি %s == ১' % fe, '{', '    দেখাও "ভিতরে";', '}']
        elif shape == 'elsecond': st = ['যদি মিথ্যা {', '} অথবা যদি %s == ১ {' % fe, '    দেখাও "ভিতরে";', '}']
        elif shape == 'ret': st = ['ফাং রফ() {', '    ফেরত %s;' % fe, '} ফেরত;', 'রফ();']
        elif shape == 'arg': st = ['_টাইপ(১,', '    %s);' % fe]
        elif shape == 'index': st = ['দেখাও তা[_লিস্ট-লেন([%s])];' % fe]
        elif shape == 'listlit': st = ['দেখাও [১,', '    %s, ৩];' % fe]
        elif shape == 'reclit': st = ['দেখাও @{"a" -> %s,};' % fe]
        elif shape == 'idxassign': st = ['তা[%s] = ১;' % fe]
        elif shape == 'reckey': st = ['নাম ন = @{"a" -> ১, %s -> ২,};' % fe, 'দেখাও ন;']
        elif shape == 'recnested': st = ['নাম ন = [@{"a" -> [%s],}];' % fe, 'দেখাও ন;']
        elif shape == 'idxassign2': st = ['তা[০] = %s;' % fe, 'দেখাও তা;']
        elif shape == 'callarg': st = ['ফাং নফ(ক, খ) {', '    দেখাও "নফ";', '    ফেরত ক;', '} ফেরত;', 'দেখাও নফ(১, %s);' % fe]
        elif shape == 'unary': st = ['দেখাও -(%s);' % fe]
        else: st = ['দেখাও ১ + (২ * %s);' % fe]
        if fk == 'print' and shape not in ('print', 'printn', 'listlit', 'reclit', 'recnested'): continue
        body = st
        for d in range(depth):
            body = ['ফাং স্তর%s() {' % bn(d)] + ind(['দেখাও "স্তর%s";' % bn(d)] + body + ['দেখাও "ফিরে";']) + ['} ফেরত;', 'স্তর%s();' % bn(d)]
        tail = ['দেখাও "পরে";']
        if inmod:
            mod = prog(head + pre + body + tail)
            main = prog(['দেখাও "মূল";', '', 'মডিউল ম = "mods/lib.pakhi";', 'দেখাও "মূল পরে";'])
            cases.append({'src': main, 'files': [('mods/lib.pakhi', mod)], 'kind': 'fault %s shape=%s depth=%d module' % (fk, shape, depth)})
        else:
            cases.append({'src': prog(head + pre + body + tail), 'kind': 'fault %s shape=%s depth=%d' % (fk, shape, depth)})
    for nb in ['১', '"a"', 'তা', 'শূ', 'রে', '১ + ১', '_টাইপ(১)']:
        for depth in (0, 1, 2):
            for inmod in (False, True):
                for form in (0, 1, 2):
                    if form == 0: st = ['যদি %s' % nb, '', '{', '    দেখাও "ভিতরে";', '}']
                    elif form == 1: st = ['যদি মিথ্যা {', '} অথবা যদি %s' % nb, '{', '    দেখাও "ভিতরে";', '}']
                    else: st = ['যদি', '    %s {' % nb, '    দেখাও "ভিতরে";', '}']
                    body = st
                    for d in range(depth):
                        body = ['ফাং স্তর%s() {' % bn(d)] + ind(['দেখাও "স্তর%s";' % bn(d)] + body) + ['} ফেরত;', 'স্তর%s();' % bn(d)]
                    if inmod:
                        cases.append({'src': prog(['দেখাও "মূল";', 'মডিউল ম = "mods/lib.pakhi";']), 'files': [('mods/lib.pakhi', prog(pre + body + ['দেখাও "পরে";']))], 'kind': 'fault nonbool-cond module'})
                    else:
                        cases.append({'src': prog(pre + body + ['দেখাও "পরে";']), 'kind': 'fault nonbool-cond'})
    # a name declared in an iteration that was abandoned by a mid-body continue (or in a block left by break / return) is
    # undeclared afterwards: using it is a located runtime error, not a stale value
    for nest in (1, 2, 3):
        for where in ('top', 'func', 'module'):
            for leave in ('আবার;', 'থামাও;'):
                inner = ['নাম বার্তা = "প্রথম";', 'দেখাও বার্তা;', leave]
                for j in range(nest - 1): inner = ['যদি সত্য {'] + ind(inner) + ['}']
                body = ['নাম i = ০;', 'লুপ {', '    i = i + ১;', '    যদি i > ৩ {', '        থামাও;', '    }', '    যদি i == ১ {'] + ind(inner, 2) + ['    }', '    দেখাও i;', '    দেখাও বার্তা;', '} আবার;', 'দেখাও "লুপের পরে";', 'দেখাও বার্তা;', 'দেখাও "শেষ";']
                if where == 'func': body = ['ফাং কাজ() {'] + ind(body) + ['} ফেরত;', 'কাজ();', 'দেখাও "ফিরে";']
                if where == 'module':
                    cases.append({'src': prog(['দেখাও "মূল";', 'মডিউল ম = "mods/lib.pakhi";', 'দেখাও "মূল পরে";']), 'files': [('mods/lib.pakhi', prog(body))], 'kind': 'fault stale-name module'})
                else:
                    cases.append({'src': prog(body), 'kind': 'fault stale-name'})
    cases += P3.negative_fraction_write_programs() + P4.statement_fault_programs()
    cases += P5.string_newline_fault_programs()
    cases += P5.multi_line_print_fault_programs()
    # every built-in with wrong argument counts / types, in two plain positions
    for fk, fe in (BUILTIN_FAULTS if tier == 'thorough' else rng.sample(BUILTIN_FAULTS, 160)):
        cases.append({'src': prog(pre + ['ফাং ফ() {', '} ফেরত;', 'দেখাও "১";', 'নাম ফল = %s;' % fe, 'দেখাও _টাইপ(ফল);', 'দেখাও "পরে";']), 'kind': 'fault builtin-args'})
    cases += P4.assignment_order_programs(rng, 100 if tier != 'thorough' else 600) + P4.higher_order_programs(rng, 40 if tier != 'thorough' else 300)
    # structural faults
    for s in [['}'], ['যদি মিথ্যা {'], ['অথবা {', '}'], ['ফাং ফ() {'], ['ফাং ফ()', 'দেখাও ১;'], ['লুপ {', '}'], ['ফেরত ১;'], ['ফাং', 'দেখাও ১;'], ['যদি মিথ্যা', 'দেখাও ১;']]:
        cases.append({'src': prog(['দেখাও "আগে";'] + s + ['দেখাও "পরে";']), 'kind': 'structural'})
    # D27: several loop keywords sharing one closing continue left a stale loop entry; two of them let a function
    # return with fewer scopes than it was called with (subtract with overflow)
    cases.append({'src': prog(['নাম গ = ০;', 'ফাং টগল() { গ = গ + ১; ফেরত গ < ৩; } ফেরত;', 'ফাং চ() {', '  { লুপ লুপ লুপ { থামাও; } আবার; }', '  যদি টগল() থামাও; { }', '} ফেরত;',
                               '{ চ(); দেখাও "পরে"; }', 'দেখাও "শেষ";']), 'kind': 'structural D27'})
    cases.append({'src': prog(['দেখাও "আগে";', 'লুপ দেখাও ১; { থামাও; } আবার;', 'দেখাও "পরে";']), 'kind': 'structural D27'})
    # structure soup: block, loop, chain, function and jump markers in arbitrary order, at top level and inside a
    # function called from inside a block; every outcome but a panic or a hang is acceptable, and the model must agree
    atoms = ['লুপ', '{', '}', '} আবার;', 'আবার;', 'থামাও;', 'যদি ট()', 'যদি সত্য', 'যদি মিথ্যা', 'অথবা', '} অথবা {', 'ফেরত;', 'ফেরত ১;', 'দেখাও ১;', 'চ();', 'ফাং ছ()', '} ফেরত;', 'ছ();', 'নাম স = ১;']
    n = 3000 if tier == 'thorough' else 400
    for _ in range(n):
        k = rng.randint(2, 14)
        soup = [rng.choice(atoms) for _ in range(k)]
        if rng.random() < 0.6:
            # bias towards balanced braces: wrap a random slice in a block or a loop
            i = rng.randint(0, len(soup)); j = rng.randint(i, len(soup))
            wrap = rng.choice([('{', '}'), ('লুপ {', '} আবার;'), ('যদি ট() {', '}'), ('লুপ লুপ {', '} আবার;')])
            soup = soup[:i] + [wrap[0]] + soup[i:j] + [wrap[1]] + soup[j:]
        head = ['নাম গ = ০;', 'ফাং ট() { গ = গ + ১; ফেরত গ % ৩ != ০; } ফেরত;']
        if rng.random() < 0.5:
            src = head + ['ফাং চ() {'] + soup + ['} ফেরত;', '{ চ(); দেখাও "পরে"; }', 'দেখাও "শেষ";']
        else:
            src = head + ['ফাং চ() { দেখাও "চ"; } ফেরত;'] + soup + ['দেখাও "শেষ";']
        cases.append({'src': prog(src), 'kind': 'structure-soup'})
    return cases


# ------------------------------------------------------------------------------------------------ C07 / C08 gc
def c07_programs(rng, tier):
    cases = []
    n = 400 if tier == 'thorough' else 80
    for _ in range(n):
        lines = ['নাম রাখা = [[১, ২], @{"k" -> [৩],}];', 'নাম চক্র = [১];', 'চক্র[০] = চক্র;' if rng.random() < 0.3 else 'নাম বাদ = ০;', 'নাম রেকর্ড = @{"নিজে" -> ১,};',
                 'রেকর্ড["তালিকা"] = রাখা;', 'ফাং তৈরি(ন) {', '    নাম স্থানীয় = [ন, [ন]];', '    নাম ফেলা = [ন, ন, ন] + [ন];', '    ফেরত স্থানীয়;', '} ফেরত;']
        for _ in range(rng.randint(3, 14)):
            k = rng.random()
            v = bn(rng.randint(1, 50))
            if k < 0.2: lines.append('নাম টেম্প%s = [%s, [%s], @{"a" -> %s,}];' % (v, v, v, v))
            elif k < 0.35: lines.append('রাখা[০] = রাখা[০] + [%s];' % v)
            elif k < 0.45: lines.append('{'); lines.append('    নাম ভিতরে = তৈরি(%s);' % v); lines.append('    দেখাও ভিতরে;'); lines.append('}')
            elif k < 0.55: lines.append('দেখাও তৈরি(%s);' % v)
            elif k < 0.65: lines.append('নাম ই%s = ০;' % v); lines += ['লুপ {', '    যদি ই%s >= ৩ {' % v, '        থামাও;', '    }', '    ই%s = ই%s + ১;' % (v, v), '    নাম আবর্জনা = [ই%s, [ই%s]] + [১];' % (v, v), '    _লিস্ট-পুশ(রাখা[০], ই%s);' % v, '} আবার;']
            elif k < 0.75: lines.append('রেকর্ড["%s"] = @{"গভীর" -> [%s],};' % (rng.choice(['x', 'y']), v))
            elif k < 0.85: lines.append('দেখাও রাখা; দেখাও রেকর্ড["তালিকা"][১]["k"]; দেখাও _লিস্ট-লেন(চক্র);')
            elif k < 0.92: lines.append('নাম ভাগ%s = _স্ট্রিং-স্প্লিট("a,b,c", ",");' % v)
            else: lines.append('রাখা = [রাখা[০], রাখা[১]];')
        lines.append('দেখাও রাখা; দেখাও রেকর্ড["নিজে"]; দেখাও _লিস্ট-লেন(চক্র);')
        cases.append({'src': prog(lines), 'kind': 'gc-program'})
    big = ['ফাং বড়(ন) {', '    নাম ই = ০;', '    লুপ {', '        যদি ই >= ন {', '            থামাও;', '        }', '        ই = ই + ১;',
           '        নাম আবর্জনা = [' + ', '.join(['ই'] * 60) + '];', '        নাম আবর্জনা২ = @{"a" -> [ই],};', '    } আবার;', '    ফেরত [ন];', '} ফেরত;',
           'ফাং জোড়া(ক, খ) {', '    ফেরত [ক, খ];', '} ফেরত;']
    for _ in range(n // 4 + 2):
        lines = list(big)
        lines.append('নাম ধরা = [[৭, ৮], @{"k" -> [৯],}];')
        for _ in range(rng.randint(1, 4)):
            N = bn(rng.choice([3, 20, 40]))
            lines.append(rng.choice(['দেখাও [[১, ২], বড়(%s)];' % N, 'দেখাও জোড়া([৩, ৪] + [৫], বড়(%s));' % N, 'নাম রক = @{"a" -> [১], "b" -> বড়(%s),}; দেখাও রক["a"];' % N,
                                     'নাম ফল%s = [[১, ২], বড়(%s), @{"x" -> [৩],}];' % (N, N), 'নাম জফ = জোড়া(@{"r" -> [১, ২],}, বড়(%s)); দেখাও জফ[০]["r"];' % N, 'বড়(%s);' % N]))
            lines.append('দেখাও ধরা;')
        cases.append({'src': prog(lines), 'kind': 'gc-midexpr', 'budget': 20000})
    cases += P2.shadow_gc_programs(rng, 30 if tier != 'thorough' else 200)
    for _ in range(6):
        cases.append({'src': prog(['নাম ধরে = [[১], [২], [৩]];'] + P2.record_reuse_lines(rng) + P2.record_reuse_lines(rng)), 'kind': 'record-reuse'})
    # long live chains: only sparse schedules (the model's collector is quadratic in the number of live containers)
    for c in P3.deep_chain_programs():
        if c['N'] == 1500: cases.append(dict(c, scheds=['e', 'n', '0' * 997 + '1']))
    for c in P3.temporaries_programs(rng, 2):
        cases.append(dict(c, scheds=['e', 'n', '0' * 211 + '1']))
    cases += P4.gc_root_programs(rng, 10 if tier != 'thorough' else 60)
    cases += P5.record_only_gc_programs()
    cases += P5.shadowed_root_programs()
    return cases


def c08_programs(rng, tier):
    cases = []
    Ns = [300, 1200] if tier != 'thorough' else [500, 2000, 8000]
    bodies = {
        'empty-list': 'নাম ট = [];', 'empty-rec': 'নাম ট = @{};', 'one': 'নাম ট = [ই];', 'seven': 'নাম ট = [ই, ই, ই, ই, ই, ই, ই];',
        'concat': 'নাম ট = [ই] + [ই, ই];', 'split': 'নাম ট = _স্ট্রিং-স্প্লিট("a,b", ",");', 'split-empty': 'নাম ট = _স্ট্রিং-স্প্লিট("", ",");',
        'nested': 'নাম ট = [[ই], @{"k" -> [ই],}];', 'mixed': 'নাম ট = [ই] + _স্ট্রিং-স্প্লিট("x y", " "); নাম ঠ = @{"a" -> ট,};',
        'index-write': 'রাখা[০] = ই;', 'cycle': 'নাম ট = [ই]; ট[০] = ট;', 'reccycle': 'নাম ট = @{"a" -> ১,}; ট["a"] = ট;',
        'continue-in-if': 'নাম ট = [ই, ই]; যদি ই % ২ == ০ { আবার; } নাম ঠ = @{"a" -> ট,};', 'continue-nested': 'নাম ট = [ই]; যদি ই % ৩ != ০ { { আবার; } } নাম ঠ = [ট];',
    }
    preludes = {'': [],
                'after-records-': ['নাম পূ = ০;', 'লুপ {', '    যদি পূ >= ৭০০ {', '        থামাও;', '    }', '    পূ = পূ + ১;', '    নাম পূর = @{"a" -> পূ,};', '} আবার;'],
                'after-lists-': ['নাম পূ = ০;', 'লুপ {', '    যদি পূ >= ৭০০ {', '        থামাও;', '    }', '    পূ = পূ + ১;', '    নাম পূর = [পূ];', '} আবার;']}
    for name, body in bodies.items():
      for pname, pre in preludes.items():
        if pname and name not in ('one', 'empty-rec', 'concat', 'split', 'nested'): continue
        for N in Ns:
            name2 = pname + name
            src = prog(pre + ['নাম রাখা = [০];', 'নাম ই = ০;', 'লুপ {', '    যদি ই >= %s {' % bn(N), '        থামাও;', '    }', '    ই = ই + ১;', '    ' + body, '} আবার;', 'দেখাও ই;'])
            cases.append({'src': src, 'kind': 'alloc-loop %s' % name2, 'route': name2, 'N': N, 'budget': 40 * N + 30000})
    cases += [c for c in P3.deep_chain_programs() if c['live'] > 1000]
    for wname, wpre, wsuf, _ in P4.nested_alloc_wrappers():
        for name in ('one', 'empty-rec', 'split', 'nested'):
            for N in Ns:
                inner = ['নাম ই = ০;', 'লুপ {', '    যদি ই >= %s {' % bn(N), '        থামাও;', '    }', '    ই = ই + ১;', '    ' + bodies[name], '} আবার;']
                src = prog(['নাম রাখা = [০];'] + wpre + ind(inner) + wsuf + ['দেখাও "শেষ";'])
                cases.append({'src': src, 'kind': 'alloc-loop %s' % (wname + name), 'route': wname + name, 'N': N, 'budget': 40 * N + 30000})
    return cases


# ------------------------------------------------------------------------------------------------ C09 numbers
def c09_literal_cases(rng, tier):
    cases = []
    lits = ['১.০৫', '০.০০১', '২.২৮', '০.১', '০.৩', '১০০.০০', '০০০১', '১.৫০০', '১২৩৪৫৬৭৮৯০১২৩৪৫৬৭', '০.১২৩৪৫৬৭৮৯০১২৩৪৫৬৭', '৯০০৭১৯৯২৫৪৭৪০৯৯৩', '৯০০৭১৯৯২৫৪৭৪০৯৯২', '৪.৯', '১৭৯৭৬৯৩১৩৪৮৬২৩১৫৭' + '০' * 292,
            '১' + '০' * 309, '০.' + '০' * 323 + '৪৯', '০.' + '০' * 323 + '২৪', '-০', '-০.০', '৫.', '১২৩৪৫৬.৭৮৯০১২৩৪৫৬৭', '০.৩০০০০০০০০০০০০০০০০৪', '০.১১০০০০০০০০০০০০০০০১', '১.১১০০০০০০০০০০০০০০০১', '৮৯৮৪৬৫৬৭৪৩১১৫৮.০']
    n = 3000 if tier == 'thorough' else 400
    for _ in range(n):
        nd = rng.randint(1, 17)
        digs = ''.join(rng.choice('0123456789') for _ in range(nd))
        k = rng.randint(0, nd)
        ip, fp = digs[:k] or '0', digs[k:]
        if rng.random() < 0.3: fp = '0' * rng.randint(1, 5) + fp
        if rng.random() < 0.2: ip = ip + '0' * rng.randint(1, 25)
        lit = bn(ip) + ('.' + bn(fp) if fp else '')
        if rng.random() < 0.2: lit = '-' + lit
        lits.append(lit)
    for l in lits:
        cases.append({'src': prog(['নাম ক = %s;' % l, 'দেখাও ক;', 'দেখাও _স্ট্রিং(ক);', 'দেখাও _সংখ্যা(_স্ট্রিং(ক)) == ক;', 'দেখাও _সংখ্যা("%s") == ক;' % l.replace('"', '')]), 'kind': 'literal', 'lit': l})
    for lst in ['[১০,২০,৩০]', '[১,২০০,৩]', '[১২,৩৪৫,৬৭৮]', '[১০০,২৫০]', '[১.৫,২৫,১২৫]', '[৯,৯০,৯০০]', '[-১০,-২০]', '[১০ ,২০]']:
        cases.append({'src': prog(['নাম ত = %s;' % lst, 'দেখাও ত;', 'দেখাও _লিস্ট-লেন(ত);', 'ফাং যোগ(ক, খ) {', '    ফেরত [ক, খ];', '} ফেরত;', 'দেখাও যোগ(১০০,২৫০);', 'দেখাও যোগ(৯,৯০);']), 'kind': 'literal-list'})
    for t in ['abc', '', '১২a', '১.২.৩', '--১', '১e৫', 'inf', 'NaN', '.', ' ১', '১ ', '+১', '১,০০০', '১২৩'] + P4.NUM_TEXTS_ZW:
        cases.append({'src': prog(['দেখাও "আগে";', 'দেখাও _সংখ্যা("%s");' % t, 'দেখাও "পরে";']), 'kind': 'to_num'})
    arith = ['১ / ৩', '২ / ৩', '০.১ + ০.২', '০.১ * ৩', '১ / ০', '-১ / ০', '০ / ০', '১০ / ৪', '২ * ০.৫', '১০০০০০০০০০০ * ১০০০০০০০০০০০০', '১ / ৩ * ৩', '৯০০৭১৯৯২৫৪৭৪০৯৯২ + ১', '৯০০৭১৯৯২৫৪৭৪০৯৯২ + ২',
             '৫ % ৩', '-৫ % ৩', '৫.৫ % ২', '১ / ১০০০০০০০', '১২৩৪৫৬৭৮৯ * ১২৩৪৫৬৭৮৯', '০ * -১', '১ - ০.৯']
    for a in arith:
        cases.append({'src': prog(['নাম ক = %s;' % a, 'দেখাও _স্ট্রিং(ক);', 'দেখাও _সংখ্যা(_স্ট্রিং(ক)) == ক;', 'দেখাও ক;']), 'kind': 'arith'})
    # sequences: the text of a number does not depend on what was printed before it (equal-comparing values with
    # different texts: the two zeros; neighbours in magnitude)
    pool = ['০', '-০', '০ * -১', '০.০', '১', '১.০', '০.১ + ০.২', '০.৩', '১ / ৩', '০.৩৩৩৩৩৩৩৩৩৩৩৩৩৩৩৩', '৯০০৭১৯৯২৫৪৭৪০৯৯২', '৯০০৭১৯৯২৫৪৭৪০৯৯৩', '-১', '১০০', '১০০.০০']
    for _ in range(60 if tier != 'thorough' else 600):
        k = rng.randint(2, 6)
        xs = [rng.choice(pool) for _ in range(k)]
        lines = []
        for x in xs:
            lines.append(rng.choice(['দেখাও %s;', '_দেখাও %s;', 'দেখাও _স্ট্রিং(%s);', 'দেখাও [%s];']) % x)
        lines.append('দেখাও [%s];' % ', '.join(xs))
        lines.append('দেখাও @{"k" -> %s,};' % xs[0])
        cases.append({'src': prog(lines), 'kind': 'sequence'})
    # subnormal and extreme values through text
    cases += P3.number_text_cases(rng, tier)
    for e in ['১ / ১' + '০' * 310, '৪.৯ / ১' + '০' * 324, '২.২২৫০৭৩৮৫৮৫০৭২০১৪ / ১' + '০' * 308, '২.২২৫ / ১' + '০' * 308, '১.৭৯৭৬৯৩১৩৪৮৬২৩১৫৭ * ১' + '০' * 308]:
        cases.append({'src': prog(['নাম ক = %s;' % e, 'দেখাও _স্ট্রিং(ক);', 'দেখাও _সংখ্যা(_স্ট্রিং(ক)) == ক;', 'দেখাও ক;']), 'kind': 'arith'})
    return cases


# ------------------------------------------------------------------------------------------------ C14 / C15 modules
def c15_cases(rng, tier):
    """import graphs on 4 files; every file prints its name when loaded"""
    cases = []
    names = ['m.pakhi', 'a.pakhi', 'd/b.pakhi', 'd/e/c.pakhi']
    short = ['M', 'A', 'B', 'C']
    graphs = []
    if tier == 'thorough':
        for bits in range(1 << 16): graphs.append(bits)
    else:
        graphs = [0, 1 << 1, 1 << 0, (1 << 1) | (1 << 4), 0b0000000100100010, 0b0001001000100000] + [rng.getrandbits(16) & rng.getrandbits(16) for _ in range(150)] + [rng.getrandbits(16) for _ in range(60)]
    for bits in graphs:
        files = []
        for i in range(4):
            lines = ['দেখাও "শুরু %s";' % short[i]]
            targets = [j for j in range(4) if (bits >> (i * 4 + j)) & 1]
            if tier != 'thorough': rng.shuffle(targets)
            for k, j in enumerate(targets):
                lines.append('মডিউল আ%s%s = "%s";' % (short[i], bn(k), names[j]))
            lines.append('দেখাও "শেষ %s";' % short[i])
            files.append((names[i], prog(lines)))
        cases.append({'src': files[0][1], 'files': files[1:], 'kind': 'graph', 'bits': bits})
    # missing file, bad extension, odd paths
    for stmt in ['মডিউল ক = "নাই.pakhi";', 'মডিউল ক = "a.txt";', 'মডিউল ক = "";', 'মডিউল ক = "..";', 'মডিউল ক = "d" + "/" + "b.pakhi";', 'মডিউল ক = ১;', 'মডিউল ক', 'মডিউল', 'মডিউল ক = "a.pakhi"',
                 'মডিউল _টাইপ = "a.pakhi";', 'মডিউল ক = "a.pakhi"; মডিউল ক = "a.pakhi";', 'মডিউল ক = "a.pakhi"; মডিউল খ = "a.pakhi";']:
        cases.append({'src': prog(['দেখাও "আগে";', stmt, 'দেখাও "পরে";']), 'files': [('a.pakhi', 'দেখাও "a";\n'), ('d/b.pakhi', 'দেখাও "b";\n')], 'kind': 'import-forms'})
    cases.append({'src': prog(['মডিউল ক = "a.pakhi";', 'দেখাও "main";']), 'files': [('a.pakhi', 'মডিউল _টাইপ = "a.pakhi";\nদেখাও "a";\n')], 'kind': 'alias-builtin-cycle'})
    # an import name that is a string prefix of a later one (গ / গণিত, ম / ম২); the later module imports the earlier one's file
    # again: acyclic.  And cycles among non-root modules only (root -> a -> b -> a), which never return to the root.
    for a1, a2 in [('গ', 'গণিত'), ('ম', 'ম২'), ('ক', 'কক'), ('গণিত', 'গ')]:
        cases.append({'src': prog(['মডিউল %s = "util.pakhi";' % a1, 'মডিউল %s = "math.pakhi";' % a2, 'দেখাও "root";', 'দেখাও %s/দ্বিগুণ(৮);' % a2]),
                      'files': [('util.pakhi', prog(['দেখাও "util";', 'ফাং দুই(ক) {', '    ফেরত ক * ২;', '} ফেরত;'])),
                                ('math.pakhi', prog(['মডিউল ভিতর = "util.pakhi";', 'দেখাও "math";', 'ফাং দ্বিগুণ(ক) {', '    ফেরত ভিতর/দুই(ক);', '} ফেরত;']))], 'kind': 'alias-prefix'})
    for first in (True, False):
        pre = [] if first else ['দেখাও "আগে";']
        cases.append({'src': prog(['মডিউল ক = "a.pakhi";', 'দেখাও "main";']),
                      'files': [('a.pakhi', prog(pre + ['মডিউল খ = "b.pakhi";', 'দেখাও "a";'])), ('b.pakhi', prog(pre + ['মডিউল গ = "a.pakhi";', 'দেখাও "b";']))], 'kind': 'inner-cycle'})
        cases.append({'src': prog(['মডিউল ক = "a.pakhi";', 'দেখাও "main";']),
                      'files': [('a.pakhi', prog(pre + ['মডিউল খ = "b.pakhi";', 'দেখাও "a";'])), ('b.pakhi', prog(pre + ['মডিউল গ = "c.pakhi";', 'দেখাও "b";'])), ('c.pakhi', prog(pre + ['মডিউল ঘ = "b.pakhi";', 'দেখাও "c";']))], 'kind': 'inner-cycle'})
    cases += P3.import_graph_oddities() + P3.module_alias_programs() + P4.reimport_programs() + P4.unfinished_module_programs() + P5.module_ending_with_import_programs() + P5.dirname_import_programs() + P5.odd_import_path_programs()
    for stmt in P4.IMPORT_FORMS2:
        cases.append({'src': prog(['দেখাও "আগে";', stmt, 'দেখাও "পরে";']), 'files': [('mod.pakhi', 'দেখাও "mod";\n')], 'kind': 'import-forms'})
    return cases


def c14_cases(rng, tier):
    cases = []
    n = 300 if tier == 'thorough' else 60
    for _ in range(n):
        # definitions: globals and functions, possibly colliding names across files
        nm = rng.randint(1, 3)
        mods = []
        datafiles = [('app/root.txt', 'মূল তথ্য')]
        dirof = lambda p: 'app/' + (p.rsplit('/', 1)[0] + '/' if '/' in p else '')
        main_lines = ['নাম মান = ১;', 'ফাং দেখ() {', '    ফেরত "মূল";', '} ফেরত;']
        aliases = rng.sample(['ক', 'খ', 'গণিত', 'মান', 'জ্যা/বর্গ'], nm)
        paths = rng.sample(['a.pakhi', 'lib/b.pakhi', 'lib/deep/c.pakhi', 'x/মডিউল.pakhi'], nm)
        for i in range(nm):
            body = ['নাম মান = %s;' % bn((i + 2) * 10), 'নাম তালিকা = [মান];', 'ফাং দেখ() {', '    ফেরত "মড%s" + _স্ট্রিং(মান);' % bn(i), '} ফেরত;',
                    'ফাং বাড়াও() {', '    মান = মান + ১;', '    _লিস্ট-পুশ(তালিকা, মান);', '    ফেরত দেখ();', '} ফেরত;', 'দেখাও "লোড %s";' % bn(i), 'দেখাও _টাইপ(_প্ল্যাটফর্ম);', 'দেখাও _লিস্ট-লেন(তালিকা);',
                    # a parameter and a block local spelled like the module's own top-level variable shadow it (inside a module
                    # every one of these names carries the alias prefix)
                    'ফাং ছায়া(মান, তালিকা) {', '    নাম ফল = মান * ২;', '    মান = মান + ১০০;', '    ফেরত [ফল, মান, তালিকা];', '} ফেরত;', 'দেখাও ছায়া(৭, "প");', 'নাম ছফ = ছায়া(৮);', 'দেখাও [ছফ[০], ছফ[১], _টাইপ(ছফ[২])];',
                    '{', '    নাম মান = ৯৯;', '    দেখাও মান;', '    {', '        মান = মান + ১;', '        দেখাও মান;', '    }', '}', 'দেখাও মান;']
            if rng.random() < 0.7:
                body.append('দেখাও _রিড-ফাইল(_ডাইরেক্টরি + "data%s.txt");' % bn(i))
                datafiles.append((dirof(paths[i]) + 'data%s.txt' % bn(i), 'তথ্য %s' % bn(i)))
            if i + 1 < nm and rng.random() < 0.6:
                # the inner alias may repeat the alias this module is imported under (names become ক/ক/...)
                inner = rng.choice(['ভিতর', aliases[i], aliases[i]])
                body.insert(0, 'মডিউল %s = "%s";' % (inner, paths[i + 1]))
                body.append('দেখাও %s/দেখ();' % inner)
                body.append('দেখাও %s/মান;' % inner)
                body.append('দেখাও %s/বাড়াও();' % inner)
                body.append('দেখাও [মান, %s/মান];' % inner)
                body.append('দেখাও দেখ();')
            mods.append(('app/' + paths[i], prog(body)))
        for i in range(nm):
            main_lines.append('মডিউল %s = "%s";' % (aliases[i], paths[i]))
            main_lines += ['দেখাও %s/দেখ();' % aliases[i], 'দেখাও %s/বাড়াও();' % aliases[i], 'দেখাও %s/মান;' % aliases[i], 'দেখাও মান;', 'দেখাও দেখ();', 'দেখাও %s/তালিকা;' % aliases[i],
                           'দেখাও %s/ছায়া(৩, ৪);' % aliases[i], 'দেখাও %s/মান;' % aliases[i]]
        main_lines += ['দেখাও মান;', 'মান = ৫;', 'দেখাও %s/মান;' % aliases[0], 'দেখাও তালিকা;' if rng.random() < 0.3 else 'দেখাও "শেষ";', 'দেখাও _রিড-ফাইল(_ডাইরেক্টরি + "root.txt");']
        cases.append({'src': prog(main_lines), 'files': mods + datafiles, 'kind': 'modules', 'main': 'app/main.pakhi'})
    cases += P3.module_alias_programs() + [c for c in P3.import_graph_oddities() if c['kind'] in ('chain-slash-alias', 'diamond-slash-alias', 'case-distinct-files')] + P4.reimport_programs() + P5.module_ending_with_import_programs() + P5.dirname_import_programs() + P5.forward_reference_module_programs()
    return cases


def split_equiv_cases(rng, tier):
    """a single-file program and its version with the definitions moved into an imported module (uses qualified)"""
    cases = []
    n = 200 if tier == 'thorough' else 40
    for _ in range(n):
        k = rng.randint(1, 4)
        defs, uses_plain, uses_q = [], [], []
        for i in range(k):
            v = 'গ' + bn(i); f = 'ফ' + bn(i)
            defs += ['নাম %s = %s;' % (v, bn(rng.randint(1, 9))), 'ফাং %s(ক) {' % f, '    %s = %s + ক;' % (v, v), '    ফেরত %s * ২;' % v, '} ফেরত;']
            if i > 0 and rng.random() < 0.5: defs.append('দেখাও ফ%s(%s);' % (bn(i - 1), v))
        for _ in range(rng.randint(2, 6)):
            i = rng.randrange(k)
            t = rng.choice(['দেখাও {f}(৩);', 'দেখাও {v};', '{v} = {v} + ১;', 'দেখাও {f}({v}) + {f}(১);', 'যদি {v} > ৫ {{ দেখাও "বড়"; }} অথবা {{ দেখাও "ছোট"; }}'])
            uses_plain.append(t.format(f='ফ' + bn(i), v='গ' + bn(i)))
            uses_q.append(t.format(f='ম/ফ' + bn(i), v='ম/গ' + bn(i)))
        one = prog(defs + uses_plain)
        split_main = prog(['মডিউল ম = "lib/defs.pakhi";'] + uses_q)
        cases.append({'src': one, 'kind': 'split-equiv', 'split': (split_main, [('lib/defs.pakhi', prog(defs))])})
    return cases


# ------------------------------------------------------------------------------------------------ C19 compose
def c19_cases(rng, tier):
    cases = []
    n = 400 if tier == 'thorough' else 80
    p1_pool = HISTORIES[1:] + [
        ['ফাং আগের() {', '    লুপ {', '        লুপ {', '            যদি সত্য {', '                ফেরত ১;', '            }', '        } আবার;', '    } আবার;', '} ফেরত;', 'দেখাও আগের();'],
        ['নাম আই = ০;', 'লুপ {', '    আই = আই + ১;', '    যদি আই > ৩০০ {', '        থামাও;', '    }', '    নাম আবর্জ = [আই, আই, আই, আই] + [আই];', '} আবার;'],
        ['নাম ধরে = [[১, ২, ৩, ৪, ৫, ৬, ৭, ৮, ৯, ১০, ১১, ১২, ১৩, ১৪, ১৫]];', 'ধরে = ০;', 'নাম আজ = ০;', 'লুপ {', '    আজ = আজ + ১;', '    যদি আজ > ২৫ {', '        থামাও;', '    }',
         '    নাম বড় = [' + ', '.join(['আজ'] * 99) + '];', '} আবার;'],
        ['যদি সত্য {', '    যদি সত্য {', '        যদি মিথ্যা {', '        } অথবা {', '        }', '    }', '}'],
    ]
    # fixed part: every residue-leaving fragment before every residue-sensitive fragment
    p2_fixed = [
        ['দেখাও "দ্বি";', 'থামাও;'],
        ['দেখাও "দ্বি";', 'আবার;'],
        ['নাম দ্বিক = ২;', 'যদি দ্বিক == ২ {', '    দেখাও "এক";', '} অথবা যদি দ্বিক == ৩ {', '    দেখাও "দুই";', '} অথবা {', '    দেখাও "তিন";', '}', 'যদি দ্বিক == ৫ {', '    দেখাও "চার";', '} অথবা {', '    দেখাও "পাঁচ";', '}'],
        ['নাম দ্বিই = ০;', 'লুপ {', '    দ্বিই = দ্বিই + ১;', '    যদি দ্বিই > ৩ {', '        থামাও;', '    }', '    নাম দ্বিজ = ০;', '    লুপ {', '        দ্বিজ = দ্বিজ + ১;', '        যদি দ্বিজ == ২ {', '            আবার;', '        }',
         '        যদি দ্বিজ > ৩ {', '            থামাও;', '        }', '        দেখাও দ্বিই * ১০ + দ্বিজ;', '    } আবার;', '} আবার;', 'দেখাও দ্বিই;'],
        ['ফাং দ্বিফ(ক) {', '    নাম ই = ০;', '    লুপ {', '        ই = ই + ১;', '        যদি ই > ক {', '            ফেরত ই;', '        }', '    } আবার;', '} ফেরত;', 'নাম দ্বিন = ০;', 'লুপ {', '    দ্বিন = দ্বিন + ১;', '    যদি দ্বিন > ২ {', '        থামাও;', '    }', '    দেখাও দ্বিফ(দ্বিন);', '} আবার;', 'থামাও;'],
        ['নাম দ্বিম = [];', 'নাম দ্বিই = ০;', 'লুপ {', '    যদি দ্বিই >= ৬০ {', '        থামাও;', '    }', '    _লিস্ট-পুশ(দ্বিম, [দ্বিই]);', '    দ্বিই = দ্বিই + ১;', '} আবার;', 'নাম দ্বিভুল = ০;', 'দ্বিই = ০;', 'লুপ {', '    যদি দ্বিই >= ৬০ {', '        থামাও;', '    }',
         '    যদি দ্বিম[দ্বিই][০] != দ্বিই {', '        দ্বিভুল = দ্বিভুল + ১;', '    }', '    দ্বিই = দ্বিই + ১;', '} আবার;', 'দেখাও দ্বিভুল;', 'নাম দ্বির = @{"ক" -> ১,};', 'নাম দ্বির২ = @{"খ" -> ২,};', 'নাম দ্বির৩ = @{"গ" -> ৩,};', 'দেখাও দ্বির["ক"];', 'দেখাও দ্বির২["খ"];', 'দেখাও দ্বির৩["গ"];'],
    ]
    p1_pool.append(P2.record_churn_p1())
    fl1, fl2 = P3.free_list_history_p1(), P3.free_list_p2()
    for a_ in fl1:
        for b_ in fl2: cases.append({'p1': prog(a_), 'p2': prog(b_), 'kind': 'compose free-list-history', 'budget': 60000})
    cases += P5.shared_module_fragments()
    cases += P5.residue_fragments()
    zero_p1 = [['নাম গো = ৩;', 'লুপ {', '    দেখাও গো;', '    যদি গো == ০ {', '        থামাও;', '    }', '    গো = গো - ১;', '} আবার;'], ['দেখাও ০;'], ['দেখাও -০;'], ['_দেখাও [০];', 'দেখাও "";'], ['নাম আর = @{"ক" -> ১,};', '_দেখাও আর;', 'দেখাও "";']]
    zero_p2 = [['দেখাও ০ * -৫;', 'দেখাও [০ * -৫];'], ['দেখাও ০;', 'দেখাও [-০, ০];'], ['নাম দ্বির = @{"ক" -> ১,};', 'দেখাও [দ্বির, [দ্বির]];', '_দেখাও দ্বির;', 'দেখাও [দ্বির];']]
    for a_ in zero_p1:
        for b_ in zero_p2: cases.append({'p1': prog(a_), 'p2': prog(b_), 'kind': 'compose print-state'})
    shadow_p2 = ['নাম দ্বিতা = [১, ২, ৩];', 'নাম দ্বির = @{"k" -> [৪],};', '{', '    নাম দ্বিতা = [৯, ৯];', '    নাম দ্বির = ০;', '    নাম দ্বিন = [৭];', '    দেখাও দ্বিতা;', '}', 'নাম দ্বিপরে = [০, ০];', 'দেখাও দ্বিতা;', 'দেখাও দ্বির;', 'দেখাও দ্বিপরে;']
    for a_ in [HISTORIES[4], ['নাম আই = ০;', 'লুপ {', '    আই = আই + ১;', '    যদি আই > ১৯৯ {', '        থামাও;', '    }', '    নাম আবর্জ = [আই, আই, আই, আই];', '} আবার;']]:
        for sc in ['n', '1', '01', '001']: cases.append({'p1': prog(a_), 'p2': prog(shadow_p2), 'kind': 'compose shadow-gc', 'sched': sc, 'budget': 20000})
    for a_ in P3.free_list_forced_p1(rng, 40 if tier != 'thorough' else 300):
        cases.append({'p1': prog(a_), 'p2': prog(fl2[0]), 'kind': 'compose free-list-forced', 'sched': rng.choice(['1', '1', '10', '110', '01', '1110'])})
    for c in P2.callee_alloc_programs()[:3]:
        p2_fixed.append([l.replace('ব্যস্ত', 'দ্বিব্যস্ত').replace('প্রথম', 'দ্বিপ্রথম').replace('বানাও', 'দ্বিবানাও') for l in c['src'].rstrip('\n').split('\n')])
    for a in p1_pool:
        for b in p2_fixed:
            cases.append({'p1': prog(a), 'p2': prog(b), 'kind': 'compose', 'budget': 40000})
    for _ in range(n):
        p1 = []
        for _ in range(rng.randint(1, 3)): p1 += rng.choice(p1_pool)
        g = Gen(rng, prefix='দ্বি', max_depth=3, risky=0.05)
        p2 = g.program(rng.randint(3, 10))
        p2_lines = render(p2).rstrip('\n').split('\n')
        if rng.random() < 0.45:
            alloc_tail = rng.random() < 0.6
            p2_lines += rng.choice([['থামাও;'], ['আবার;']]) if not alloc_tail else rng.choice([['নাম দ্বিম = [];', 'নাম দ্বিই = ০;', 'লুপ {', '    যদি দ্বিই >= ৬০ {', '        থামাও;', '    }', '    _লিস্ট-পুশ(দ্বিম, [দ্বিই]);', '    দ্বিই = দ্বিই + ১;', '} আবার;',
                                                                 'নাম দ্বিভুল = ০;', 'দ্বিই = ০;', 'লুপ {', '    যদি দ্বিই >= ৬০ {', '        থামাও;', '    }', '    যদি দ্বিম[দ্বিই][০] != দ্বিই {', '        দ্বিভুল = দ্বিভুল + ১;', '    }', '    দ্বিই = দ্বিই + ১;', '} আবার;', 'দেখাও দ্বিভুল;']])
        cases.append({'p1': prog(p1), 'p2': prog(p2_lines), 'kind': 'compose'})
    return cases


# ------------------------------------------------------------------------------------------------ C20 fs
def c20_cases(rng, tier):
    cases = []
    n = 600 if tier == 'thorough' else 150
    contents = ['', 'এক লাইন', 'দুই\nলাইন', 'a b  ', 'x' * 3000, 'বাংলা ' * 50, 'ছোট', 'y' * 10]
    for _ in range(n):
        files, dirs = {}, set()
        lines = []
        valid = rng.random() < 0.75
        def parent_ok(p): return '/' not in p or p.rsplit('/', 1)[0] in dirs
        for _ in range(rng.randint(2, 14)):
            allp = ['f.txt', 'g.txt', 'd/g.txt', 'd/e/h.txt', 'নথি.txt', 'd/নথি২.txt', 'f.tmp', 'd/g.tmp', 'f', 'd/g.txt.bak']
            if rng.random() < 0.5: allp = allp[:4] + P3.FS_EXTRA_PATHS
            k = rng.random()
            if k < 0.3:
                cand = [p for p in allp if parent_ok(p) and p not in dirs] if valid else allp + ['d', 'missing/x.txt', 'f.txt/x']
                if not cand: continue
                p = rng.choice(cand); c = rng.choice(contents)
                lines.append('দেখাও _রাইট-ফাইল("%s", "%s");' % (p, c))
                if parent_ok(p) and p not in dirs: files[p] = c
            elif k < 0.5:
                cand = list(files) if valid else allp + ['d', 'nope']
                if not cand: continue
                lines.append('দেখাও _রিড-ফাইল("%s");' % rng.choice(cand))
            elif k < 0.6:
                cand = list(files) if valid else allp + ['d']
                if not cand: continue
                p = rng.choice(cand); lines.append('দেখাও _ডিলিট-ফাইল("%s");' % p); files.pop(p, None)
            elif k < 0.75:
                p = rng.choice(['d', 'd/e', 'n/o/p', 'd/e']) if valid else rng.choice(['d', 'f.txt', 'd/g.txt/z', 'n/o'])
                if valid and any(p == f or p.startswith(f + '/') for f in files): continue
                lines.append('দেখাও _নতুন-ডাইরেক্টরি("%s");' % p)
                parts = p.split('/')
                for i in range(1, len(parts) + 1): dirs.add('/'.join(parts[:i]))
            elif k < 0.85:
                cand = list(dirs) if valid else ['d', 'f.txt', 'nope']
                if not cand: continue
                lines.append('দেখাও _লিস্ট-লেন(_রিড-ডাইরেক্টরি("%s"));' % rng.choice(cand))
            elif k < 0.93:
                cand = list(files) + list(dirs) if valid else allp + ['nope']
                if not cand: continue
                lines.append('দেখাও _ফাইল-নাকি-ডাইরেক্টরি("%s");' % rng.choice(cand))
            else:
                cand = list(dirs) if valid else ['d', 'nope', 'f.txt']
                if not cand: continue
                p = rng.choice(cand); lines.append('দেখাও _ডিলিট-ডাইরেক্টরি("%s");' % p)
                dirs = set(d for d in dirs if d != p and not d.startswith(p + '/'))
                files = {f: c for f, c in files.items() if not f.startswith(p + '/')}
        if lines:
            case = {'stmts': lines, 'kind': 'fs-valid' if valid else 'fs-faulty'}
            if valid:
                # the same operations with some paths spelled ./p : one file has one content whatever the spelling
                import re as _re
                case['respelled'] = [_re.sub(r'\("([^"]*)"', lambda mo: '("%s%s"' % (rng.choice(['', './', './', './/']) if mo.group(1) else '', mo.group(1)), l, count=1) for l in lines]
            cases.append(case)
    cases += P4.fs_extra_programs()
    # read, change through another spelling of the same path, read again
    for pth in ['f.txt', 'নথি.txt', 'd/g.txt']:
        for alt in ['./', './/', './././']:
            pre = ['দেখাও _নতুন-ডাইরেক্টরি("d");'] if '/' in pth else []
            def seq(a, b):
                return pre + ['দেখাও _রাইট-ফাইল("%s", "এক");' % a, 'দেখাও _রিড-ফাইল("%s");' % a, 'দেখাও _রাইট-ফাইল("%s", "দুই");' % b, 'দেখাও _রিড-ফাইল("%s");' % a, 'দেখাও _রিড-ফাইল("%s");' % b,
                              'দেখাও _রাইট-ফাইল("%s", "তিন");' % a, 'দেখাও _রিড-ফাইল("%s");' % b, 'দেখাও _ডিলিট-ফাইল("%s");' % b, 'দেখাও "মুছে ফেলা হয়েছে";', 'দেখাও _রিড-ফাইল("%s");' % a, 'দেখাও "এখানে নয়";']
            cases.append({'stmts': seq(pth, pth), 'kind': 'fs-valid', 'respelled': seq(pth, alt + pth)})
    return cases
