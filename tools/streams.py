"""Case generators for the correspondence streams (DESIGN.md section 7). Every random choice comes from the
one random.Random instance handed in, so a seed replays exactly."""
import random, itertools

BN_DIGITS = '০১২৩৪৫৬৭৮৯'
BN_LETTERS = 'কখগঘচছজটডতদনপফবমযরলশসহঅআইউএও' + 'ািীুূেৈোৌ্ংঁ'
KEYWORDS = ['নাম', 'যদি', 'অথবা', 'লুপ', 'ফাং', 'ফেরত', 'থামাও', 'আবার', 'দেখাও', '_দেখাও', 'সত্য', 'মিথ্যা', 'মডিউল']
ASCII_PUNCT = '!"#$%&\'()*+,-./:;<=>?@[\\]^_`{|}~'
BLANKS = ' \t\r\n'
ODD = ['½', '٣', '\x0c', '\x00', '\x7f', '😀', 'é', '‍', '②', 'Ⅷ']

SAMPLE_PROGRAMS = [
    'নাম মাস = ১;\nদেখাও মাস;\n',
    'যদি মাস == ১ {\n    দেখাও "জানুয়ারি";\n} অথবা {\n    দেখাও "জানা নেই";\n}\n',
    'নাম সংখ্যা = [১, ২, ৩, ৪, ৫];\nদেখাও সংখ্যা[০];\n',
    'নাম তথ্য =  @{\n    "নাম" -> "সিফাত",\n    "বয়স" -> ৪২,\n    "ফোন-নাম্বার" -> ["০১৭১১১১১১১১", "০১৭৩৩৩৩৩৩৩৩"],\n};\nদেখাও তথ্য["নাম"];\n',
    'নাম সংখ্যা = [১, ২, ৩, ৪, ৫];\nনাম ইন্ডেক্স = ০;\nনাম যোগফল = ০;\nলুপ {\n    যদি ইন্ডেক্স > ৪ {\n        থামাও;\n    }\n    যোগফল = যোগফল + সংখ্যা[ইন্ডেক্স];\n    ইন্ডেক্স = ইন্ডেক্স + ১;\n} আবার;\n_দেখাও "ফলাফল = ";\nদেখাও যোগফল;\n',
    'ফাং জোড়(সংখ্যা) {\n  যদি সংখ্যা % ২ == ০ {\n    দেখাও "সংখ্যাটি জোড়";\n  } অথবা {\n    দেখাও "সংখ্যাটি বিজোড়";\n  }\n} ফেরত;\n\nনাম স = ৪২;\nজোড়(স);\n',
    '# এক লাইন কমেন্ট #\n\n# \nমালটি লাইন\nকমেন্ট \\# আছে\n#\nদেখাও -১.৫ * (২ - -৩) / ৪ % ৫;\nদেখাও !সত্য | মিথ্যা & ১ <= ২ != (৩ >= ৪);\n',
    'নাম ক = "বহু\nলাইন\nস্ট্রিং"; দেখাও ক;\nনাম খ = ৫-১; দেখাও ক[০]-১; দেখাও (খ)-১;\n',
]


def rand_lex_string(rng, maxlen=40):
    """random string over the alphabet of C10, biased towards token-like fragments"""
    parts = []
    n = rng.randint(0, maxlen)
    while sum(len(p) for p in parts) < n:
        k = rng.random()
        if k < 0.15: parts.append(rng.choice(KEYWORDS))
        elif k < 0.30: parts.append(''.join(rng.choice(BN_DIGITS) for _ in range(rng.randint(1, 4))))
        elif k < 0.40: parts.append(''.join(rng.choice(BN_LETTERS) for _ in range(rng.randint(1, 4))))
        elif k < 0.62: parts.append(rng.choice(ASCII_PUNCT))
        elif k < 0.80: parts.append(rng.choice(BLANKS))
        elif k < 0.84: parts.append('"' + ''.join(rng.choice(BN_LETTERS + ' \n#\\') for _ in range(rng.randint(0, 4))) + ('"' if rng.random() < 0.8 else ''))
        elif k < 0.88: parts.append('#' + ''.join(rng.choice(BN_LETTERS + ' \n\\"') for _ in range(rng.randint(0, 4))) + rng.choice(['#', '\\#', '\\#x#', '\n#', '']))
        elif k < 0.92: parts.append(rng.choice(['-', '->', '--', '-.', '.', '..', '১.', '.১', '১.২.৩', '-১', '- ১', '!=', '==', '<=', '>=', '=<', '=!']))
        elif k < 0.96: parts.append(rng.choice('abcxyzABC0123456789'))
        else: parts.append(rng.choice(ODD))
    return ''.join(parts)


CLASS_ALPHABET = ['ক', '১', '-', '.', '"', '#', '\\', ' ', '\n', '=', '!', '>', '$', ';']


def lex_cases(rng, tier):
    """returns list of (source_text, origin)"""
    cases = []
    # corpus of boundary inputs (the replays of DESIGN.md section 5 among them)
    for s in ['', 'দেখাও ৫', 'দেখাও ১ =', '#', '# abc', '#\\', '#\\#', '# \\# #', '#\n#\nক', 'দেখাও ১ $ ২;', 'দেখাও "abc', '"', '""', '"\n"\nক',
              '৫-১', 'ক[০]-১', '(ক)-১', '৫ -১', '৫ - ১', '-১', '--১', '-', '->', '-ক', '১.০৫', '০.০০১', '২.২৮', '১.', '১..২', '১.২.৩', '-½', '-5', '৫½',
              '!', '=', '<', '>', '!=', '==', '<=', '>=', '\t\r\n ', '\x0c', 'ক\x0cখ', 'ক_খ-গ/ঘ', '_দেখাও', '_দেখাও১', 'নাম১', 'abc', '123', '1.5',
              '#\n\\#\n#\nক', '# \\\\# ক', 'ক # খ\nগ # ঘ', '"#"', '#"#"', '১২৩৪৫৬৭৮৯০১২৩৪৫৬৭৮৯০.১২৩৪৫৬৭৮৯০১২৩৪৫৬৭৮৯০']:
        cases.append((s, 'corpus'))
    # every prefix of the sample programs (truncation in the middle of a token)
    for p in SAMPLE_PROGRAMS:
        cuts = range(len(p) + 1) if tier == 'thorough' else sorted(rng.sample(range(len(p) + 1), min(25, len(p) + 1)))
        for c in cuts: cases.append((p[:c], 'prefix'))
    # exhaustive short strings over the class alphabet
    maxlen = 4 if tier == 'thorough' else 3
    for n in range(1, maxlen + 1):
        allw = itertools.product(CLASS_ALPHABET, repeat=n)
        if n == maxlen and tier != 'thorough':
            allw = list(allw); rng.shuffle(allw); allw = allw[:800]
        for w in allw: cases.append((''.join(w), 'exhaustive%d' % n))
    # random strings
    for _ in range(20000 if tier == 'thorough' else 1500):
        cases.append((rand_lex_string(rng, 60 if tier == 'thorough' else 40), 'random'))
    return cases


# ---------------------------------------------------------------------------------------- synthetic heaps (C07/C08)

def enc_(s):
    return '-' if s == '' else ','.join(str(ord(c)) for c in s)


def rand_heap(rng, max_lists=6, max_recs=4, force_cycle=False):
    """returns the argument string of a `gc` case"""
    nl, nr = rng.randint(0, max_lists), rng.randint(0, max_recs)
    def val():
        k = rng.random()
        if k < 0.35 and nl: return 'L%d' % rng.randrange(nl)
        if k < 0.6 and nr: return 'R%d' % rng.randrange(nr)
        if k < 0.7: return 'N%016x' % rng.choice([0, 0x3ff0000000000000, 0x4005000000000000])
        if k < 0.8: return 'S' + enc_(rng.choice(['', 'a', 'ক']))
        if k < 0.9: return 'B%d' % rng.randint(0, 1)
        return 'Z'
    lists = [[val() for _ in range(rng.randint(0, 3))] for _ in range(nl)]
    recs = [{rng.choice(['k', 'x', 'চ']): val() for _ in range(rng.randint(0, 2))} for _ in range(nr)]
    if force_cycle and nl >= 2:
        lists[0].append('L1'); lists[1].append('L0')
    nscopes = rng.randint(1, 3)
    scopes = [{rng.choice(['a', 'b', 'c', 'ঘ']) + str(i): val() for _ in range(rng.randint(0, 3))} for i in range(nscopes)]
    fl = rng.sample(range(nl), rng.randint(0, min(2, nl))) if nl else []
    fr = rng.sample(range(nr), rng.randint(0, min(2, nr))) if nr else []
    # a slot on a free list is empty in reachable states; keep some non-empty ones too (the collector must cope)
    for i in fl:
        if rng.random() < 0.8: lists[i] = []
    for i in fr:
        if rng.random() < 0.8: recs[i] = {}
    return heap_args(scopes, lists, fl, recs, fr)


def heap_args(scopes, lists, fl, recs, fr):
    p = [str(len(scopes))]
    for s in scopes:
        p.append(str(len(s)))
        for k, v in s.items(): p += [enc_(k), v]
    p.append(str(len(lists)))
    for l in lists:
        p.append(str(len(l))); p += l
    p.append(str(len(fl))); p += [str(i) for i in fl]
    p.append(str(len(recs)))
    for r in recs:
        p.append(str(len(r)))
        for k, v in r.items(): p += [enc_(k), v]
    p.append(str(len(fr))); p += [str(i) for i in fr]
    return ' '.join(p)
