"""Shared machinery of the /verif checks: build, proof obligations, correspondence runs, evidence."""
import os, sys, re, json, subprocess, time, fcntl, shutil, hashlib, random

VERIF = '/verif'
REPO = os.environ.get('PAKHI_REPO', '/repo')
BUILD = os.path.join(VERIF, 'build')
COQ_SRC = os.path.join(VERIF, 'coq')
COQ_BUILD = os.path.join(BUILD, 'coq')          # model + proofs built against the tables generated from /repo now
COQ_REF = os.path.join(BUILD, 'coq_ref')        # fallback: built against the committed reference tables
MODEL_DIR = os.path.join(BUILD, 'model')
MODEL_REF_DIR = os.path.join(BUILD, 'model_ref')
CARGO_TARGET = os.path.join(BUILD, 'cargo')
ORACLE = os.path.join(CARGO_TARGET, 'release', 'pakhi_oracle')
ORACLE_DEBUG = os.path.join(CARGO_TARGET, 'debug', 'pakhi_oracle')
PAKHI_BIN = os.path.join(CARGO_TARGET, 'repo', 'debug', 'pakhi')
SCRATCH = os.path.join(BUILD, 'scratch')
NPROC = 16

ALLOWED_AXIOMS = {
    # standard-library axioms that Flocq / Reals bring in (C09, C01 float statements only)
    'ClassicalDedekindReals.sig_forall_dec', 'ClassicalDedekindReals.sig_not_dec',
    'FunctionalExtensionality.functional_extensionality_dep', 'Classical_Prop.classic',
}
FORBIDDEN_RE = re.compile(r'\b(Admitted|admit|Axiom|Parameter|Conjecture|Unset\s+Guard|bypass_check|Admit\s+Obligations)\b')


def log(*a):
    print(*a, file=sys.stderr, flush=True)


def _big_stack():
    import resource
    try:
        resource.setrlimit(resource.RLIMIT_STACK, (resource.RLIM_INFINITY, resource.RLIM_INFINITY))
    except Exception:
        try:
            soft, hard = resource.getrlimit(resource.RLIMIT_STACK)
            resource.setrlimit(resource.RLIMIT_STACK, (hard, hard))
        except Exception:
            pass


_big_stack()      # inherited by every child process (the extracted model recurses deeply)


def sh(cmd, timeout=3600, cwd=None, env=None, inp=None):
    e = dict(os.environ)
    e.update({'CARGO_NET_OFFLINE': 'true'})
    if env: e.update(env)
    t0 = time.time()
    try:
        p = subprocess.run(cmd, shell=isinstance(cmd, str), cwd=cwd, env=e, input=inp, capture_output=True, text=True, timeout=timeout)
        return p.returncode, p.stdout, p.stderr, time.time() - t0
    except subprocess.TimeoutExpired as ex:
        return 124, (ex.stdout or b'').decode('utf-8', 'replace') if isinstance(ex.stdout, bytes) else (ex.stdout or ''), 'TIMEOUT', time.time() - t0


class Lock:
    def __init__(self, name='build'):
        os.makedirs(BUILD, exist_ok=True)
        self.path = os.path.join(BUILD, '.%s.lock' % name)
    def __enter__(self):
        self.f = open(self.path, 'w')
        fcntl.flock(self.f, fcntl.LOCK_EX)
        return self
    def __exit__(self, *a):
        fcntl.flock(self.f, fcntl.LOCK_UN)
        self.f.close()


# ---------------------------------------------------------------------------------------- build

def build_harness():
    """cargo build of the oracle against the current /repo working tree, hooks on. Returns (ok, message)."""
    os.makedirs(CARGO_TARGET, exist_ok=True)
    rc, out, err, dt = sh(['cargo', 'build', '--release', '--offline'], cwd=os.path.join(VERIF, 'harness'),
                          env={'RUSTFLAGS': '--cfg pakhi_verif', 'CARGO_TARGET_DIR': CARGO_TARGET}, timeout=1200)
    if rc != 0:
        return False, 'cargo build of harness failed:\n' + err[-3000:]
    return True, 'harness built in %.1fs' % dt


def build_harness_debug():
    rc, out, err, dt = sh(['cargo', 'build', '--offline'], cwd=os.path.join(VERIF, 'harness'),
                          env={'RUSTFLAGS': '--cfg pakhi_verif', 'CARGO_TARGET_DIR': CARGO_TARGET}, timeout=1200)
    return rc == 0, err[-3000:]


def build_pakhi_bin():
    """the command-line tool itself (guard off), for the cli streams"""
    rc, out, err, dt = sh(['cargo', 'build', '--offline'], cwd=REPO,
                          env={'CARGO_TARGET_DIR': os.path.join(CARGO_TARGET, 'repo')}, timeout=1200)
    return rc == 0, err[-3000:]


def sync_coq(dst):
    os.makedirs(dst, exist_ok=True)
    rc, out, err, dt = sh(['rsync', '-a', '--delete', '--exclude', 'Tables.v', '--exclude', '*.vo', '--exclude', '*.vos', '--exclude', '*.vok',
                           '--exclude', '*.glob', '--exclude', '*.aux', '--exclude', '.*.aux', '--exclude', 'Makefile.coq*', '--exclude', '.Makefile.coq.d',
                           '--exclude', '.lia.cache', '--exclude', 'cases*.v', '--exclude', '_CoqProject', COQ_SRC + '/', dst + '/'])
    if rc != 0:
        raise RuntimeError('rsync failed: ' + err)
    if not os.path.exists(os.path.join(dst, 'Tables.v')):
        shutil.copy(os.path.join(COQ_SRC, 'Tables.v'), os.path.join(dst, 'Tables.v'))
    write_coqproject(dst)


def write_coqproject(dirp):
    """_CoqProject lists every .v file of the development (coqdep orders them); Extract.v and the replay
    files cases*.v are compiled separately"""
    files = []
    for root, _, fs in os.walk(dirp):
        for f in sorted(fs):
            if f.endswith('.v') and f != 'Extract.v' and not f.startswith('cases'):
                files.append(os.path.relpath(os.path.join(root, f), dirp))
    txt = '-Q . Pakhi\n' + '\n'.join(sorted(files)) + '\n'
    write_if_changed(os.path.join(dirp, '_CoqProject'), txt)


def write_if_changed(path, txt):
    old = open(path, encoding='utf-8').read() if os.path.exists(path) else None
    if old != txt:
        open(path, 'w', encoding='utf-8').write(txt)
        return True
    return False


def coq_make(dirp, targets, timeout=3000):
    mk = os.path.join(dirp, 'Makefile.coq')
    proj = os.path.join(dirp, '_CoqProject')
    if not os.path.exists(mk) or os.path.getmtime(mk) < os.path.getmtime(proj):
        rc, out, err, dt = sh(['coq_makefile', '-f', '_CoqProject', '-o', 'Makefile.coq'], cwd=dirp)
        if rc != 0: return False, err
    rc, out, err, dt = sh(['make', '-f', 'Makefile.coq', '-j%d' % NPROC] + targets, cwd=dirp, timeout=timeout)
    return rc == 0, out + '\n' + err


def build_model(dirp, model_dir):
    """builds Driver.vo, extracts, compiles the OCaml driver. Returns (ok, log)."""
    ok, lg = coq_make(dirp, ['Driver.vo'])
    if not ok: return False, lg
    os.makedirs(model_dir, exist_ok=True)
    stamp = os.path.join(model_dir, '.stamp')
    newest = max(os.path.getmtime(os.path.join(dirp, f)) for f in os.listdir(dirp) if f.endswith('.vo'))
    drv_src = os.path.join(VERIF, 'model_driver', 'main.ml')
    newest = max(newest, os.path.getmtime(drv_src), os.path.getmtime(os.path.join(dirp, 'Extract.v')))
    exe = os.path.join(model_dir, 'pakhi_model')
    if os.path.exists(exe) and os.path.exists(stamp) and os.path.getmtime(stamp) >= newest:
        return True, 'model up to date'
    rc, out, err, dt = sh(['coqc', '-Q', dirp, 'Pakhi', os.path.join(dirp, 'Extract.v')], cwd=model_dir, timeout=1200)
    if rc != 0: return False, 'extraction failed: ' + out + err
    shutil.copy(drv_src, os.path.join(model_dir, 'main.ml'))
    rc, out, err, dt = sh('ocamlfind ocamlopt -O2 -w -a -inline 100 model.mli model.ml main.ml -o pakhi_model', cwd=model_dir, timeout=1200)
    if rc != 0: return False, 'ocaml build failed: ' + out + err
    open(stamp, 'w').write(str(time.time()))
    return True, 'model rebuilt'


class BuildState:
    def __init__(self):
        self.harness_ok = False
        self.tables_generated = False      # translator accepted the source
        self.tables_msg = ''
        self.tables_differ_from_reference = False
        self.model_ok = False              # model built against the generated tables
        self.model_exe = None              # which model executable the correspondence uses
        self.using_reference_model = False
        self.coq_dir = None
        self.notes = []


def ensure_build():
    """Everything a check needs, rebuilt from /repo's current working tree (incremental)."""
    st = BuildState()
    with Lock():
        ok, msg = build_harness()
        st.harness_ok = ok
        st.notes.append(msg)
        if not ok:
            return st
        # numeric-character table of the running toolchain
        rc, out, err, dt = sh([ORACLE, 'chartable'])
        if rc == 0 and out.strip():
            write_if_changed(os.path.join(BUILD, 'chartable.txt'), out)
        # translator: regenerate the tables from the source
        sync_coq(COQ_BUILD)
        gen_path = os.path.join(BUILD, 'Tables.gen.v')
        rc, out, err, dt = sh([sys.executable, os.path.join(VERIF, 'tools', 'gen_tables.py'), gen_path, os.path.join(BUILD, 'chartable.txt')])
        st.tables_msg = (out + err).strip()
        ref_tables = open(os.path.join(COQ_SRC, 'Tables.v'), encoding='utf-8').read()
        if rc == 0 and os.path.exists(gen_path):
            st.tables_generated = True
            gen = open(gen_path, encoding='utf-8').read()
            st.tables_differ_from_reference = (gen != ref_tables)
            write_if_changed(os.path.join(COQ_BUILD, 'Tables.v'), gen)
            ok, lg = build_model(COQ_BUILD, MODEL_DIR)
            st.model_ok = ok
            if ok:
                st.model_exe = os.path.join(MODEL_DIR, 'pakhi_model')
                st.coq_dir = COQ_BUILD
            else:
                st.notes.append('model does not build against the regenerated tables:\n' + lg[-2000:])
        else:
            st.notes.append('translator refused the source: ' + st.tables_msg)
        if not st.model_ok:
            # fall back to the committed reference tables so that a failing input can still be searched for
            sync_coq(COQ_REF)
            write_if_changed(os.path.join(COQ_REF, 'Tables.v'), ref_tables)
            ok, lg = build_model(COQ_REF, MODEL_REF_DIR)
            if ok:
                st.model_exe = os.path.join(MODEL_REF_DIR, 'pakhi_model')
                st.using_reference_model = True
                st.coq_dir = COQ_REF
            else:
                st.notes.append('reference model does not build either:\n' + lg[-2000:])
    return st


# ---------------------------------------------------------------------------------------- proofs

def grep_forbidden(dirp):
    bad = []
    for root, _, files in os.walk(dirp):
        for f in files:
            if f.endswith('.v') and not f.startswith('cases'):
                p = os.path.join(root, f)
                txt = open(p, encoding='utf-8').read()
                # strip comments (nested) before grepping
                txt = strip_coq_comments(txt)
                for m in FORBIDDEN_RE.finditer(txt):
                    bad.append('%s: %s' % (os.path.relpath(p, dirp), m.group(0)))
    return bad


def strip_coq_comments(t):
    out = []; depth = 0; i = 0; in_str = False
    while i < len(t):
        if depth == 0 and t[i] == '"':
            in_str = not in_str; out.append(t[i]); i += 1; continue
        if not in_str and t.startswith('(*', i):
            depth += 1; i += 2; continue
        if not in_str and depth > 0 and t.startswith('*)', i):
            depth -= 1; i += 2; continue
        if depth == 0: out.append(t[i])
        i += 1
    return ''.join(out)


def check_proofs(st, prop_file, thorough=False):
    """Builds Properties/<prop_file>.vo in the build dir against the regenerated tables, parses the
    Print Assumptions output. Returns dict(obligations, discharged, theorems, axioms, failures, log)."""
    res = {'obligations': 0, 'discharged': 0, 'theorems': [], 'axioms': [], 'failures': [], 'log': ''}
    if not st.tables_generated or not st.model_ok:
        res['failures'].append('proof obligations cannot be checked against the current source: ' +
                               ('translator refused the source (%s)' % st.tables_msg if not st.tables_generated else 'model does not build with the regenerated tables'))
        # count the obligations from the source text so that evidence stays meaningful
        src = open(os.path.join(COQ_SRC, 'Properties', prop_file + '.v'), encoding='utf-8').read()
        res['obligations'] = len(re.findall(r'^Theorem\s+(\w+)', src, re.M))
        return res
    dirp = COQ_BUILD
    src = open(os.path.join(dirp, 'Properties', prop_file + '.v'), encoding='utf-8').read()
    names = re.findall(r'^Theorem\s+(\w+)', strip_coq_comments(src), re.M)
    res['obligations'] = len(names)
    res['theorems'] = names
    bad = grep_forbidden(dirp)
    if bad:
        res['failures'].append('forbidden constructs in the development: ' + '; '.join(bad[:10]))
    with Lock():
        target = 'Properties/%s.vo' % prop_file
        # force re-execution of the property file itself so that Print Assumptions output is captured
        vo = os.path.join(dirp, target)
        if os.path.exists(vo): os.remove(vo)
        ok, lg = coq_make(dirp, [target])
    res['log'] = lg[-6000:]
    if not ok:
        m = re.search(r'File "\./([^"]+)", line (\d+)[^\n]*\n(Error:.*?)(?:\n\n|\Z)', lg, re.S)
        where = ('%s line %s: %s' % (m.group(1), m.group(2), m.group(3)[:400])) if m else lg[-800:]
        res['failures'].append('proof does not check: ' + where)
        return res
    # parse Print Assumptions blocks: they appear in order of the Print Assumptions commands
    blocks = []
    cur = None
    for l in lg.split('\n'):
        if l.strip() == 'Closed under the global context':
            if cur is not None: blocks.append(cur); cur = None
            blocks.append('Closed under the global context')
        elif l.strip() == 'Axioms:':
            if cur is not None: blocks.append(cur)
            cur = 'Axioms:'
        elif cur is not None:
            if l.startswith(' ') or re.match(r'^\S+\s*:', l):
                cur += '\n' + l
            else:
                blocks.append(cur); cur = None
    if cur is not None: blocks.append(cur)
    printed = re.findall(r'^Print Assumptions\s+(\w+)\.', strip_coq_comments(src), re.M)
    if len(blocks) < len(printed):
        # be conservative
        res['failures'].append('could not read Print Assumptions output (%d blocks for %d commands)' % (len(blocks), len(printed)))
    axioms = set()
    for b in blocks:
        if b.startswith('Axioms:'):
            for l in b.split('\n')[1:]:
                mm = re.match(r'^(\S+)\s*:', l)
                if mm: axioms.add(mm.group(1))
    res['axioms'] = sorted(axioms)
    notallowed = [a for a in axioms if a not in ALLOWED_AXIOMS]
    if notallowed:
        res['failures'].append('axioms outside the allowlist: ' + ', '.join(notallowed))
    missing = [n for n in names if n not in printed]
    if missing:
        res['failures'].append('theorems without Print Assumptions: ' + ', '.join(missing))
    if not res['failures']:
        res['discharged'] = len(names)
    if thorough:
        rc, out, err, dt = sh(['coqchk', '-silent', '-o', '-Q', dirp, 'Pakhi', 'Pakhi.Properties.' + prop_file], cwd=dirp, timeout=3000)
        res['coqchk'] = (out + err)[-1500:]
        if rc != 0:
            res['failures'].append('coqchk failed: ' + (out + err)[-500:])
            res['discharged'] = 0
    return res


# ---------------------------------------------------------------------------------------- text encoding

def enc(s):
    if s == '': return '-'
    return ','.join(str(ord(c)) for c in s)


def dec(s):
    if s == '-': return ''
    return ''.join(chr(int(x)) for x in s.split(','))


def files_arg(files):
    """files: list of (path, content); first is the main module"""
    return ' '.join([str(len(files))] + ['%s %s' % (enc(p), enc(c)) for p, c in files])


def run_line(src, budget=200000, sched='n', flags='-', extra_files=(), main='m.pakhi'):
    return 'run %s %s %s %s' % (budget if budget is not None else '-', sched, flags, files_arg([(main, src)] + list(extra_files)))


# ---------------------------------------------------------------------------------------- running cases

def run_exe(exe, lines, tag, timeout_ms=5000, total_timeout=3000, restartable=True):
    """runs an executable of the case-file protocol; handles the oracle's exit-on-hang by restarting"""
    os.makedirs(SCRATCH, exist_ok=True)
    path = os.path.join(SCRATCH, 'cases_%s_%d.txt' % (tag, os.getpid()))
    with open(path, 'w', encoding='utf-8') as f:
        f.write('\n'.join(lines) + '\n')
    results = []
    start = 0
    t0 = time.time()
    while start < len(lines):
        # memory cap: a runaway model or implementation must not take the machine down
        rc, out, err, dt = sh(['bash', '-c', 'ulimit -v 12000000; exec "$0" "$@"', exe, path, str(start)], env={'PAKHI_CASE_TIMEOUT_MS': str(timeout_ms), 'PAKHI_SCRATCH': SCRATCH,
                                                         'OCAMLRUNPARAM': 'l=2000M'},
                              timeout=max(10, total_timeout - (time.time() - t0)))
        got = out.split('\n')
        if got and got[-1] == '': got.pop()
        results.extend(got)
        if len(results) >= len(lines):
            break
        if rc == 124:
            results.append('driver-timeout')
        elif rc != 0 and len(got) == 0:
            # crashed on this very case (stack overflow aborts the process, segfault, ...)
            results.append('crash rc=%d %s' % (rc, err.strip().split('\n')[-1][:100] if err.strip() else ''))
        elif rc == 0:
            # printed fewer lines than cases without failing: treat the missing one as crash
            results.append('crash-missing-output')
        start = len(results)
        if not restartable: break
    os.remove(path)
    while len(results) < len(lines): results.append('not-run')
    return results[:len(lines)]


def run_sharded(exe, lines, tag, shards=NPROC, **kw):
    import concurrent.futures
    if len(lines) < 64 or shards <= 1:
        return run_exe(exe, lines, tag, **kw)
    n = len(lines)
    # round-robin: generators emit their large cases next to one another, contiguous chunks would put them all in one shard
    chunks = [(i, lines[i::shards]) for i in range(shards)]
    out = [None] * n
    with concurrent.futures.ThreadPoolExecutor(max_workers=shards) as ex:
        futs = {ex.submit(run_exe, exe, ch, '%s_%d' % (tag, i), **kw): i for i, ch in chunks if ch}
        for fu in concurrent.futures.as_completed(futs):
            i = futs[fu]
            out[i::shards] = fu.result()
    return out


_NUM_RE = re.compile(r'\bN([0-9a-f]{16})\b')


def _canon_nan(m):
    b = int(m.group(1), 16)
    if (b >> 52) & 0x7ff == 0x7ff and (b & ((1 << 52) - 1)) != 0:
        return 'N7ff8000000000000'
    return m.group(0)


def canon_chunks(chunks):
    """Record entries are written in HashMap order: sort the entries of every record rendering by key.
    Works on the chunk sequence (p:/l: items); a record is  p:64,123  {p:34,<key>,34,58 <value chunks> p:44}*  p:125|l:125.
    Strings in record-printing tests never equal these chunk texts."""
    def parse_value(i):
        # returns (canonical list of chunks, next index)
        c = chunks[i]
        body = c[2:]
        if body == '64,123':
            entries = []; j = i + 1
            while j < len(chunks) and chunks[j][2:] not in ('125',):
                key = chunks[j]
                val, j2 = parse_value(j + 1)
                comma = chunks[j2] if j2 < len(chunks) else ''
                entries.append((key, val, comma)); j = j2 + 1
            entries.sort(key=lambda e: [int(x) for x in e[0][2:].split(',') if x.isdigit()])
            out = [c]
            for k, v, cm in entries: out += [k] + v + [cm]
            if j < len(chunks): out.append(chunks[j])
            return out, j + 1
        if body == '91':
            out = [c]; j = i + 1
            while j < len(chunks) and chunks[j][2:] != '93':
                if chunks[j][2:] == '44,32':
                    out.append(chunks[j]); j += 1; continue
                v, j = parse_value(j)
                out += v
            if j < len(chunks): out.append(chunks[j])
            return out, j + 1
        return [c], i + 1
    out = []; i = 0
    try:
        while i < len(chunks):
            v, i = parse_value(i)
            out += v
    except (IndexError, ValueError):
        return chunks
    return out


def canon_result(line):
    """canonical form of a result line: NaN payloads, heap after an error (not an observable), sorted fs dump,
    record entries in key order"""
    line = _NUM_RE.sub(_canon_nan, line)
    if not line.startswith('out '):
        return line
    parts = line.split(' | ')
    res = next((p for p in parts if p.startswith('res ')), 'res ?')
    keep = []
    for p in parts:
        if p.startswith('heap ') and not res.startswith('res ok'):
            continue
        if p.startswith('fs '):
            p = 'fs ' + ' '.join(sorted(p[3:].split(' ')))
        if p.startswith('out ') and '64,123' in p:
            p = 'out ' + ' '.join(canon_chunks(p[4:].split(' ')))
        keep.append(p)
    return ' | '.join(keep)


def lines_agree(impl, model):
    """impl/model: result lines. The model prints '*' for messages it does not model."""
    impl, model = canon_result(impl), canon_result(model)
    if impl == model: return True
    a, b = impl.split(' '), model.split(' ')
    if len(a) != len(b): return False
    for x, y in zip(a, b):
        if x == y or y == '*': continue
        return False
    return True


# ---------------------------------------------------------------------------------------- evidence / violations

def write_evidence(pid, tier, seed, level, coverage, assumptions, wall, violations):
    os.makedirs(os.path.join(VERIF, 'evidence'), exist_ok=True)
    ev = {'property_id': pid, 'tier': tier, 'seed': seed, 'level': level, 'coverage': coverage,
          'assumptions': assumptions, 'wall_s': round(wall, 2), 'violations': violations}
    with open(os.path.join(VERIF, 'evidence', pid + '.json'), 'w', encoding='utf-8') as f:
        json.dump(ev, f, ensure_ascii=False, indent=1)


def write_replay(pid, name, obj):
    d = os.path.join(VERIF, 'build', 'replays', pid)
    os.makedirs(d, exist_ok=True)
    p = os.path.join(d, name + '.json')
    with open(p, 'w', encoding='utf-8') as f:
        json.dump(obj, f, ensure_ascii=False, indent=1)
    return p


def load_known_findings(pid):
    p = os.path.join(VERIF, 'known_findings.json')
    if not os.path.exists(p): return []
    return [k for k in json.load(open(p, encoding='utf-8')).get('findings', []) if k.get('property') == pid and k.get('status') == 'open']
