"""Fifth batch of generators (seeded round 8): a chain directly followed by a jump statement, loops left through a block
that holds nothing but the break / continue, surplus call arguments with side effects, fresh containers held by a
caller while the callee allocates a lot."""
import itertools
from genprog import bn
from pstreams3 import prog, ind, counted_loop


def _chain(conds, with_else, tag):
    lines = []
    for i, c in enumerate(conds):
        lines.append(('যদি %s {' if i == 0 else '} অথবা যদি %s {') % c)
        lines.append('    দেখাও "%s%s";' % (tag, bn(i + 1)))
    if with_else:
        lines += ['} অথবা {', '    দেখাও "%sশেষ";' % tag]
    lines.append('}')
    return lines


# ---------------------------------------------------------------- C02: the statement after the chain is a return / continue / break
def chain_then_jump_programs(rng, n):
    cases = []
    T, F = ['সত্য', '১ < ২', 'ক > ০'], ['মিথ্যা', '২ < ১', 'ক < ০']
    shapes = []
    for k in (1, 2, 3):
        for tv in itertools.product([True, False], repeat=k):
            for e in (False, True):
                shapes.append((tv, e))
    rng.shuffle(shapes)
    for tv, e in shapes[:max(8, n // 6)] + [((False,), False), ((True, False), True), ((False, True, False), True), ((True,), False)]:
        conds = [rng.choice(T if b else F) for b in tv]
        ch = _chain(conds, e, 'শ')
        # in a function, directly followed by a return with a value; something unreachable after it
        cases.append({'src': prog(['ফাং ফ(ক) {'] + ind(ch) + ['    ফেরত ক * ২;', '    দেখাও "ফেরতের পরে";', '} ফেরত;', 'দেখাও ফ(৩);', 'দেখাও _টাইপ(ফ(৪));', 'দেখাও "শেষ";']), 'kind': 'chain-then-return'})
        # return without value
        cases.append({'src': prog(['নাম ক = ১;', 'ফাং ফ() {'] + ind(ch) + ['    ফেরত;', '    দেখাও "ফেরতের পরে";', '} ফেরত;', 'দেখাও _টাইপ(ফ());', 'দেখাও "শেষ";']), 'kind': 'chain-then-return'})
        # in a loop, directly followed by an explicit continue
        cases.append({'src': prog(['নাম ক = ১;', 'নাম ই = ০;', 'লুপ {', '    ই = ই + ১;', '    যদি ই > ৩ {', '        থামাও;', '    }'] + ind(ch) + ['    আবার;', '    দেখাও "আবারের পরে";', '} আবার;', 'দেখাও ই;']), 'kind': 'chain-then-continue'})
        # in a loop, directly followed by a break
        cases.append({'src': prog(['নাম ক = ১;', 'নাম ই = ০;', 'লুপ {', '    ই = ই + ১;'] + ind(ch) + ['    থামাও;', '    দেখাও "থামাওয়ের পরে";', '} আবার;', 'দেখাও ই;']), 'kind': 'chain-then-break'})
        # nested: the chain is the last thing in a block that is followed by the loop's closing continue
        cases.append({'src': prog(['নাম ক = ১;', 'নাম ই = ০;', 'লুপ {', '    ই = ই + ১;', '    যদি ই > ২ {', '        থামাও;', '    }', '    {'] + ind(ch, 2) + ['    }', '} আবার;', 'দেখাও ই;']), 'kind': 'chain-then-loop-end'})
        cases.append({'src': prog(['নাম ক = ১;', 'নাম ই = ০;', 'লুপ {', '    ই = ই + ১;', '    যদি ই > ২ {', '        থামাও;', '    }'] + ind(ch) + ['} আবার;', 'দেখাও ই;']), 'kind': 'chain-then-loop-end'})
        # a function whose body ends with the chain: the closing return follows directly
        cases.append({'src': prog(['নাম ক = ১;', 'ফাং ফ() {'] + ind(ch) + ['} ফেরত;', 'দেখাও _টাইপ(ফ());', 'দেখাও "শেষ";']), 'kind': 'chain-then-function-end'})
    return cases


# ---------------------------------------------------------------- C03: a block that holds nothing but the jump
def jump_only_exit_programs(rng, n):
    cases = []
    for _ in range(n):
        jump = rng.choice(['থামাও;', 'থামাও;', 'আবার;'])
        limit = rng.randint(1, 4)
        shadow = rng.choice(['ফল', 'গণনা', 'ট'])
        comment = rng.choice(['', '        # বের হও #'])
        guard = 'ই > %s' % bn(limit) if jump == 'থামাও;' else 'ই % ২ == ০'
        body = ['    ই = ই + ১;', '    নাম %s = "ভিতরে";' % shadow] + (['    যদি ই > ৫ {', '        থামাও;', '    }'] if jump == 'আবার;' else []) + \
               ['    যদি %s {' % guard] + ([comment] if comment else []) + ['        %s' % jump, '    }', '    নাম পরে = ই * ১০;', '    দেখাও [%s, পরে];' % shadow]
        wrap = rng.choice(['plain', 'block', 'if', 'func', 'nested'])
        outer = ['নাম %s = "বাইরে";' % shadow, 'নাম ই = ০;']
        loop = ['লুপ {'] + body + ['} আবার;']
        after = ['দেখাও %s;' % shadow, 'দেখাও ই;']
        if wrap == 'plain':
            lines = outer + loop + after
        elif wrap == 'block':
            lines = outer + ['{', '    নাম ব্লকের = "ব্লক";'] + ind(loop) + ['    দেখাও ব্লকের;', '    দেখাও %s;' % shadow, '}'] + after
        elif wrap == 'if':
            lines = outer + ['যদি সত্য {', '    নাম শাখার = "শাখা";'] + ind(loop) + ['    দেখাও শাখার;', '} অথবা {', '    দেখাও "ভুল";', '}'] + after
        elif wrap == 'func':
            lines = outer + ['ফাং চালাও() {', '    নাম স্থানীয় = "ফাংশন";'] + ind(loop) + ['    দেখাও স্থানীয়;', '    দেখাও %s;' % shadow, '    ফেরত ই;', '} ফেরত;', 'দেখাও চালাও();'] + after
        else:
            lines = outer + ['নাম বা = ০;', 'লুপ {', '    বা = বা + ১;', '    যদি বা > ২ {', '        থামাও;', '    }', '    ই = ০;', '    নাম বাইরের_লুপের = বা;'] + ind(loop) + ['    দেখাও [বাইরের_লুপের, %s];' % shadow, '} আবার;'] + after
        cases.append({'src': prog(lines), 'kind': 'jump-only-block'})
    return cases


# ---------------------------------------------------------------- C05: more arguments than parameters, and the surplus ones have effects
def surplus_argument_programs(rng, n):
    cases = []
    pre = ['নাম লগ = [];', 'ফাং ছাপ(ক) {', '    দেখাও "ছাপ " + _স্ট্রিং(ক);', '    _লিস্ট-পুশ(লগ, ক);', '    ফেরত ক;', '} ফেরত;',
           'ফাং শূন্য_প্যারাম() {', '    ফেরত "০";', '} ফেরত;', 'ফাং এক_প্যারাম(ক) {', '    ফেরত ক;', '} ফেরত;', 'ফাং দুই_প্যারাম(ক, খ) {', '    ফেরত [ক, খ];', '} ফেরত;']
    effects = ['ছাপ(৭)', '_লিস্ট-পুশ(লগ, ৯)', '_লিস্ট-পপ(লগ)', 'ছাপ(ছাপ(১))', 'লগ[৫০]', 'নাই', '১ + "a"', '[ছাপ(২)]', '@{"k" -> ছাপ(৩),}', 'এক_প্যারাম(ছাপ(৪), ছাপ(৫))']
    for _ in range(n):
        f, np = rng.choice([('শূন্য_প্যারাম', 0), ('এক_প্যারাম', 1), ('দুই_প্যারাম', 2)])
        extra = rng.randint(1, 3)
        args = ['ছাপ(%s)' % bn(10 + i) if rng.random() < 0.5 else bn(i) for i in range(np)] + [rng.choice(effects) for _ in range(extra)]
        where = rng.choice(['top', 'loop', 'func', 'arg'])
        call = '%s(%s)' % (f, ', '.join(args))
        if where == 'top':
            lines = pre + ['_লিস্ট-পুশ(লগ, ০);', 'দেখাও %s;' % call, 'দেখাও লগ;']
        elif where == 'loop':
            lines = pre + ['_লিস্ট-পুশ(লগ, ০);'] + counted_loop('ই', 2, ['দেখাও %s;' % call]) + ['দেখাও লগ;']
        elif where == 'func':
            lines = pre + ['_লিস্ট-পুশ(লগ, ০);', 'ফাং বাইরে() {', '    নাম ফল = %s;' % call, '    ফেরত ফল;', '} ফেরত;', 'দেখাও বাইরে();', 'দেখাও লগ;']
        else:
            lines = pre + ['_লিস্ট-পুশ(লগ, ০);', 'দেখাও এক_প্যারাম(%s);' % call, 'দেখাও লগ;']
        cases.append({'src': prog(lines + ['দেখাও "শেষ";']), 'kind': 'surplus-arguments'})
    return cases


# ---------------------------------------------------------------- C06 / C07: a fresh container held by the caller while the callee allocates
def held_while_callee_allocates_programs():
    cases = []
    heavy = ['ফাং ভারী(ন) {', '    নাম ই = ০;', '    নাম শেষটা = [];', '    লুপ {', '        যদি ই >= ন {', '            থামাও;', '        }', '        শেষটা = [ই, ই + ১];', '        ই = ই + ১;', '    } আবার;', '    ফেরত শেষটা;', '} ফেরত;']
    uses = ['নাম ফল = [[১, ২, ৩], ভারী(%s)];', 'নাম ফল = @{"a" -> [১, ২, ৩], "b" -> ভারী(%s),};', 'নাম ফল = [১, ২, ৩] + ভারী(%s);', 'নাম ফল = জোড়া([১, ২, ৩], ভারী(%s));', 'নাম ফল = [[[৭]], @{"k" -> [৮],}, ভারী(%s)];',
            'নাম ফল = জোড়া(ভারী(%s), [৪, ৫]);', 'নাম ফল = [ভারী(%s), [১], ভারী(৩০০)];']
    for count in (120, 400, 700):
        for u in uses:
            lines = heavy + ['ফাং জোড়া(ক, খ) {', '    ফেরত [ক, খ];', '} ফেরত;', 'নাম আগে = [["x"], ["y"]];', u % bn(count), 'দেখাও ফল;', 'নাম নতুন = [[৯, ৯], [৮, ৮]];', 'দেখাও ফল;', 'দেখাও আগে;', 'দেখাও নতুন;']
            cases.append({'src': prog(lines), 'kind': 'held-while-callee-allocates', 'budget': 60000, 'scheds': ['n', '1']})
        # an indexed assignment whose index expression calls the allocating function
        lines = heavy + ['নাম ত = [০, ০, ০];', 'ফাং সূচক(ন) {', '    ভারী(ন);', '    ফেরত ১;', '} ফেরত;', 'ত[সূচক(%s)] = [১, ২, ৩];' % bn(count), 'দেখাও ত;', 'নাম নতুন = [[৯]];', 'দেখাও ত;']
        cases.append({'src': prog(lines), 'kind': 'held-while-callee-allocates', 'budget': 60000, 'scheds': ['n', '1']})
    return cases


# ---------------------------------------------------------------- C10: integer literals beyond 2^63, 2^64 and 10^19..10^40
LEX_CORPUS3 = ['দেখাও ১৮৪৪৬৭৪৪০৭৩৭০৯৫৫১৬১৫;', 'দেখাও ১৮৪৪৬৭৪৪০৭৩৭০৯৫৫১৬১৬;', 'দেখাও ৯২২৩৩৭২০৩৬৮৫৪৭৭৫৮০৭;', 'দেখাও ৯২২৩৩৭২০৩৬৮৫৪৭৭৫৮০৮;', 'নাম ক = ১২৩৪৫৬৭৮৯০১২৩৪৫৬৭৮৯০;', 'নাম ক = -১২৩৪৫৬৭৮৯০১২৩৪৫৬৭৮৯০১;',
               'নাম ক = ১২৩৪৫৬৭৮৯০১২৩৪৫৬৭৮৯০.৫;', 'নাম ক = ৯৯৯৯৯৯৯৯৯৯৯৯৯৯৯৯৯৯৯৯৯৯৯৯৯৯৯৯৯৯৯৯৯৯৯৯৯৯৯৯৯৯;', 'নাম ক = ১' + '০' * 30 + ';', 'নাম ক = ০.' + '০' * 30 + '১;', 'ক = ক + ১০০০০০০০০০০০০০০০০০০০০ - ১;',
               'দেখাও [১৮৪৪৬৭৪৪০৭৩৭০৯৫৫১৬১৭, ৩৪০২৮২৩৬৬৯২০৯৩৮৪৬৩৪৬৩৩৭৪৬০৭৪৩১৭৬৮২১১৪৫৬];', 'দেখাও ০০০০০০০০০০০০০০০০০০০০০০০০১;', 'দেখাও ১' + '৭' * 308 + ';', 'দেখাও ১' + '৭' * 309 + ';']


# ---------------------------------------------------------------- C13: a string literal that ends with a line break, then a fault
def string_newline_fault_programs():
    cases = []
    faults = ['দেখাও নাই;', 'দেখাও ১ + "a";', 'দেখাও লেখা[৫];', '_লিস্ট-পপ([], ৩);']
    strings = ['"ক\n"', '"ক\nখ\n"', '"\n"', '"\n\n"', '"ক\r\n"', '"ক\nখ"', '"ক\n\nখ\n\n"']
    for s in strings:
        for f in faults:
            cases.append({'src': prog(['নাম লেখা = %s;' % s, 'দেখাও "আগে";', f, 'দেখাও "পরে";']), 'kind': 'fault string-ending-in-newline'})
            cases.append({'src': prog(['দেখাও "শুরু";', 'ফাং ফ() {', '    নাম লেখা = %s;' % s, '    নাম আরেক = %s;' % s, '    ' + f, '} ফেরত;', 'ফ();']), 'kind': 'fault string-ending-in-newline'})
        cases.append({'src': prog(['মডিউল ম = "lib.pakhi";', 'দেখাও "পরে";']), 'files': [('lib.pakhi', prog(['নাম লেখা = %s;' % s, 'দেখাও নাই;']))], 'kind': 'fault string-ending-in-newline module'})
    return cases


# ---------------------------------------------------------------- C14 / C15: a module that ends with an import statement
def module_ending_with_import_programs():
    cases = []
    leaf = prog(['নাম মান = ৫;', 'ফাং দ্বিগুণ(ক) {', '    ফেরত ক * ২;', '} ফেরত;'])
    for last in ['মডিউল খ = "leaf.pakhi";', 'মডিউল খ = "leaf" + ".pakhi";', 'মডিউল খ = "leaf.pakhi"; # শেষ #', 'মডিউল খ = "leaf.pakhi";\n\n', 'মডিউল খ = "leaf.pakhi"']:
        for pre in ([], ['নাম নিজের = ১;'], ['মডিউল গ = "leaf.pakhi";']):
            lib = '\n'.join(pre + [last]) + ('\n' if not last.endswith('\n') and not last.endswith('"') else '')
            cases.append({'src': prog(['মডিউল ক = "lib.pakhi";', 'দেখাও ক/খ/মান;', 'দেখাও ক/খ/দ্বিগুণ(৪);', 'দেখাও "শেষ";']), 'files': [('lib.pakhi', lib), ('leaf.pakhi', leaf)], 'kind': 'module-ends-with-import'})
    # collecting module: nothing but imports
    cases.append({'src': prog(['মডিউল সব = "all.pakhi";', 'দেখাও সব/ক/মান + সব/খ/মান;']), 'files': [('all.pakhi', 'মডিউল ক = "leaf.pakhi";\nমডিউল খ = "leaf.pakhi";'), ('leaf.pakhi', leaf)], 'kind': 'module-ends-with-import'})
    # modules ending with a comment, with a call without its optional ';', with '}' ...
    for tail in ['# শেষ #', '# এক #\n# দুই #\n', 'দেখাও মান', 'দ্বিগুণ(২)', '{\n}', 'নাম শেষের;']:
        cases.append({'src': prog(['মডিউল ক = "lib.pakhi";', 'দেখাও ক/মান;', 'দেখাও "শেষ";']), 'files': [('lib.pakhi', leaf + tail)], 'kind': 'module-ending'})
    return cases


# ---------------------------------------------------------------- C16 / C06: indexed assignment through two and three levels with unequal indexes
def multi_level_assignment_programs(rng, n):
    cases = []
    for _ in range(n):
        r, c = rng.randint(2, 4), rng.randint(2, 4)
        lines = ['নাম ছক = [];'] + counted_loop('ই', r, ['_লিস্ট-পুশ(ছক, [%s]);' % ', '.join(['০'] * c)])
        for _k in range(rng.randint(2, 5)):
            i, j = rng.randrange(r), rng.randrange(c)
            lines.append('ছক[%s][%s] = %s;' % (bn(i), bn(j), bn(rng.randint(1, 99))))
        lines += ['দেখাও ছক;', 'দেখাও _লিস্ট-লেন(ছক[০]);', '_লিস্ট-পুশ(ছক[%s], ৭);' % bn(rng.randrange(r)), 'দেখাও ছক;']
        # three levels, mixed with records
        lines += ['নাম ঘন = [[[০, ০, ০], [০, ০, ০]], [[০, ০, ০], [০, ০, ০]]];', 'ঘন[%s][%s][%s] = ৭;' % (bn(rng.randrange(2)), bn(rng.randrange(2)), bn(rng.randrange(3))), 'দেখাও ঘন;',
                  'নাম নথি = [@{"নম্বর" -> [০, ০, ০],}, @{"নম্বর" -> [০, ০, ০],}];', 'নথি[%s]["নম্বর"][%s] = ৫;' % (bn(rng.randrange(2)), bn(rng.randrange(3))), 'দেখাও নথি[০]["নম্বর"];', 'দেখাও নথি[১]["নম্বর"];',
                  '_লিস্ট-পপ(ছক[০]);', 'দেখাও ছক;', 'দেখাও _লিস্ট-লেন(ছক[০]);']
        cases.append({'src': prog(lines), 'kind': 'multi-level-assignment'})
    return cases


# ---------------------------------------------------------------- C19: both fragments import the same module file
def shared_module_fragments():
    util = prog(['নাম গণনা = ০;', 'ফাং দ্বিগুণ(ক) {', '    গণনা = গণনা + ১;', '    ফেরত ক * ২;', '} ফেরত;', 'দেখাও "util লোড";'])
    out = []
    for a1, a2 in [('প্রথম', 'দ্বিতীয়'), ('ক', 'ক'), ('ক', 'ক/খ'), ('গ', 'গণিত')]:
        p1 = prog(['মডিউল %s = "util.pakhi";' % a1, 'দেখাও %s/দ্বিগুণ(২);' % a1, 'দেখাও "P1 শেষ";'])
        p2 = prog(['মডিউল %s = "util.pakhi";' % a2, 'দেখাও %s/দ্বিগুণ(৫);' % a2, 'দেখাও %s/গণনা;' % a2, 'দেখাও "P2 শেষ";'])
        out.append({'p1': p1, 'p2': p2, 'files': [('util.pakhi', util)], 'kind': 'compose shared-module'})
    # P1 imports, P2 imports a module that imports the same file
    mid = prog(['মডিউল ভিতর = "util.pakhi";', 'ফাং চার(ক) {', '    ফেরত ভিতর/দ্বিগুণ(ভিতর/দ্বিগুণ(ক));', '} ফেরত;'])
    out.append({'p1': prog(['মডিউল উ = "util.pakhi";', 'দেখাও উ/দ্বিগুণ(১);']), 'p2': prog(['মডিউল ম = "mid.pakhi";', 'দেখাও ম/চার(৩);', 'দেখাও ম/ভিতর/গণনা;']), 'files': [('util.pakhi', util), ('mid.pakhi', mid)], 'kind': 'compose shared-module'})
    return out


# ================================================================ round 9
# ---------------------------------------------------------------- C01: equality of a list and a record that have the same arena index
def cross_type_equality_programs():
    cases = []
    for order in (['নাম ল = [১, ২];', 'নাম র = @{"k" -> ১,};'], ['নাম র = @{"k" -> ১,};', 'নাম ল = [১, ২];'], ['নাম ল = [];', 'নাম র = @{};'],
                  ['নাম ল০ = [০];', 'নাম ল = [১];', 'নাম র০ = @{};', 'নাম র = @{"k" -> [১],};']):
        lines = order + ['দেখাও ল == র;', 'দেখাও ল != র;', 'দেখাও র == ল;', 'দেখাও [ল] == [র];', 'নাম মিশ্র = [র, ল, ১, "a", ল];',
                         'ফাং খোঁজ(ত, ক) {', '    নাম ই = ০;', '    লুপ {', '        যদি ই >= _লিস্ট-লেন(ত) {', '            ফেরত -১;', '        }', '        যদি ত[ই] == ক {', '            ফেরত ই;', '        }', '        ই = ই + ১;', '    } আবার;', '} ফেরত;',
                         'দেখাও খোঁজ(মিশ্র, ল);', 'দেখাও খোঁজ(মিশ্র, র);', 'দেখাও ল == ল;', 'দেখাও র == র;', 'দেখাও ল == ১;', 'দেখাও র != "k";', 'নাম শূ;', 'দেখাও ল == শূ;', 'দেখাও খোঁজ == ল;']
        cases.append({'src': prog(lines), 'kind': 'cross-type-equality'})
    return cases


# ---------------------------------------------------------------- C02: a condition that calls the function the chain stands in
def recursive_condition_programs():
    cases = []
    cases.append({'src': prog(['ফাং জোড়(ক) {', '    যদি ক == ০ {', '        ফেরত সত্য;', '    } অথবা যদি ক == ১ {', '        ফেরত মিথ্যা;', '    } অথবা যদি জোড়(ক - ২) {', '        ফেরত সত্য;', '    } অথবা {', '        ফেরত মিথ্যা;', '    }', '} ফেরত;',
                               'দেখাও জোড়(৬);', 'দেখাও জোড়(৭);', 'দেখাও জোড়(০);']), 'kind': 'recursive-condition'})
    cases.append({'src': prog(['নাম গাছ = @{"মান" -> ৫, "বাম" -> @{"মান" -> ৩, "বাম" -> ০, "ডান" -> ০,}, "ডান" -> @{"মান" -> ৮, "বাম" -> ০, "ডান" -> ০,},};',
                               'ফাং আছে(নোড, খোঁজ) {', '    যদি _টাইপ(নোড) == "_সংখ্যা" {', '        ফেরত মিথ্যা;', '    }', '    যদি নোড["মান"] == খোঁজ {', '        ফেরত সত্য;', '    } অথবা যদি আছে(নোড["বাম"], খোঁজ) {', '        ফেরত সত্য;', '    } অথবা {', '        ফেরত আছে(নোড["ডান"], খোঁজ);', '    }', '} ফেরত;',
                               'দেখাও আছে(গাছ, ৮);', 'দেখাও আছে(গাছ, ৩);', 'দেখাও আছে(গাছ, ৪);']), 'kind': 'recursive-condition'})
    cases.append({'src': prog(['ফাং গোনা(ক) {', '    যদি ক > ০ {', '        যদি গোনা(ক - ১) >= ০ {', '            ফেরত ক;', '        } অথবা {', '            ফেরত -১;', '        }', '    }', '    ফেরত ০;', '} ফেরত;', 'দেখাও গোনা(৪);',
                               'ফাং ক_খ(ক) {', '    নাম ফল = ০;', '    লুপ {', '        যদি ক < ১ {', '            থামাও;', '        } অথবা যদি ক_খ(ক - ১) > ১০০ {', '            থামাও;', '        }', '        ফল = ফল + ক;', '        ক = ক - ১;', '    } আবার;', '    ফেরত ফল;', '} ফেরত;', 'দেখাও ক_খ(৪);']), 'kind': 'recursive-condition'})
    return cases


# ---------------------------------------------------------------- C03: a continue directly behind a closing brace inside the body
def continue_after_block_programs(rng, n):
    cases = []
    for _ in range(n):
        kind = rng.choice(['if', 'else', 'bare', 'nested'])
        if kind == 'if': blk = ['    যদি ই % ২ == ০ {', '        নাম ভিতরের = "ভিতরের-" + _স্ট্রিং(ই);', '        দেখাও ভিতরের;', '    }', '    আবার;']
        elif kind == 'else': blk = ['    যদি ই % ২ == ১ {', '        দেখাও "বিজোড়";', '    } অথবা {', '        নাম ভিতরের = "ভিতরের-" + _স্ট্রিং(ই);', '        দেখাও ভিতরের;', '    }', '    আবার;']
        elif kind == 'bare': blk = ['    {', '        নাম ভিতরের = "ভিতরের-" + _স্ট্রিং(ই);', '        দেখাও ভিতরের;', '    }', '    আবার;']
        else: blk = ['    যদি সত্য {', '        {', '            নাম ভিতরের = ই;', '        }', '    }', '    আবার;']
        lines = ['নাম ভিতরের = "বাইরের";', 'নাম শরীরের = "বাইরের শরীর";', 'নাম ই = ০;', 'লুপ {', '    ই = ই + ১;', '    যদি ই > %s {' % bn(rng.randint(2, 5)), '        থামাও;', '    }',
                 '    দেখাও [ই, ভিতরের, শরীরের];', '    নাম শরীরের = "শরীর-" + _স্ট্রিং(ই);'] + blk + ['    দেখাও "এখানে নয়";', '} আবার;', 'দেখাও [ভিতরের, শরীরের, ই];']
        if rng.random() < 0.4: lines = ['ফাং চালাও() {'] + ind(lines) + ['    ফেরত ই;', '} ফেরত;', 'দেখাও চালাও();', 'দেখাও চালাও();']
        cases.append({'src': prog(lines), 'kind': 'continue-after-block'})
    return cases


# ---------------------------------------------------------------- C05: a return whose operand begins with a prefix operator
def prefix_return_programs():
    cases = []
    lines = ['ফাং জোড়(ন) {', '    ফেরত ন % ২ == ০;', '} ফেরত;', 'ফাং বিজোড়(ন) {', '    ফেরত !জোড়(ন);', '} ফেরত;', 'ফাং উল্টো(ক) {', '    ফেরত -ক;', '} ফেরত;', 'ফাং উল্টো২(ক) {', '    ফেরত -(ক + ১);', '} ফেরত;',
             'ফাং না(ক) {', '    ফেরত !ক;', '} ফেরত;', 'ফাং না২(ক, খ) {', '    ফেরত !(ক & খ);', '} ফেরত;', 'ফাং ঋণ() {', '    ফেরত -৫;', '} ফেরত;', 'ফাং দ্বিঋণ(ক) {', '    ফেরত - -ক;', '} ফেরত;', 'ফাং তালিকার(ত) {', '    ফেরত -ত[০];', '} ফেরত;',
             'দেখাও বিজোড়(৩);', 'দেখাও বিজোড়(৪);', 'দেখাও উল্টো(৭);', 'দেখাও উল্টো২(৭);', 'দেখাও না(সত্য);', 'দেখাও না২(সত্য, মিথ্যা);', 'দেখাও ঋণ();', 'দেখাও দ্বিঋণ(৩);', 'দেখাও তালিকার([৯]);',
             'যদি বিজোড়(৫) {', '    দেখাও "বিজোড়";', '} অথবা {', '    দেখাও "জোড়";', '}', 'দেখাও _টাইপ(উল্টো(১));', 'দেখাও _টাইপ(না(মিথ্যা));']
    cases.append({'src': prog(lines), 'kind': 'prefix-return'})
    cases.append({'src': prog(['ফাং ফ(ক) {', '    যদি ক > ০ {', '        ফেরত -ক;', '    }', '    ফেরত !সত্য;', '} ফেরত;', 'দেখাও ফ(২);', 'দেখাও ফ(-২);', 'নাম ই = ০;', 'লুপ {', '    ই = ই + ১;', '    যদি ই > ২ {', '        থামাও;', '    }', '    দেখাও ফ(ই) * ২;', '} আবার;']), 'kind': 'prefix-return'})
    return cases


# ---------------------------------------------------------------- C06: fractional positions in indexed assignment (reads truncate, so must writes)
def fractional_index_programs(rng, n):
    cases = []
    for _ in range(n):
        ln = rng.randint(3, 8)
        lines = ['নাম ত = [%s];' % ', '.join(bn(i * 10) for i in range(ln)), 'নাম উপ = ত;', 'নাম নথি = @{"ত" -> ত,};']
        for _k in range(rng.randint(2, 5)):
            i = rng.randrange(ln)
            frac = rng.choice(['.৫', '.৭৫', '.৯৯', '.২৫', '.৪৯', '.৫০০০১'])
            form = rng.choice(['%s%s' % (bn(i), frac), '(%s + %s) / ২' % (bn(i), bn(i + 1)), '%s / ৪' % bn(4 * i + rng.randint(1, 3))])
            lines += ['ত[%s] = %s;' % (form, bn(rng.randint(100, 999))), 'দেখাও ত;', 'দেখাও উপ[%s];' % form, 'দেখাও নথি["ত"][%s];' % bn(i)]
        # a heap: parent (i - 1) / 2
        lines += ['নাম স্তূপ = [৯, ৭, ৮, ১, ২, ৩];', 'নাম ই = ৫;', 'লুপ {', '    যদি ই < ১ {', '        থামাও;', '    }', '    নাম বাবা = (ই - ১) / ২;', '    স্তূপ[বাবা] = স্তূপ[বাবা] + স্তূপ[ই];', '    ই = ই - ১;', '} আবার;', 'দেখাও স্তূপ;']
        cases.append({'src': prog(lines), 'kind': 'fractional-index'})
    return cases


# ---------------------------------------------------------------- C06 / C07: programs whose variables hold records only when a collection runs
def record_only_gc_programs():
    cases = []
    for n in (300, 700):
        lines = ['নাম ব্যাংক = @{"নাম" -> "ক", "জমা" -> ০,};', 'নাম উপনাম = ব্যাংক;', 'নাম সঞ্চয় = @{"মালিক" -> ব্যাংক, "হার" -> ৫,};', 'নাম ই = ০;', 'লুপ {', '    যদি ই >= %s {' % bn(n), '        থামাও;', '    }',
                 '    নাম অস্থায়ী = @{"ক" -> ই, "খ" -> @{"গ" -> ই,},};', '    ব্যাংক["জমা"] = ব্যাংক["জমা"] + অস্থায়ী["খ"]["গ"];', '    ই = ই + ১;', '} আবার;',
                 'দেখাও ব্যাংক["জমা"];', 'দেখাও উপনাম["নাম"];', 'দেখাও সঞ্চয়["মালিক"]["জমা"];', 'নাম চতুর্থ = @{"x" -> ১,};', 'চতুর্থ["x"] = ২;', 'দেখাও সঞ্চয়["হার"];', 'দেখাও উপনাম["জমা"];', 'দেখাও চতুর্থ["x"];']
        cases.append({'src': prog(lines), 'kind': 'record-only-gc', 'budget': 60000, 'scheds': ['n', '1', '01']})
        lines2 = ['নাম অবস্থা = @{"তালিকা" -> [১, ২, ৩], "গণনা" -> ০,};', 'নাম ই = ০;', 'লুপ {', '    যদি ই >= %s {' % bn(n), '        থামাও;', '    }', '    নাম অ = @{"ই" -> [ই, ই],};', '    অবস্থা["গণনা"] = অবস্থা["গণনা"] + ১;', '    ই = ই + ১;', '} আবার;',
                  'দেখাও অবস্থা["তালিকা"];', 'দেখাও অবস্থা["গণনা"];', 'নাম নতুন = [৭, ৭];', 'দেখাও অবস্থা["তালিকা"];']
        cases.append({'src': prog(lines2), 'kind': 'record-only-gc', 'budget': 60000, 'scheds': ['n', '1', '01']})
    return cases


# ---------------------------------------------------------------- C14 / C15: the directory constant in an import path of a module in another directory
def dirname_import_programs():
    cases = []
    units_root = prog(['নাম একক = "মিটার";', 'নাম গুণ = ১;'])
    units_lib = prog(['নাম একক = "সেন্টিমিটার";', 'নাম গুণ = ১০০;'])
    for form in ['_ডাইরেক্টরি + "units.pakhi"', '_ডাইরেক্টরি + "" + "units.pakhi"', '"lib/" + "units.pakhi"', '"lib" + "/units.pakhi"', '"lib/units.pakhi"', '"li" + "b/un" + "its.pakhi"']:
        shapes = prog(['মডিউল একক = %s;' % form, 'ফাং দৈর্ঘ্য(ক) {', '    ফেরত ক * একক/গুণ;', '} ফেরত;', 'নাম নাম_একক = একক/একক;'])
        for main in ('m.pakhi', 'app/main.pakhi'):
            pre = 'app/' if main.startswith('app/') else ''
            files = [(pre + 'lib/shapes.pakhi', shapes), (pre + 'lib/units.pakhi', units_lib), (pre + 'units.pakhi', units_root)]
            c = {'src': prog(['মডিউল আ = "lib/shapes.pakhi";', 'মডিউল মূল_একক = "units.pakhi";', 'দেখাও আ/নাম_একক;', 'দেখাও আ/দৈর্ঘ্য(৮);', 'দেখাও মূল_একক/একক;', 'দেখাও আ/একক/গুণ;']), 'files': files, 'kind': 'dirname-import'}
            if main != 'm.pakhi': c['main'] = main
            cases.append(c)
    # the constant in the root and in a module of the same directory
    cases.append({'src': prog(['মডিউল উ = _ডাইরেক্টরি + "units.pakhi";', 'দেখাও উ/একক;']), 'files': [('units.pakhi', units_root)], 'kind': 'dirname-import'})
    return cases


# ---------------------------------------------------------------- C19: what P1 may leave behind that only a particular P2 notices
def residue_fragments():
    out = []
    loop_break = ['নাম আই = ০;', 'লুপ {', '    আই = আই + ১;', '    যদি আই > ৩ {', '        থামাও;', '    }', '    নাম ভিতর = আই;', '} আবার;', 'দেখাও আই;']
    two_loops = loop_break + ['নাম আজ = ০;', 'লুপ {', '    আজ = আজ + ১;', '    যদি আজ > ২ {', '        থামাও;', '    }', '} আবার;']
    many_builtins = ['নাম আতা = [];', 'নাম আই = ০;', 'লুপ {', '    যদি আই >= ৭০০ {', '        থামাও;', '    }', '    _লিস্ট-পুশ(আতা, আই);', '    আই = আই + ১;', '} আবার;', 'দেখাও _লিস্ট-লেন(আতা);']
    many_calls = ['ফাং আফ(ক) {', '    ফেরত ক + ১;', '} ফেরত;', 'নাম আই = ০;', 'লুপ {', '    যদি আই >= ৬০০ {', '        থামাও;', '    }', '    আই = আফ(আই);', '} আবার;', 'দেখাও আই;']
    surplus_brace = ['দেখাও "দ্বি ক";', '}', 'দেখাও "দ্বি খ";']
    two_braces = ['দেখাও "দ্বি ক";', '}', '}', 'দেখাও "দ্বি খ";']
    deep = ['ফাং দ্বিগভীর(ন) {', '    যদি ন < ১ {', '        ফেরত ০;', '    }', '    ফেরত ১ + দ্বিগভীর(ন - ১);', '} ফেরত;', 'দেখাও দ্বিগভীর(৪০০);', 'দেখাও _টাইপ(_লিস্ট-লেন([১]));']
    stray = ['দেখাও "দ্বি ক";', 'আবার;', 'দেখাও "দ্বি খ";']
    multi_line_strings = ['নাম আলেখা = "এক\nদুই\n";', 'দেখাও "তিন\n";', 'নাম আআর = "চার\n\n";', 'দেখাও "P1 শেষ";']
    late_fault = ['দেখাও "দ্বি ক";', 'নাম দ্বিখ = "পাঁচ\n";', 'দেখাও দ্বিনাই;']
    for p1 in (loop_break, two_loops, many_builtins, many_calls, multi_line_strings):
        for p2 in (surplus_brace, two_braces, deep, stray, late_fault):
            out.append({'p1': prog(p1), 'p2': prog(p2), 'kind': 'compose residue', 'budget': 60000})
    return out


# ================================================================ round 10
def double_prefix_programs():
    """two prefix operators in a row, and calls with fewer arguments than parameters next to a same-named global"""
    lines = ['নাম ক = ৫;', 'নাম খ = সত্য;', 'ফাং ফ(x) {', '    ফেরত x + ১;', '} ফেরত;', 'দেখাও --ক;', 'দেখাও !!খ;', 'দেখাও - -ক;', 'দেখাও !!(ক > ৩);', 'দেখাও --ফ(২);', 'দেখাও ---ক;', 'দেখাও !!!খ;', 'দেখাও -(-ক);', 'দেখাও !(!খ);',
             'দেখাও ১ - --ক;', 'দেখাও ২ * -ক;', 'দেখাও খ & !!খ;', 'দেখাও [--ক, !!খ];']
    cases = [{'src': prog(lines), 'kind': 'double-prefix'}, {'src': prog(['নাম খ = সত্য;', 'দেখাও -!খ;']), 'kind': 'double-prefix'}, {'src': prog(['নাম ক = ১;', 'দেখাও !-ক;']), 'kind': 'double-prefix'}]
    few = ['নাম সূচক = ৩;', 'নাম ভিত্তি = ১০০;', 'ফাং ঘাত(ভিত্তি, সূচক) {', '    যদি _টাইপ(সূচক) == "_শূন্য" {', '        ফেরত ভিত্তি + ১;', '    }', '    ফেরত ভিত্তি * সূচক;', '} ফেরত;', 'দেখাও ঘাত(৫);', 'দেখাও ঘাত(৫, ২);', 'ফাং দুই(ক, খ) {', '    ফেরত [_টাইপ(ক), _টাইপ(খ)];', '} ফেরত;', 'দেখাও দুই(১);', 'দেখাও দুই();', 'দেখাও সূচক + ভিত্তি;', 'দেখাও ঘাত();']
    cases.append({'src': prog(few), 'kind': 'missing-arguments'})
    return cases


def chain_edge_programs():
    """C02: an empty final else followed by statements; a literal condition in a branch that is never reached"""
    cases = []
    for els in (['} অথবা {', '}'], ['} অথবা {', '    # কিছু না #', '}'], ['} অথবা যদি মিথ্যা {', '} অথবা {', '}']):
        for v in ('৯৫', '৫০', '১০'):
            body = ['ফাং মান(ন) {', '    নাম ফল = "ক";', '    যদি ন > ৯০ {', '        ফল = "A";', '    } অথবা যদি ন > ৪০ {', '        ফল = "B";'] + ['    ' + l for l in els] + ['    দেখাও ফল;', '    যদি ন > ০ {', '        দেখাও "ধনাত্মক";', '    }', '    {', '        দেখাও "ব্লক";', '    }', '    ফেরত ফল;', '} ফেরত;', 'দেখাও মান(%s);' % v, 'দেখাও "পরে";']
            cases.append({'src': prog(body), 'kind': 'empty-final-else'})
    for c in ('১', '"x"', '[১]', 'i % ২', '-১', '(৩)'):
        cases.append({'src': prog(['নাম i = ৪;', 'দেখাও "আগে";', 'যদি i == ৪ {', '    দেখাও "চার";', '} অথবা যদি %s {' % c, '    দেখাও "না";', '} অথবা {', '    দেখাও "শেষ";', '}', 'দেখাও "পরে";']), 'kind': 'unreached-nonboolean'})
        cases.append({'src': prog(['নাম i = ৫;', 'দেখাও "আগে";', 'যদি i == ৪ {', '    দেখাও "চার";', '} অথবা যদি %s {' % c, '    দেখাও "না";', '}', 'দেখাও "পরে";']), 'kind': 'reached-nonboolean'})
    return cases


def shadow_then_return_programs():
    """C04: a block declares a name that shadows a parameter / an outer variable; a return, or the function's end, follows the '}'"""
    cases = []
    cases.append({'src': prog(['নাম ফল = ১০০;', 'ফাং ফ(ক) {', '    যদি ক > ০ {', '        নাম ক = ক * ১০;', '        নাম ফল = ক + ১;', '        দেখাও [ক, ফল];', '    }', '    ফেরত ক + ফল;', '} ফেরত;', 'দেখাও ফ(৫);', 'দেখাও ফ(-৫);', 'দেখাও ফল;',
                               'ফাং গ(ক) {', '    যদি ক > ০ {', '        নাম ক = ২০২;', '    } অথবা {', '        নাম ক = ৩০৩;', '    }', '    ফেরত ক;', '} ফেরত;', 'দেখাও গ(৩);', 'দেখাও গ(-৩);',
                               'ফাং ঘ() {', '    নাম র = ৭;', '    {', '        নাম র = ৮;', '    }', '} ফেরত র;']), 'kind': 'shadow-then-return'})
    cases.append({'src': prog(['নাম কাজ = "বাইরের";', 'নাম গণনা = ১;', '{', '    ফাং কাজ() {', '        ফেরত "ভিতরের";', '    } ফেরত;', '    দেখাও কাজ();', '}', 'দেখাও কাজ;', 'দেখাও _টাইপ(কাজ);',
                               'নাম ই = ০;', 'লুপ {', '    ই = ই + ১;', '    যদি ই > ২ {', '        থামাও;', '    }', '    দেখাও _টাইপ(গণনা);', '    ফাং গণনা() {', '        ফেরত ই;', '    } ফেরত;', '    দেখাও গণনা();', '} আবার;', 'দেখাও _টাইপ(গণনা);', 'গণনা = গণনা + ১০;', 'দেখাও গণনা;',
                               'ফাং বাইরে() {', '    ফাং সহায়ক() {', '        ফেরত "ভিতরের সহায়ক";', '    } ফেরত;', '    ফেরত সহায়ক();', '} ফেরত;', 'ফাং সহায়ক() {', '    ফেরত "বাইরের সহায়ক";', '} ফেরত;', 'দেখাও সহায়ক();', 'দেখাও বাইরে();', 'দেখাও সহায়ক();']), 'kind': 'function-shadows-variable'})
    return cases


def stale_name_cache_programs(rng, n):
    """C03: a name declared and re-assigned in a block nested in a loop body, the loop left or restarted from inside that
    block, then the same-named outer variable re-assigned"""
    cases = []
    for _ in range(n):
        jump = rng.choice(['থামাও;', 'আবার;'])
        lim = rng.randint(2, 4)
        lines = ['নাম অবস্থা = "ছোট";', 'নাম লগ = "";', 'নাম ই = ০;', 'লুপ {', '    ই = ই + ১;', '    যদি ই > %s {' % bn(lim + 2), '        থামাও;', '    }', '    যদি ই %% ২ == %s {' % bn(rng.randint(0, 1)).replace('%', ''),
                 '        নাম অবস্থা = "ভিতরের";', '        অবস্থা = অবস্থা + _স্ট্রিং(ই);', '        যদি ই >= %s {' % bn(lim), '            %s' % jump, '        }', '    }', '    অবস্থা = "বড়";', '    লগ = লগ + অবস্থা + " ";', '} আবার;',
                 'অবস্থা = অবস্থা + "!";', 'দেখাও অবস্থা;', 'দেখাও লগ;', '{', '    অবস্থা = "ব্লক";', '}', 'দেখাও অবস্থা;']
        cases.append({'src': prog(lines).replace('%%', '%'), 'kind': 'stale-name-cache'})
    return cases


def shadowed_root_programs():
    """C06 / C07: a container variable shadowed by a same-named declaration in a top-level block while a collection runs"""
    cases = []
    for n in (300, 500):
        for kind in ('block', 'loop'):
            inner = ['    নাম ফল = [০];'] + ind(counted_loop('ই', n, ['নাম অস্থায়ী = [ই, ই];', 'ফল = [ই];'])) + ['    দেখাও ফল;']
            wrap = ['{'] + inner + ['}'] if kind == 'block' else ['নাম বা = ০;', 'লুপ {', '    বা = বা + ১;', '    যদি বা > ১ {', '        থামাও;', '    }'] + inner + ['} আবার;']
            lines = ['নাম ফল = ["ক", "খ", "গ"];', 'নাম নথি = @{"k" -> ["মূল"],};'] + wrap + ['দেখাও ফল;', '_লিস্ট-পুশ(ফল, "ঘ");', 'নাম ধারক = [[১], [২]];', 'দেখাও ফল;', 'দেখাও নথি["k"];', 'দেখাও ধারক;']
            cases.append({'src': prog(lines), 'kind': 'shadowed-root', 'budget': 60000, 'scheds': ['n', '1']})
    # records holding lists of lists; the oldest record outliving many temporaries
    lines = ['নাম পুরনো = @{"নাম" -> "প্রথম", "ঘর" -> [[১, ২], [৩, ৪]],};'] + counted_loop('ই', 600, ['নাম অ = @{"ই" -> ই,};']) + ['দেখাও পুরনো["নাম"];', 'দেখাও পুরনো["ঘর"];', '_লিস্ট-পুশ(পুরনো["ঘর"][০], ৯);', 'নাম নতুন = [[৭]];', 'দেখাও পুরনো["ঘর"];', 'দেখাও _লিস্ট-লেন(পুরনো["ঘর"][১]);']
    cases.append({'src': prog(lines), 'kind': 'record-holds-lists', 'budget': 60000, 'scheds': ['n', '1']})
    lines = ['নাম নম্বর = @{"তালিকা" -> [৮০, ৯০, ৭৫],};'] + counted_loop('ই', 400, ['নাম অ = [ই, ই, ই];']) + ['দেখাও নম্বর["তালিকা"];', 'দেখাও নম্বর["তালিকা"][০] + নম্বর["তালিকা"][২];', 'নাম প্রথমে_লিস্ট = [১];'] + counted_loop('জ', 400, ['নাম আ = @{"a" -> জ,};']) + ['নাম রেকর্ড = @{"x" -> ১,};', 'দেখাও রেকর্ড;', 'দেখাও নম্বর["তালিকা"];']
    cases.append({'src': prog(lines), 'kind': 'record-holds-lists', 'budget': 60000, 'scheds': ['n', '1']})
    return cases


LEX_CORPUS4 = ['নাম ধাপ-১ = ৫;', 'দেখাও ধাপ-১ + সংখ্যা-২;', 'নাম ক-৯-খ = ১;', 'দেখাও "\\";', 'নাম পথ = "C:\\dir\\";', 'দেখাও _স্ট্রিং-স্প্লিট(পথ, "\\");', 'দেখাও "a\\" + "b";', 'ফেরত\rক;', 'নাম\rফল = ১;', '} অথবা\rযদি ক {',
               'দেখাও ৯;', 'দেখাও ৯০৫ + -৯৯;', 'দেখাও [৯১, ৯.৫, -৯];', 'দেখাও [১০,২০,৩০];', 'দেখাও যোগ(১০০,২৫০);', 'দেখাও [১,২০০];', 'দেখাও [১২,৩৪৫,৬৭৮];']


def parse_edge_programs():
    """C12: comments between a branch's '}' and the next else; a return of a record literal; a program that starts with else"""
    cases = []
    cases.append({'src': prog(['ফাং শ্রেণি(ন) {', '    # প্রথম #', '    যদি ন > ৯০ {', '        ফেরত "A";', '    }', '    # দ্বিতীয় #', '    অথবা যদি ন > ৫০ {', '        ফেরত "B";', '    }', '    # শেষ #', '    অথবা {', '        ফেরত "C";', '    }', '} ফেরত;',
                               'নাম ই = ০;', 'লুপ {', '    ই = ই + ১;', '    যদি ই > ৩ {', '        থামাও;', '    }', '    দেখাও শ্রেণি(ই * ৪০);', '} আবার;']), 'kind': 'comment-before-else'})
    cases.append({'src': prog(['ফাং বিন্দু(ক, খ) {', '    ফেরত @{"x" -> ক, "y" -> খ,};', '} ফেরত;', 'ফাং খালি() {', '    ফেরত @{};', '} ফেরত;', 'ফাং তালিকা() {', '    ফেরত [১, @{"k" -> ২,}];', '} ফেরত;', 'ফাং গভীর(ন) {', '    যদি ন > ০ {', '        লুপ {', '            ফেরত @{"ন" -> ন,};', '        } আবার;', '    }', '    ফেরত (ন);', '} ফেরত;',
                               'দেখাও বিন্দু(১, ২)["x"];', 'দেখাও খালি();', 'দেখাও তালিকা();', 'দেখাও গভীর(৩);', 'দেখাও গভীর(০);']), 'kind': 'return-record-literal'})
    for first in ('অথবা {\n    দেখাও "ক";\n}\nদেখাও "খ";\n', 'অথবা যদি সত্য {\n}\n', '}\n', 'আবার;\n', 'ফেরত;\n'):
        cases.append({'src': first, 'kind': 'starts-with-closer'})
    return cases


def multi_line_print_fault_programs():
    """C13: a print-without-newline statement that spans several lines and faults"""
    cases = []
    for f in ('নাই', '১ + "a"', '_এরর("থামো")', 'তা[৯]', '_লিস্ট-লেন(১)'):
        for kw in ('_দেখাও', 'দেখাও'):
            cases.append({'src': prog(['নাম তা = [১];', 'দেখাও "আগে";', kw, '    [১,', '     %s,' % f, '     ৩]', '    ;', 'দেখাও "পরে";']), 'kind': 'fault multi-line-print'})
            cases.append({'src': prog(['মডিউল হ = "hisab.pakhi";', 'হ/চালাও();']), 'files': [('hisab.pakhi', prog(['নাম তা = [১];', 'ফাং চালাও() {', '    ' + kw, '        "মোট: " +', '        %s' % f, '        ;', '} ফেরত;']))], 'kind': 'fault multi-line-print module'})
    for v in ('১ / ০', '০ / ০', '-১ / ০', '[১ / ০]', '@{"k" -> ০ / ০,}'):
        cases.append({'src': prog(['দেখাও "আগে";', 'দেখাও %s;' % v, 'দেখাও "পরে";']), 'kind': 'fault nonfinite-print'})
        cases.append({'src': prog(['দেখাও "আগে";', '_দেখাও %s;' % v, 'দেখাও "পরে";']), 'kind': 'fault nonfinite-print'})
    return cases


def forward_reference_module_programs():
    """C14: a qualified name written before its import statement and used after it; module names that are built-in names
    without their underscore"""
    cases = []
    lib = prog(['নাম মান = ৫;', 'ফাং বর্গ(ক) {', '    ফেরত ক * ক;', '} ফেরত;', 'মডিউল ভ = "inner.pakhi";'])
    inner = prog(['নাম গভীর = ৯;'])
    cases.append({'src': prog(['ফাং হিসাব(ক) {', '    ফেরত গ/বর্গ(ক) + গ/মান + গ/ভ/গভীর;', '} ফেরত;', 'নাম পরে = ০;', 'মডিউল গ = "lib.pakhi";', 'দেখাও হিসাব(৩);', 'গ/মান = ৭;', 'দেখাও হিসাব(১);']), 'files': [('lib.pakhi', lib), ('inner.pakhi', inner)], 'kind': 'forward-qualified-name'})
    words = prog(['নাম সংখ্যা = ১০০;', 'নাম টাইপ = "তালিকা";', 'ফাং স্ট্রিং(ক) {', '    ফেরত ক * ৪;', '} ফেরত;', 'ফাং লিস্ট-লেন(ত) {', '    ফেরত ৪০৪;', '} ফেরত;', 'নাম এরর = ২;', 'নাম দেখাও_না = ৩;'])
    cases.append({'src': prog(['নাম সংখ্যা = ৫;', 'নাম টাইপ = "রুট";', 'ফাং স্ট্রিং(ক) {', '    ফেরত ক + ৩;', '} ফেরত;', 'দেখাও সংখ্যা;', 'দেখাও টাইপ;', 'দেখাও স্ট্রিং(৫);', 'মডিউল গ = "words.pakhi";', 'দেখাও সংখ্যা;', 'দেখাও টাইপ;', 'দেখাও স্ট্রিং(৫);', 'দেখাও গ/এরর;',
                               'দেখাও গ/সংখ্যা;', 'দেখাও গ/টাইপ;', 'দেখাও গ/স্ট্রিং(১০০);', 'দেখাও গ/লিস্ট-লেন([]);', 'দেখাও _লিস্ট-লেন([১, ২]);']), 'files': [('words.pakhi', words)], 'kind': 'builtin-like-module-names'})
    return cases


def odd_import_path_programs():
    """C15: import paths that begin with './', module files whose names begin with '.', empty module files"""
    cases = []
    helper = prog(['নাম মান = ৩;'])
    for path, fname in [('./helper.pakhi', './helper.pakhi'), ('.conf.pakhi', '.conf.pakhi'), ('sub/.hidden.pakhi', 'sub/.hidden.pakhi'), ('sub/./helper.pakhi', 'sub/./helper.pakhi')]:
        cases.append({'src': prog(['মডিউল স = "%s";' % path, 'দেখাও স/মান;', 'দেখাও "শেষ";']), 'files': [(fname, helper)], 'kind': 'odd-import-path'})
    for body in ('', ' ', '\n', '{}', ';', '#c#'):
        cases.append({'src': prog(['মডিউল গ = "math.pakhi";', 'মডিউল স = "settings.pakhi";', 'দেখাও গ/মান;', 'দেখাও "শেষ";']), 'files': [('math.pakhi', helper), ('settings.pakhi', body)], 'kind': 'tiny-module'})
    return cases


def join_fault_programs():
    cases = []
    for a in ('"ক,খ"', 'শূ', '৫', '@{"k" -> "v",}', 'সত্য', 'জোড়'):
        cases.append({'src': prog(['নাম শূ;', 'ফাং জোড়() {', '} ফেরত;', 'দেখাও "আগে";', 'দেখাও _স্ট্রিং-জয়েন(%s, ",");' % a, 'দেখাও "পরে";']), 'kind': 'badargs'})
    cases.append({'src': prog(['নাম পথ = "C:\\dir\\file";', 'নাম ভাগ = _স্ট্রিং-স্প্লিট(পথ, "\\");', 'দেখাও ভাগ;', 'দেখাও _স্ট্রিং-জয়েন(ভাগ, "\\") == পথ;', 'দেখাও _স্ট্রিং-জয়েন(ভাগ, "\\");', 'দেখাও "\\";']), 'kind': 'backslash-separator'})
    return cases
