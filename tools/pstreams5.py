"""Fifth batch of generators (seeded round 8): a chain directly followed by a jump statement, loops left through a block
that holds nothing but the break / continue, surplus call arguments with side effects, fresh containers held by a
caller while the callee allocates a lot."""
import itertools
from genprog import bn
from pstreams3 import prog, ind, counted_loop


def _chain(conds, with_else, tag):
    lines = []
    for i, c in enumerate(conds):
        lines.append(('যদি %s {' if i == 0 else '} অথবা যদি %s {') % c)
        lines.append('    দেখাও "%s%s";' % (tag, bn(i + 1)))
    if with_else:
        lines += ['} অথবা {', '    দেখাও "%sশেষ";' % tag]
    lines.append('}')
    return lines


# ---------------------------------------------------------------- C02: the statement after the chain is a return / continue / break
def chain_then_jump_programs(rng, n):
    cases = []
    T, F = ['সত্য', '১ < ২', 'ক > ০'], ['মিথ্যা', '২ < ১', 'ক < ০']
    shapes = []
    for k in (1, 2, 3):
        for tv in itertools.product([True, False], repeat=k):
            for e in (False, True):
                shapes.append((tv, e))
    rng.shuffle(shapes)
    for tv, e in shapes[:max(8, n // 6)] + [((False,), False), ((True, False), True), ((False, True, False), True), ((True,), False)]:
        conds = [rng.choice(T if b else F) for b in tv]
        ch = _chain(conds, e, 'শ')
        # in a function, directly followed by a return with a value; something unreachable after it
        cases.append({'src': prog(['ফাং ফ(ক) {'] + ind(ch) + ['    ফেরত ক * ২;', '    দেখাও "ফেরতের পরে";', '} ফেরত;', 'দেখাও ফ(৩);', 'দেখাও _টাইপ(ফ(৪));', 'দেখাও "শেষ";']), 'kind': 'chain-then-return'})
        # return without value
        cases.append({'src': prog(['নাম ক = ১;', 'ফাং ফ() {'] + ind(ch) + ['    ফেরত;', '    দেখাও "ফেরতের পরে";', '} ফেরত;', 'দেখাও _টাইপ(ফ());', 'দেখাও "শেষ";']), 'kind': 'chain-then-return'})
        # in a loop, directly followed by an explicit continue
        cases.append({'src': prog(['নাম ক = ১;', 'নাম ই = ০;', 'লুপ {', '    ই = ই + ১;', '    যদি ই > ৩ {', '        থামাও;', '    }'] + ind(ch) + ['    আবার;', '    দেখাও "আবারের পরে";', '} আবার;', 'দেখাও ই;']), 'kind': 'chain-then-continue'})
        # in a loop, directly followed by a break
        cases.append({'src': prog(['নাম ক = ১;', 'নাম ই = ০;', 'লুপ {', '    ই = ই + ১;'] + ind(ch) + ['    থামাও;', '    দেখাও "থামাওয়ের পরে";', '} আবার;', 'দেখাও ই;']), 'kind': 'chain-then-break'})
        # nested: the chain is the last thing in a block that is followed by the loop's closing continue
        cases.append({'src': prog(['নাম ক = ১;', 'নাম ই = ০;', 'লুপ {', '    ই = ই + ১;', '    যদি ই > ২ {', '        থামাও;', '    }', '    {'] + ind(ch, 2) + ['    }', '} আবার;', 'দেখাও ই;']), 'kind': 'chain-then-loop-end'})
        cases.append({'src': prog(['নাম ক = ১;', 'নাম ই = ০;', 'লুপ {', '    ই = ই + ১;', '    যদি ই > ২ {', '        থামাও;', '    }'] + ind(ch) + ['} আবার;', 'দেখাও ই;']), 'kind': 'chain-then-loop-end'})
        # a function whose body ends with the chain: the closing return follows directly
        cases.append({'src': prog(['নাম ক = ১;', 'ফাং ফ() {'] + ind(ch) + ['} ফেরত;', 'দেখাও _টাইপ(ফ());', 'দেখাও "শেষ";']), 'kind': 'chain-then-function-end'})
    return cases


# ---------------------------------------------------------------- C03: a block that holds nothing but the jump
def jump_only_exit_programs(rng, n):
    cases = []
    for _ in range(n):
        jump = rng.choice(['থামাও;', 'থামাও;', 'আবার;'])
        limit = rng.randint(1, 4)
        shadow = rng.choice(['ফল', 'গণনা', 'ট'])
        comment = rng.choice(['', '        # বের হও #'])
        guard = 'ই > %s' % bn(limit) if jump == 'থামাও;' else 'ই % ২ == ০'
        body = ['    ই = ই + ১;', '    নাম %s = "ভিতরে";' % shadow] + (['    যদি ই > ৫ {', '        থামাও;', '    }'] if jump == 'আবার;' else []) + \
               ['    যদি %s {' % guard] + ([comment] if comment else []) + ['        %s' % jump, '    }', '    নাম পরে = ই * ১০;', '    দেখাও [%s, পরে];' % shadow]
        wrap = rng.choice(['plain', 'block', 'if', 'func', 'nested'])
        outer = ['নাম %s = "বাইরে";' % shadow, 'নাম ই = ০;']
        loop = ['লুপ {'] + body + ['} আবার;']
        after = ['দেখাও %s;' % shadow, 'দেখাও ই;']
        if wrap == 'plain':
            lines = outer + loop + after
        elif wrap == 'block':
            lines = outer + ['{', '    নাম ব্লকের = "ব্লক";'] + ind(loop) + ['    দেখাও ব্লকের;', '    দেখাও %s;' % shadow, '}'] + after
        elif wrap == 'if':
            lines = outer + ['যদি সত্য {', '    নাম শাখার = "শাখা";'] + ind(loop) + ['    দেখাও শাখার;', '} অথবা {', '    দেখাও "ভুল";', '}'] + after
        elif wrap == 'func':
            lines = outer + ['ফাং চালাও() {', '    নাম স্থানীয় = "ফাংশন";'] + ind(loop) + ['    দেখাও স্থানীয়;', '    দেখাও %s;' % shadow, '    ফেরত ই;', '} ফেরত;', 'দেখাও চালাও();'] + after
        else:
            lines = outer + ['নাম বা = ০;', 'লুপ {', '    বা = বা + ১;', '    যদি বা > ২ {', '        থামাও;', '    }', '    ই = ০;', '    নাম বাইরের_লুপের = বা;'] + ind(loop) + ['    দেখাও [বাইরের_লুপের, %s];' % shadow, '} আবার;'] + after
        cases.append({'src': prog(lines), 'kind': 'jump-only-block'})
    return cases


# ---------------------------------------------------------------- C05: more arguments than parameters, and the surplus ones have effects
def surplus_argument_programs(rng, n):
    cases = []
    pre = ['নাম লগ = [];', 'ফাং ছাপ(ক) {', '    দেখাও "ছাপ " + _স্ট্রিং(ক);', '    _লিস্ট-পুশ(লগ, ক);', '    ফেরত ক;', '} ফেরত;',
           'ফাং শূন্য_প্যারাম() {', '    ফেরত "০";', '} ফেরত;', 'ফাং এক_প্যারাম(ক) {', '    ফেরত ক;', '} ফেরত;', 'ফাং দুই_প্যারাম(ক, খ) {', '    ফেরত [ক, খ];', '} ফেরত;']
    effects = ['ছাপ(৭)', '_লিস্ট-পুশ(লগ, ৯)', '_লিস্ট-পপ(লগ)', 'ছাপ(ছাপ(১))', 'লগ[৫০]', 'নাই', '১ + "a"', '[ছাপ(২)]', '@{"k" -> ছাপ(৩),}', 'এক_প্যারাম(ছাপ(৪), ছাপ(৫))']
    for _ in range(n):
        f, np = rng.choice([('শূন্য_প্যারাম', 0), ('এক_প্যারাম', 1), ('দুই_প্যারাম', 2)])
        extra = rng.randint(1, 3)
        args = ['ছাপ(%s)' % bn(10 + i) if rng.random() < 0.5 else bn(i) for i in range(np)] + [rng.choice(effects) for _ in range(extra)]
        where = rng.choice(['top', 'loop', 'func', 'arg'])
        call = '%s(%s)' % (f, ', '.join(args))
        if where == 'top':
            lines = pre + ['_লিস্ট-পুশ(লগ, ০);', 'দেখাও %s;' % call, 'দেখাও লগ;']
        elif where == 'loop':
            lines = pre + ['_লিস্ট-পুশ(লগ, ০);'] + counted_loop('ই', 2, ['দেখাও %s;' % call]) + ['দেখাও লগ;']
        elif where == 'func':
            lines = pre + ['_লিস্ট-পুশ(লগ, ০);', 'ফাং বাইরে() {', '    নাম ফল = %s;' % call, '    ফেরত ফল;', '} ফেরত;', 'দেখাও বাইরে();', 'দেখাও লগ;']
        else:
            lines = pre + ['_লিস্ট-পুশ(লগ, ০);', 'দেখাও এক_প্যারাম(%s);' % call, 'দেখাও লগ;']
        cases.append({'src': prog(lines + ['দেখাও "শেষ";']), 'kind': 'surplus-arguments'})
    return cases


# ---------------------------------------------------------------- C06 / C07: a fresh container held by the caller while the callee allocates
def held_while_callee_allocates_programs():
    cases = []
    heavy = ['ফাং ভারী(ন) {', '    নাম ই = ০;', '    নাম শেষটা = [];', '    লুপ {', '        যদি ই >= ন {', '            থামাও;', '        }', '        শেষটা = [ই, ই + ১];', '        ই = ই + ১;', '    } আবার;', '    ফেরত শেষটা;', '} ফেরত;']
    uses = ['নাম ফল = [[১, ২, ৩], ভারী(%s)];', 'নাম ফল = @{"a" -> [১, ২, ৩], "b" -> ভারী(%s),};', 'নাম ফল = [১, ২, ৩] + ভারী(%s);', 'নাম ফল = জোড়া([১, ২, ৩], ভারী(%s));', 'নাম ফল = [[[৭]], @{"k" -> [৮],}, ভারী(%s)];',
            'নাম ফল = জোড়া(ভারী(%s), [৪, ৫]);', 'নাম ফল = [ভারী(%s), [১], ভারী(৩০০)];']
    for count in (120, 400, 700):
        for u in uses:
            lines = heavy + ['ফাং জোড়া(ক, খ) {', '    ফেরত [ক, খ];', '} ফেরত;', 'নাম আগে = [["x"], ["y"]];', u % bn(count), 'দেখাও ফল;', 'নাম নতুন = [[৯, ৯], [৮, ৮]];', 'দেখাও ফল;', 'দেখাও আগে;', 'দেখাও নতুন;']
            cases.append({'src': prog(lines), 'kind': 'held-while-callee-allocates', 'budget': 60000, 'scheds': ['n', '1']})
        # an indexed assignment whose index expression calls the allocating function
        lines = heavy + ['নাম ত = [০, ০, ০];', 'ফাং সূচক(ন) {', '    ভারী(ন);', '    ফেরত ১;', '} ফেরত;', 'ত[সূচক(%s)] = [১, ২, ৩];' % bn(count), 'দেখাও ত;', 'নাম নতুন = [[৯]];', 'দেখাও ত;']
        cases.append({'src': prog(lines), 'kind': 'held-while-callee-allocates', 'budget': 60000, 'scheds': ['n', '1']})
    return cases


# ---------------------------------------------------------------- C10: integer literals beyond 2^63, 2^64 and 10^19..10^40
LEX_CORPUS3 = ['দেখাও ১৮৪৪৬৭৪৪০৭৩৭০৯৫৫১৬১৫;', 'দেখাও ১৮৪৪৬৭৪৪০৭৩৭০৯৫৫১৬১৬;', 'দেখাও ৯২২৩৩৭২০৩৬৮৫৪৭৭৫৮০৭;', 'দেখাও ৯২২৩৩৭২০৩৬৮৫৪৭৭৫৮০৮;', 'নাম ক = ১২৩৪৫৬৭৮৯০১২৩৪৫৬৭৮৯০;', 'নাম ক = -১২৩৪৫৬৭৮৯০১২৩৪৫৬৭৮৯০১;',
               'নাম ক = ১২৩৪৫৬৭৮৯০১২৩৪৫৬৭৮৯০.৫;', 'নাম ক = ৯৯৯৯৯৯৯৯৯৯৯৯৯৯৯৯৯৯৯৯৯৯৯৯৯৯৯৯৯৯৯৯৯৯৯৯৯৯৯৯৯৯;', 'নাম ক = ১' + '০' * 30 + ';', 'নাম ক = ০.' + '০' * 30 + '১;', 'ক = ক + ১০০০০০০০০০০০০০০০০০০০০ - ১;',
               'দেখাও [১৮৪৪৬৭৪৪০৭৩৭০৯৫৫১৬১৭, ৩৪০২৮২৩৬৬৯২০৯৩৮৪৬৩৪৬৩৩৭৪৬০৭৪৩১৭৬৮২১১৪৫৬];', 'দেখাও ০০০০০০০০০০০০০০০০০০০০০০০০১;', 'দেখাও ১' + '৭' * 308 + ';', 'দেখাও ১' + '৭' * 309 + ';']


# ---------------------------------------------------------------- C13: a string literal that ends with a line break, then a fault
def string_newline_fault_programs():
    cases = []
    faults = ['দেখাও নাই;', 'দেখাও ১ + "a";', 'দেখাও লেখা[৫];', '_লিস্ট-পপ([], ৩);']
    strings = ['"ক\n"', '"ক\nখ\n"', '"\n"', '"\n\n"', '"ক\r\n"', '"ক\nখ"', '"ক\n\nখ\n\n"']
    for s in strings:
        for f in faults:
            cases.append({'src': prog(['নাম লেখা = %s;' % s, 'দেখাও "আগে";', f, 'দেখাও "পরে";']), 'kind': 'fault string-ending-in-newline'})
            cases.append({'src': prog(['দেখাও "শুরু";', 'ফাং ফ() {', '    নাম লেখা = %s;' % s, '    নাম আরেক = %s;' % s, '    ' + f, '} ফেরত;', 'ফ();']), 'kind': 'fault string-ending-in-newline'})
        cases.append({'src': prog(['মডিউল ম = "lib.pakhi";', 'দেখাও "পরে";']), 'files': [('lib.pakhi', prog(['নাম লেখা = %s;' % s, 'দেখাও নাই;']))], 'kind': 'fault string-ending-in-newline module'})
    return cases


# ---------------------------------------------------------------- C14 / C15: a module that ends with an import statement
def module_ending_with_import_programs():
    cases = []
    leaf = prog(['নাম মান = ৫;', 'ফাং দ্বিগুণ(ক) {', '    ফেরত ক * ২;', '} ফেরত;'])
    for last in ['মডিউল খ = "leaf.pakhi";', 'মডিউল খ = "leaf" + ".pakhi";', 'মডিউল খ = "leaf.pakhi"; # শেষ #', 'মডিউল খ = "leaf.pakhi";\n\n', 'মডিউল খ = "leaf.pakhi"']:
        for pre in ([], ['নাম নিজের = ১;'], ['মডিউল গ = "leaf.pakhi";']):
            lib = '\n'.join(pre + [last]) + ('\n' if not last.endswith('\n') and not last.endswith('"') else '')
            cases.append({'src': prog(['মডিউল ক = "lib.pakhi";', 'দেখাও ক/খ/মান;', 'দেখাও ক/খ/দ্বিগুণ(৪);', 'দেখাও "শেষ";']), 'files': [('lib.pakhi', lib), ('leaf.pakhi', leaf)], 'kind': 'module-ends-with-import'})
    # collecting module: nothing but imports
    cases.append({'src': prog(['মডিউল সব = "all.pakhi";', 'দেখাও সব/ক/মান + সব/খ/মান;']), 'files': [('all.pakhi', 'মডিউল ক = "leaf.pakhi";\nমডিউল খ = "leaf.pakhi";'), ('leaf.pakhi', leaf)], 'kind': 'module-ends-with-import'})
    # modules ending with a comment, with a call without its optional ';', with '}' ...
    for tail in ['# শেষ #', '# এক #\n# দুই #\n', 'দেখাও মান', 'দ্বিগুণ(২)', '{\n}', 'নাম শেষের;']:
        cases.append({'src': prog(['মডিউল ক = "lib.pakhi";', 'দেখাও ক/মান;', 'দেখাও "শেষ";']), 'files': [('lib.pakhi', leaf + tail)], 'kind': 'module-ending'})
    return cases


# ---------------------------------------------------------------- C16 / C06: indexed assignment through two and three levels with unequal indexes
def multi_level_assignment_programs(rng, n):
    cases = []
    for _ in range(n):
        r, c = rng.randint(2, 4), rng.randint(2, 4)
        lines = ['নাম ছক = [];'] + counted_loop('ই', r, ['_লিস্ট-পুশ(ছক, [%s]);' % ', '.join(['০'] * c)])
        for _k in range(rng.randint(2, 5)):
            i, j = rng.randrange(r), rng.randrange(c)
            lines.append('ছক[%s][%s] = %s;' % (bn(i), bn(j), bn(rng.randint(1, 99))))
        lines += ['দেখাও ছক;', 'দেখাও _লিস্ট-লেন(ছক[০]);', '_লিস্ট-পুশ(ছক[%s], ৭);' % bn(rng.randrange(r)), 'দেখাও ছক;']
        # three levels, mixed with records
        lines += ['নাম ঘন = [[[০, ০, ০], [০, ০, ০]], [[০, ০, ০], [০, ০, ০]]];', 'ঘন[%s][%s][%s] = ৭;' % (bn(rng.randrange(2)), bn(rng.randrange(2)), bn(rng.randrange(3))), 'দেখাও ঘন;',
                  'নাম নথি = [@{"নম্বর" -> [০, ০, ০],}, @{"নম্বর" -> [০, ০, ০],}];', 'নথি[%s]["নম্বর"][%s] = ৫;' % (bn(rng.randrange(2)), bn(rng.randrange(3))), 'দেখাও নথি[০]["নম্বর"];', 'দেখাও নথি[১]["নম্বর"];',
                  '_লিস্ট-পপ(ছক[০]);', 'দেখাও ছক;', 'দেখাও _লিস্ট-লেন(ছক[০]);']
        cases.append({'src': prog(lines), 'kind': 'multi-level-assignment'})
    return cases


# ---------------------------------------------------------------- C19: both fragments import the same module file
def shared_module_fragments():
    util = prog(['নাম গণনা = ০;', 'ফাং দ্বিগুণ(ক) {', '    গণনা = গণনা + ১;', '    ফেরত ক * ২;', '} ফেরত;', 'দেখাও "util লোড";'])
    out = []
    for a1, a2 in [('প্রথম', 'দ্বিতীয়'), ('ক', 'ক'), ('ক', 'ক/খ'), ('গ', 'গণিত')]:
        p1 = prog(['মডিউল %s = "util.pakhi";' % a1, 'দেখাও %s/দ্বিগুণ(২);' % a1, 'দেখাও "P1 শেষ";'])
        p2 = prog(['মডিউল %s = "util.pakhi";' % a2, 'দেখাও %s/দ্বিগুণ(৫);' % a2, 'দেখাও %s/গণনা;' % a2, 'দেখাও "P2 শেষ";'])
        out.append({'p1': p1, 'p2': p2, 'files': [('util.pakhi', util)], 'kind': 'compose shared-module'})
    # P1 imports, P2 imports a module that imports the same file
    mid = prog(['মডিউল ভিতর = "util.pakhi";', 'ফাং চার(ক) {', '    ফেরত ভিতর/দ্বিগুণ(ভিতর/দ্বিগুণ(ক));', '} ফেরত;'])
    out.append({'p1': prog(['মডিউল উ = "util.pakhi";', 'দেখাও উ/দ্বিগুণ(১);']), 'p2': prog(['মডিউল ম = "mid.pakhi";', 'দেখাও ম/চার(৩);', 'দেখাও ম/ভিতর/গণনা;']), 'files': [('util.pakhi', util), ('mid.pakhi', mid)], 'kind': 'compose shared-module'})
    return out
