"""Random Pakhi program generator: structured, mostly valid and terminating programs as lists of flat
statements (each a list of token texts), so that layouts, truncations and token mutations can be derived.
All randomness comes from the random.Random passed in."""
import random

BN = '০১২৩৪৫৬৭৮৯'


def bn(n):
    """Bangla-digit literal for an int or a float given as decimal text"""
    s = str(n)
    return ''.join(BN[int(c)] if c.isdigit() else c for c in s)


NAMES = ['ক', 'খ', 'গ', 'ঘ', 'চ', 'ছ', 'জ', 'ট', 'ড', 'ত', 'দ', 'ন', 'প', 'ফ', 'ব', 'ম']
STRS = ['', 'a', 'ab', 'কখ', 'শব্দ', ' ', 'x y', 'ক,খ', '12', '১২', 'সত্য']
NUMS = ['০', '১', '২', '৩', '৭', '১০', '০.৫', '১.২৫', '০.১', '২.২৮', '১০০', '৩.০', '০.০০১', '১২৩৪৫৬৭', '৯৯৯৯৯৯৯৯৯৯৯৯৯৯৯৯', '১০০০০০০০০০০০০০০০০০০০০০০']


class Scope:
    def __init__(self, parent=None):
        self.vars = {}      # name -> type
        self.parent = parent
    def lookup_all(self):
        d = {}
        s = self
        chain = []
        while s: chain.append(s); s = s.parent
        for s in reversed(chain): d.update(s.vars)
        return d


class Gen:
    def __init__(self, rng, ill_typed=0.015, risky=0.15, max_depth=3, use_records=True, use_funcs=True, use_loops=True,
                 use_builtins=True, nil_prob=0.03, undeclared=0.02, prefix=''):
        self.r = rng
        self.ill = ill_typed
        self.risky = risky            # probability of picking positions / indexes that may be out of range
        self.max_depth = max_depth
        self.use_records, self.use_funcs, self.use_loops, self.use_builtins = use_records, use_funcs, use_loops, use_builtins
        self.nil_prob = nil_prob
        self.undeclared = undeclared
        self.prefix = prefix          # name prefix so that two fragments share no names
        self.funcs = []               # (name, nparams, rettype)
        self.counter = 0
        self.out = []                 # flat statements
        self.in_func = False
        self.loop_depth = 0

    # ---------------------------------------------------------------- names
    def fresh(self):
        self.counter += 1
        return self.prefix + self.r.choice(NAMES) + bn(self.counter)

    def pick_var(self, scope, ty):
        vs = [n for n, t in scope.lookup_all().items() if t == ty or (ty == 'any' and t not in ('nil', 'func'))]
        if vs and self.r.random() > 0.1: return self.r.choice(vs)
        return None

    # ---------------------------------------------------------------- expressions (token lists)
    def expr(self, scope, ty, depth=0):
        r = self.r
        if r.random() < self.ill and depth > 0:
            ty = r.choice(['num', 'bool', 'str', 'list'])
        if r.random() < self.undeclared * 0.3:
            return [self.prefix + 'নাই' + bn(r.randint(1, 3))]
        leaf = depth >= self.max_depth or r.random() < 0.3
        if ty == 'any': ty = r.choice(['num', 'bool', 'str', 'list', 'rec'] if self.use_records else ['num', 'bool', 'str', 'list'])
        v = self.pick_var(scope, ty)
        if v and r.random() < (0.6 if leaf else 0.25): return [v]
        if ty == 'num':
            if leaf:
                lit = r.choice(NUMS)
                return ['-' + lit] if r.random() < 0.15 else [lit]
            k = r.random()
            if k < 0.55:
                op = r.choice(['+', '-', '*', '/', '%'])
                return self.paren_maybe(self.expr(scope, 'num', depth + 1) + [op] + self.sub(scope, 'num', depth + 1, op))
            if k < 0.65: return ['-'] + self.sub(scope, 'num', depth + 1, 'u')
            if k < 0.75: return ['('] + self.expr(scope, 'num', depth + 1) + [')']
            if k < 0.85 and self.use_builtins:
                return ['_লিস্ট-লেন', '('] + self.expr(scope, 'list', depth + 1) + [')']
            if k < 0.92 and self.use_builtins:
                return ['_সংখ্যা', '(', '"' + r.choice(['১', '২.৫', '-৩', '০.১২৫', '৪২']) + '"', ')']
            f = self.pick_func('num')
            if f: return self.call(scope, f, depth)
            lv = self.pick_var(scope, 'list')
            if lv and r.random() < self.risky: return [lv, '[', '০', ']']
            return [r.choice(NUMS)]
        if ty == 'bool':
            if leaf: return [r.choice(['সত্য', 'মিথ্যা'])]
            k = r.random()
            if k < 0.3:
                op = r.choice(['<', '<=', '>', '>='])
                return self.expr(scope, 'num', depth + 1) + [op] + self.sub(scope, 'num', depth + 1, 'c')
            if k < 0.5:
                op = r.choice(['==', '!='])
                t2 = r.choice(['num', 'str', 'bool'])
                return self.sub(scope, t2, depth + 1, 'c') + [op] + self.sub(scope, t2 if r.random() < 0.8 else 'any', depth + 1, 'c')
            if k < 0.7:
                op = r.choice(['&', '|'])
                return self.sub(scope, 'bool', depth + 1, 'b') + [op] + self.sub(scope, 'bool', depth + 1, 'b')
            if k < 0.8: return ['!'] + self.sub(scope, 'bool', depth + 1, 'u')
            if k < 0.9: return ['('] + self.expr(scope, 'bool', depth + 1) + [')']
            f = self.pick_func('bool')
            if f: return self.call(scope, f, depth)
            return [r.choice(['সত্য', 'মিথ্যা'])]
        if ty == 'str':
            if leaf: return ['"' + r.choice(STRS) + '"']
            k = r.random()
            if k < 0.45: return self.expr(scope, 'str', depth + 1) + ['+'] + self.sub(scope, 'str', depth + 1, '+')
            if k < 0.6 and self.use_builtins: return ['_স্ট্রিং', '('] + self.expr(scope, 'num', depth + 1) + [')']
            if k < 0.7 and self.use_builtins: return ['_টাইপ', '('] + self.expr(scope, 'any', depth + 1) + [')']
            if k < 0.8 and self.use_builtins:
                return ['_স্ট্রিং-জয়েন', '(', '[', '"a"', ',', '"b"', ',', '"' + r.choice(STRS) + '"', ']', ',', '"' + r.choice(['', ',', '-', 'ab']) + '"', ')']
            f = self.pick_func('str')
            if f: return self.call(scope, f, depth)
            return ['"' + r.choice(STRS) + '"']
        if ty == 'list':
            if leaf and r.random() < 0.5: return ['[', ']']
            k = r.random()
            if k < 0.6 or leaf:
                n = r.randint(0, 3)
                et = r.choice(['num', 'str', 'bool', 'list'] + (['rec'] if self.use_records else []))
                toks = ['[']
                for i in range(n):
                    toks += self.expr(scope, et, depth + 1)
                    if i < n - 1 or r.random() < 0.2: toks.append(',')
                return toks + [']']
            if k < 0.8: return self.expr(scope, 'list', depth + 1) + ['+'] + self.sub(scope, 'list', depth + 1, '+')
            if k < 0.9 and self.use_builtins:
                return ['_স্ট্রিং-স্প্লিট', '('] + self.expr(scope, 'str', depth + 1) + [',', '"' + r.choice([',', '', 'a', ' ']) + '"', ')']
            f = self.pick_func('list')
            if f: return self.call(scope, f, depth)
            return ['[', ']']
        if ty == 'rec':
            n = 0 if leaf and r.random() < 0.4 else r.randint(0, 2)
            toks = ['@', '{']
            keys = r.sample(['"k"', '"চাবি"', '"x"', '"নাম"'], n)
            for k_ in keys:
                toks += [k_, '->'] + self.expr(scope, r.choice(['num', 'str', 'bool', 'list']), depth + 1) + [',']
            return toks + ['}']
        return ['০']

    def sub(self, scope, ty, depth, ctx):
        """operand; parenthesised when it would otherwise change the tree's precedence"""
        e = self.expr(scope, ty, depth)
        if len(e) > 1 and self.r.random() < 0.5: return ['('] + e + [')']
        return e

    def paren_maybe(self, e):
        return ['('] + e + [')'] if self.r.random() < 0.2 else e

    def pick_func(self, ty):
        fs = [f for f in self.funcs if f[2] == ty]
        return self.r.choice(fs) if fs else None

    def call(self, scope, f, depth):
        name, nparams, _ = f
        nargs = nparams if self.r.random() < 0.85 else self.r.randint(0, nparams + 1)
        toks = [name, '(']
        for i in range(nargs):
            toks += self.expr(scope, 'num', depth + 1)
            if i < nargs - 1: toks.append(',')
        return toks + [')']

    # ---------------------------------------------------------------- statements
    def emit(self, toks): self.out.append(list(toks))

    def stmt(self, scope, depth):
        r = self.r
        k = r.random()
        if k < 0.22:
            ty = r.choice(['num', 'num', 'str', 'bool', 'list'] + (['rec'] if self.use_records else []))
            name = self.fresh() if r.random() < 0.8 else (self.pick_var(scope, 'any') or self.fresh())
            if r.random() < self.nil_prob:
                self.emit(['নাম', name, ';']); scope.vars[name] = 'nil'
            else:
                self.emit(['নাম', name, '='] + self.expr(scope, ty) + [';']); scope.vars[name] = ty
        elif k < 0.45:
            ty = r.choice(['num', 'str', 'bool', 'list', 'any'])
            self.emit([r.choice(['দেখাও', 'দেখাও', '_দেখাও'])] + self.expr(scope, ty) + [';'])
        elif k < 0.55:
            v = self.pick_var(scope, 'any')
            if v:
                ty = scope.lookup_all()[v]
                if ty in ('nil', 'func'): ty = 'num'
                self.emit([v, '='] + self.expr(scope, ty) + [';'])
            else:
                self.emit(['দেখাও'] + self.expr(scope, 'num') + [';'])
        elif k < 0.62:
            v = self.pick_var(scope, 'list')
            if v and self.use_builtins:
                c = r.random()
                if c < 0.4: self.emit(['_লিস্ট-পুশ', '(', v, ','] + self.expr(scope, 'num', 2) + [')', ';'])
                elif c < 0.55: self.emit(['_লিস্ট-পুশ', '(', v, ',', (r.choice(['১', '৫', '-১']) if r.random() < self.risky else '০'), ','] + self.expr(scope, 'num', 2) + [')', ';'])
                elif c < 0.7: self.emit(['_লিস্ট-পপ', '(', v, ')', ';'])
                elif c < 0.8 and r.random() < self.risky: self.emit(['_লিস্ট-পপ', '(', v, ',', r.choice(['০', '১', '৫']), ')', ';'])
                elif r.random() < self.risky: self.emit([v, '[', r.choice(['০', '১', '২']), ']', '='] + self.expr(scope, 'num', 2) + [';'])
                else: self.emit(['_লিস্ট-পুশ', '(', v, ','] + self.expr(scope, 'str', 2) + [')', ';'])
            else:
                self.emit(['দেখাও'] + self.expr(scope, 'str') + [';'])
        elif k < 0.75 and depth < self.max_depth:
            self.if_chain(scope, depth)
        elif k < 0.83 and depth < self.max_depth and self.use_loops:
            self.loop(scope, depth)
        elif k < 0.88 and depth < self.max_depth:
            self.emit(['{']); self.block(Scope(scope), depth + 1, r.randint(0, 3)); self.emit(['}'])
        elif k < 0.93 and self.funcs:
            self.emit(self.call(scope, r.choice(self.funcs), 1) + [';'])
        elif k < 0.95 and self.in_func:
            self.emit(['ফেরত'] + (self.expr(scope, 'num') if r.random() < 0.8 else []) + [';'])
        elif k < 0.97 and self.loop_depth > 0:
            self.emit([r.choice(['থামাও', 'আবার']), ';'])
        else:
            self.emit(['# মন্তব্য ' + r.choice(['', '\\# ', 'দুই\nলাইন ']) + '#'])

    def block(self, scope, depth, n):
        for _ in range(n): self.stmt(scope, depth)

    def if_chain(self, scope, depth):
        r = self.r
        n = r.randint(1, 3)
        for i in range(n):
            head = ['যদি'] if i == 0 else ['অথবা', 'যদি']
            self.emit(head + self.expr(scope, 'bool', 1))
            self.emit(['{']); self.block(Scope(scope), depth + 1, r.randint(0, 3)); self.emit(['}'])
        if r.random() < 0.5:
            self.emit(['অথবা'])
            self.emit(['{']); self.block(Scope(scope), depth + 1, r.randint(0, 3)); self.emit(['}'])

    def loop(self, scope, depth):
        r = self.r
        i = self.fresh()
        n = r.randint(0, 4)
        self.emit(['নাম', i, '=', '০', ';']); scope.vars[i] = 'num'
        self.emit(['লুপ'])
        self.emit(['{'])
        inner = Scope(scope)
        self.emit(['যদি', i, '>=', bn(n)]); self.emit(['{']); self.emit(['থামাও', ';']); self.emit(['}'])
        self.emit([i, '=', i, '+', '১', ';'])
        self.loop_depth += 1
        self.block(inner, depth + 1, r.randint(0, 4))
        self.loop_depth -= 1
        self.emit(['}'])
        self.emit(['আবার', ';'])

    def funcdef(self, scope):
        r = self.r
        name = self.prefix + 'ফ' + bn(len(self.funcs) + 1)
        nparams = r.randint(0, 3)
        params = [self.prefix + 'প' + bn(i + 1) for i in range(nparams)]
        rettype = r.choice(['num', 'num', 'bool', 'str', 'list'])
        self.emit(['ফাং'])
        toks = [name, '(']
        for i, p in enumerate(params):
            toks.append(p)
            if i < nparams - 1: toks.append(',')
        self.emit(toks + [')'])
        self.emit(['{'])
        inner = Scope(scope)
        for p in params: inner.vars[p] = 'num'
        saved_loop = self.loop_depth
        self.in_func = True; self.loop_depth = 0
        self.block(inner, 1, r.randint(0, 3))
        if r.random() < 0.9:
            self.emit(['ফেরত'] + self.expr(inner, rettype, 1) + [';'])
        self.in_func = False; self.loop_depth = saved_loop
        self.emit(['}'])
        self.emit(['ফেরত', ';'])
        self.funcs.append((name, nparams, rettype))
        scope.vars[name] = 'func'

    def program(self, nstmts=8):
        scope = Scope()
        self.out = []
        for _ in range(nstmts):
            if self.use_funcs and self.r.random() < 0.15 and len(self.funcs) < 4:
                self.funcdef(scope)
            else:
                self.stmt(scope, 0)
        return self.out


# ---------------------------------------------------------------------------------------- rendering

def render(stmts, sep=' ', stmt_sep='\n'):
    """canonical layout: one blank between tokens, one newline between flat statements"""
    return stmt_sep.join(sep.join(s) for s in stmts) + stmt_sep


def flat_tokens(stmts):
    return [t for s in stmts for t in s]


def gen_program(rng, **kw):
    n = kw.pop('nstmts', None) or rng.randint(3, 12)
    g = Gen(rng, **kw)
    return g.program(n)
