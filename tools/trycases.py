#!/usr/bin/env python3
"""developer helper: run one generator family of pstreams3 (or any module.function) through implementation and model on
the current /repo tree and report disagreements.   usage: trycases.py <module.function> [flags] [sched] [--parse|--lex]"""
import sys, os, random, json, collections
sys.path.insert(0, os.path.dirname(os.path.abspath(__file__)))
import vlib, props, pstreams, pstreams2, pstreams3, pstreams4, pstreams5, streams

def main():
    name = sys.argv[1]; flags = sys.argv[2] if len(sys.argv) > 2 and not sys.argv[2].startswith('--') else '-'
    sched = sys.argv[3] if len(sys.argv) > 3 and not sys.argv[3].startswith('--') else None
    mode = 'parse' if '--parse' in sys.argv else 'lex' if '--lex' in sys.argv else 'run'
    st = vlib.ensure_build()
    ctx = props.Ctx('C01', 'quick', 7, st)
    mod, fn = name.split('.')
    f = getattr(globals()[mod], fn)
    rng = random.Random(int(os.environ.get('SEED', '5')))
    try: cases = f(rng, 'quick')
    except TypeError:
        try: cases = f(rng, 40)
        except TypeError:
            try: cases = f(rng)
            except TypeError: cases = f()
    if mode != 'run':
        if mode == 'parse': lines = [props.parse_line(s) for s, _ in cases]
        else: lines = ['lex %s %s' % (vlib.enc('t.pakhi'), vlib.enc(s)) for s in cases]
        impl, model = props.oracle_and_model(ctx, lines, 'try')
        bad = 0
        for c, a, b in zip(cases, impl, model):
            src = c[0] if mode == 'parse' else c
            why = props.lex_property_check(src, a) if mode == 'lex' else None
            if why or not vlib.lines_agree(a, b) or a in ('panic', 'hang') or a.startswith('crash'):
                bad += 1
                if bad <= 4: print('DISAGREE', repr(src[:200]), '\n  impl ', a[:300], '\n  model', b[:300], '\n  why', why)
        print('%d cases, %d bad; impl kinds: %s' % (len(cases), bad, dict(collections.Counter(a.split(' ')[0] for a in impl))))
        return
    cases = [c for c in cases if 'src' in c]
    props.diff_programs(ctx, 'try', cases, sched=sched, flags=flags, shrink=False)
    print(json.dumps(ctx.streams[-1], ensure_ascii=False)[:600])
    print('%d cases, %d failing' % (len(cases), len(ctx.failing)))
    for f_ in ctx.failing[:4]:
        print('--- FAIL', f_.get('why'), f_.get('kind')); print(f_['source'][:1500]); print('impl :', f_['implementation'][:700]); print('model:', f_['model'][:700])
    if os.environ.get('SHOW'):
        for c in cases[:int(os.environ['SHOW'])]:
            print('--- case', c.get('kind')); print(c['src'][:800]); print('impl:', vlib.canon_result(c['_impl'])[:600])

main()
