"""Per-property checks: proof obligations + correspondence streams + failing-input search + evidence."""
import time
import os, sys, json, time, random, re, collections, itertools
import vlib, streams
import pstreams3 as P3
import pstreams4 as P4
import pstreams5 as P5
from vlib import log, enc, dec, ORACLE

TRUSTED_BASE_COMMON = [
    'Coq 8.16.1 kernel (coqc); vm_compute in finite table checks and in the replay sample; no native_compute',
    'tools/gen_tables.py (translator of the table-driven parts of lexer.rs, built_ins.rs, interpreter.rs, parser.rs)',
    'hand-written Gallina transcription of the Rust functions (coq/*.v), tied to /repo by differential runs only',
    'extraction: ExtrOcamlBasic only (bool, option, unit, list, prod, sumbool, sumor; andb/orb inlined); nat, positive, N, Z stay Coq inductives; OCaml 4.13.1',
    'model_driver/main.ml (string <-> list N conversion only), harness/src/main.rs (Rust oracle: custom IO, catch_unwind, watchdog), tools/*.py (generators, differ)',
    'Rust std/core modelled not verified: char::is_numeric (table dumped from the running toolchain), f64 parse/format, str::split/join, HashMap, Vec, std::fs',
]


class Ctx:
    def __init__(self, pid, tier, seed, st):
        self.pid, self.tier, self.seed, self.st = pid, tier, seed, st
        self.rng = random.Random(seed * 1000003 + int(pid[1:]))
        self.failing = []          # concrete failing inputs: dicts
        self.broken = []           # proof obligations / ties that no longer check: strings
        self.known_hits = []
        self.streams = []          # per-stream coverage dicts
        self.samples = []
        self.evaluations = 0
        self.nontrivial = 0
        self.validated = 0
        self.notes = []
        self.replay_pool = []      # (case line, extracted model's answer): a sample is re-evaluated inside Coq
        self.replay_seen = 0


def pool_for_coq(ctx, lines, model):
    """reservoir sample of short cases for the in-Coq re-evaluation of the extracted model"""
    cap = 40 if ctx.tier == 'thorough' else 8
    for l, b in zip(lines, model):
        if len(l) > 1500 or 'steplimit' in b or b.startswith(('driver', 'crash', 'not-run')): continue
        ctx.replay_seen += 1
        if len(ctx.replay_pool) < cap: ctx.replay_pool.append((l, b))
        else:
            j = ctx.rng.randrange(ctx.replay_seen)
            if j < cap: ctx.replay_pool[j] = (l, b)


def coq_replay(ctx):
    """the extraction check: the same case lines through [Eval vm_compute in run_case ...] inside Coq must give what the
    extracted OCaml program printed"""
    if not ctx.replay_pool or not getattr(ctx.st, 'coq_dir', None): return 0
    import subprocess
    d = ctx.st.coq_dir
    name = 'cases_%s_%d' % (ctx.pid, os.getpid())
    src = ['From Pakhi Require Import Base Driver.']
    for i, (l, _) in enumerate(ctx.replay_pool):
        # the budget of a replayed run is cut down: the Coq VM is slower than the extracted code
        src.append('Definition c%d : list N := [%s]%%N.' % (i, '; '.join(str(ord(c)) for c in l)))
        src.append('Eval vm_compute in (run_case c%d).' % i)
    path = os.path.join(d, name + '.v')
    open(path, 'w', encoding='utf-8').write('\n'.join(src) + '\n')
    try:
        r = subprocess.run(['bash', '-c', 'ulimit -s unlimited 2>/dev/null; ulimit -v 12000000; exec coqc -noglob -Q "$0" Pakhi "$1"', d, path], capture_output=True, text=True, timeout=600)
        out, rc = r.stdout, r.returncode
    except subprocess.TimeoutExpired:
        out, rc = '', 124
    for ext in ('.v', '.vo', '.vok', '.vos', '.glob'):
        try: os.remove(os.path.join(d, name + ext))
        except OSError: pass
    try: os.remove(os.path.join(d, '.' + name + '.aux'))
    except OSError: pass
    if rc == 124:
        ctx.notes.append('in-Coq replay timed out (%d cases); not counted' % len(ctx.replay_pool)); return 0
    answers = out.split(': text')[:-1] if ': text' in out else []
    if rc != 0 or len(answers) != len(ctx.replay_pool):
        ctx.broken.append('in-Coq replay (cases.v) did not evaluate: rc=%d, %d answers for %d cases' % (rc, len(answers), len(ctx.replay_pool))); return 0
    n = 0
    for (l, b), a in zip(ctx.replay_pool, answers):
        got = ''.join(chr(int(x)) for x in re.findall(r'(\d+)(?:%N)?\s*[;\]]', a))
        n += 1
        if got != b and len(ctx.failing) < 6:
            ctx.failing.append({'stream': 'coq-replay', 'why': 'the extracted model and its evaluation inside Coq (vm_compute) disagree: extraction or driver glue is wrong', 'case_line': l,
                                'extracted': b[:1500], 'in_coq': got[:1500]})
    return n


def oracle_and_model(ctx, lines, tag, timeout_ms=5000):
    if tag == 'shr':
        # shrinking candidates: a candidate on which the model does not answer within a minute is not pursued
        impl = vlib.run_sharded(ORACLE, lines, tag + 'o', timeout_ms=timeout_ms, total_timeout=60)
        model = vlib.run_sharded(ctx.st.model_exe, lines, tag + 'm', timeout_ms=timeout_ms, total_timeout=60)
        for i, b in enumerate(model):
            if b.startswith('driver-timeout') or b.startswith('not-run') or b.startswith('crash'):
                impl[i] = model[i] = 'out  | res shrink-timeout'
        return impl, model
    impl = vlib.run_sharded(ORACLE, lines, tag + 'o', timeout_ms=timeout_ms)
    model = vlib.run_sharded(ctx.st.model_exe, lines, tag + 'm', timeout_ms=timeout_ms)
    pool_for_coq(ctx, lines, model)
    return impl, model


def shrink_text(src, still_fails, min_len=0, max_rounds=40):
    """greedy chunk deletion; still_fails(list of candidates) -> list of bool (batched)"""
    cur = src
    n = 2
    rounds = 0
    while len(cur) > min_len and rounds < max_rounds:
        rounds += 1
        size = max(1, len(cur) // n)
        cands = [cur[:i] + cur[i + size:] for i in range(0, len(cur), size)]
        cands = [c for c in cands if c != cur]
        if not cands: break
        res = still_fails(cands)
        hit = next((c for c, r in zip(cands, res) if r), None)
        if hit is not None:
            cur = hit
            n = max(n - 1, 2)
        else:
            if size == 1: break
            n = min(len(cur), n * 2)
    return cur


# ------------------------------------------------------------------------------------------------ C10

def lex_property_check(src, res):
    """The statement of C10 checked directly on the implementation's result (no model involved)."""
    if res in ('panic', 'hang') or res.startswith('crash') or res.startswith('driver-timeout'):
        return 'tokenizer did not return a value: ' + res
    if res.startswith('err '):
        return None if res.startswith('err Syntax ') else 'tokenizer failed with a non-syntax error: ' + res[:60]
    if not res.startswith('ok'):
        return 'unreadable result ' + res[:60]
    toks = res[3:].split(' ') if len(res) > 3 else []
    if not toks or not toks[-1].startswith('EOT:'):
        return 'token list does not end with the end marker'
    if len(toks) > len(src) + 1:
        return 'more tokens than characters'
    i = 0
    for t in toks[:-1]:
        kind, payload, lexeme, line, _f = t.split(':')
        if kind == 'EOT': return 'end marker in the middle'
        text = dec(lexeme)
        if kind == 'String': text = '"' + text + '"'
        while i < len(src) and src[i] in ' \t\r\n': i += 1
        if src[i:i + len(text)] != text or text == '':
            return 'token %s does not match the source at offset %d' % (t[:40], i)
        want_line = 1 + src[:i].count('\n')
        if int(line) != want_line:
            return 'token at offset %d carries line %s, is written on line %d' % (i, line, want_line)
        i += len(text)
    while i < len(src) and src[i] in ' \t\r\n': i += 1
    if i != len(src):
        return 'characters from offset %d are not accounted for by any token' % i
    return None


def stream_lex(ctx):
    cases = streams.lex_cases(ctx.rng, ctx.tier) + [(s_, 'corpus2') for s_ in P3.LEX_CORPUS + P4.LEX_CORPUS2 + P5.LEX_CORPUS3 + P5.LEX_CORPUS4]
    fname = 't.pakhi'
    mk = lambda s: 'lex %s %s' % (enc(fname), enc(s))
    lines = [mk(s) for s, _ in cases]
    impl, model = oracle_and_model(ctx, lines, 'lex', timeout_ms=3000)
    origins = collections.Counter(o for _, o in cases)
    kinds = collections.Counter()
    distinct = set()
    bad = []
    for (src, origin), li, i_r, m_r in zip(cases, lines, impl, model):
        kinds[i_r.split(' ')[0] if not i_r.startswith('err') else 'err'] += 1
        if len(src) >= 2: distinct.add(src)
        why = lex_property_check(src, i_r)
        if why is None and not vlib.lines_agree(i_r, m_r):
            why = 'implementation and model of the lexical rules disagree'
        if why: bad.append((src, li, i_r, m_r, why))
    ctx.evaluations += len(cases)
    ctx.validated += len(cases)
    ctx.nontrivial += len(distinct)
    ctx.streams.append({'stream': 'lex', 'cases': len(cases), 'origins': dict(origins), 'implementation_result_kinds': dict(kinds),
                        'length_histogram': dict(collections.Counter(min(len(s) // 10 * 10, 60) for s, _ in cases))})
    ctx.samples += [{'stream': 'lex', 'source': s, 'implementation': i_r[:200]} for (s, _), i_r in list(zip(cases, impl))[40:43]]
    if bad:
        bad.sort(key=lambda b: len(b[0]))
        for src, li, i_r, m_r, why in bad[:3]:
            def still(cands):
                ls = [mk(c) for c in cands]
                ii, mm = oracle_and_model(ctx, ls, 'shr', timeout_ms=3000)
                return [(lex_property_check(c, a) is not None) or not vlib.lines_agree(a, b) for c, a, b in zip(cands, ii, mm)]
            small = shrink_text(src, still)
            ii, mm = oracle_and_model(ctx, [mk(small)], 'shr', timeout_ms=3000)
            ctx.failing.append({'stream': 'lex', 'why': lex_property_check(small, ii[0]) or why, 'source': small, 'source_codepoints': [ord(c) for c in small],
                                'case_line': mk(small), 'implementation': ii[0], 'model': mm[0], 'original_source': src, 'others': len(bad)})


# ------------------------------------------------------------------------------------------------ registry

def _registry():
    S = simple_stream
    return {
    'C01': {'proofs': 'C01', 'streams': [stream_expr, S('expr-programs', lambda rng, tier: P5.cross_type_equality_programs() + P5.double_prefix_programs() + P3.temporaries_programs(rng, 4 if tier != 'thorough' else 30) + P4.higher_order_programs(rng, 60 if tier != 'thorough' else 400) + P4.concat_nested_identity_programs(rng, 60 if tier != 'thorough' else 400), flags='-', shrink=False)],
            'rule': 'expr stream: typed random operator trees (all 13 binary and 2 unary operators, calls, lists, records, nil) rendered with minimal, random-extra and whole-expression parentheses; 20% with ill-typed operands; non-trivial = every distinct program',
            'assumptions': ['operand evaluation order is modelled but not part of the statement (calls are to pure functions)', 'hardware floating point is tied to SpecFloat by the f64 stream only']},
    'C02': {'proofs': 'C02', 'streams': [stream_chains],
            'rule': 'chains stream: every truth assignment of chains of length 1-3 (thorough 1-4), with and without else, in 7 contexts (top, block, loop, chain, else, function, loop in function), after pairs of execution histories (else-less taken if, return from a branch, break from nested ifs, finished loop, return from a loop in a function, finished chains); non-boolean conditions',
            'assumptions': []},
    'C03': {'proofs': 'C03', 'streams': [S('loops', pstreams.c03_cases, flags='-')],
            'rule': 'loops stream: loop nests to depth 4, break/continue under 1-3 conditionals followed textually by nested loops, continue statements and blocks, body-local declarations, loops in functions/blocks/chains after histories; stray break/continue',
            'assumptions': []},
    'C04': {'proofs': 'C04', 'streams': [S('scopes', pstreams.c04_cases, flags='-'), S('scopes-gc', pstreams.c04_cases, flags='-', sched='1')],
            'rule': 'scopes stream: random interleavings of declare/assign/read/block/if/else/loop/function over 3 names to depth 5; every read printed', 'assumptions': ['dynamic scoping (a callee sees its caller\'s variables) is the language\'s rule']},
    'C05': {'proofs': 'C05', 'streams': [S('calls', pstreams.c05_cases, flags='-')],
            'rule': 'calls stream: arities 0-4 x argument counts, return from nests of if/else/loop/block, 9 call sites, parameter rebinding and callee locals vs caller variables, recursion depth to 200 (thorough 400), mutual recursion', 'assumptions': ['recursion deeper than the native stack is outside the model']},
    'C06': {'proofs': 'C06', 'streams': [S('alias', pstreams.c06_cases), S('alias-gc', pstreams.c06_cases, sched='1')],
            'rule': 'alias stream: list/record shapes to depth 4 with aliases by assignment, call, nesting; sequences of indexed writes (valid, out of range, missing key), pushes, pops, concatenations; every container printed through every alias after each operation; final heap compared', 'assumptions': []},
    'C07': {'proofs': 'C07', 'streams': [stream_gc_heaps, stream_gc_schedules],
            'rule': 'gc-heaps: direct collector runs (hook verif_collect) on random heaps, post-state compared exactly; gc-schedules: each program under no collection, collection at every boundary, periodic and random schedules and the native trigger (hook gc_schedule): outputs compared with each other and with the model',
            'assumptions': ['marking recursion depth is bounded by the native stack for very long reference chains (not exhibited by the model)']},
    'C08': {'proofs': 'C08', 'streams': [stream_gc_heaps, stream_alloc_loops],
            'rule': 'alloc-loops: top-level loops of N and 4N iterations allocating and dropping containers by 12 routes (empty list/record, 1 and 7 elements, concatenation, split, nesting, cycles): final arenas, free lists and collection counts compared exactly with the model and against an N-independent bound',
            'assumptions': ['"heap size" is arena length; process memory is not measured']},
    'C09': {'proofs': 'C09', 'streams': [stream_f64, stream_numbers],
            'rule': 'f64 stream: std float functions on bit patterns and decimal texts vs the model; numbers stream: literals of 1-17 digits at every split, leading/trailing zeros, arithmetic results: printed text, _স্ট্রিং, read-back equality checked on the implementation and against the model',
            'assumptions': ['f64::to_string and parse::<f64> are Rust std: modelled (flt2dec Dragon + dec2flt grammar), tied by the f64 stream']},
    'C10': {'proofs': 'C10', 'streams': [stream_lex],
            'rule': 'lex stream: corpus of boundary inputs, prefixes of documented programs, exhaustive short strings over a 14-symbol class alphabet, '
                    'random strings over Bangla letters/digits, all ASCII punctuation, quotes, #, backslash, blanks; non-trivial = distinct source of length >= 2',
            'assumptions': ['char::is_numeric is the table dumped from the running toolchain', 'the source is a sequence of Unicode scalar values (Vec<char>)']},
    'C11': {'proofs': 'C11', 'streams': [stream_layout],
            'rule': 'layout stream: each generated program rendered in canonical, minimal (no blank where tokens cannot fuse) and random layouts over {space, tab, LF, CRLF, mixtures, none} plus comment blocks (single-, multi-line, escaped #) between statements; all must print and end the same; each compared with the model',
            'assumptions': ['identifiers may contain -, _ and /, so a blank is kept before every - that follows an identifier character']},
    'C12': {'proofs': 'C12', 'streams': [stream_parse],
            'rule': 'parse stream: all token sequences of length <= 2 (thorough <= 3) over a 42-token alphabet, sampled longer ones, token soups, generated valid programs with every kind of truncation and single/double deletion, duplication, swap, insertion mutants, deep nestings; AST compared with the model',
            'assumptions': ['native stack exhaustion for nesting depth beyond ~10^4 is not exhibited by the model']},
    'C13': {'proofs': 'C13', 'streams': [S('faults', pstreams.c13_cases, flags='-'), stream_cli],
            'rule': 'faults stream: 25 faults x 14 statement/expression positions x call depth 0-3 x inside/outside an imported module, output before and after; cli stream: built binary exit status / stdout / stderr',
            'assumptions': ['stack overflow (unbounded recursion, printing a cyclic container) is not a panic and not modelled']},
    'C14': {'proofs': 'C14', 'streams': [S('modules', pstreams.c14_cases, flags='-'), stream_split_equiv],
            'rule': 'modules stream: 1-3 modules in nested directories with colliding names, nested imports, built-ins/constants inside modules; split-equiv: single-file program vs. definitions moved into an imported module',
            'assumptions': ['paths are /-separated relative paths without . or .. components']},
    'C15': {'proofs': 'C15', 'streams': [S('graphs', pstreams.c15_cases, flags='-')],
            'rule': 'graphs stream: import graphs on 4 files in nested directories (thorough: all 65536 edge subsets; quick: 216 sampled), shuffled import order; import statement forms (missing file, bad extension, non-literal path, truncated)',
            'assumptions': ['files are identified by path text (the implementation uses canonical paths)']},
    'C16': {'proofs': 'C16', 'streams': [S('listops', pstreams.c16_cases), S('listops-gc', pstreams.c16_cases, sched='1')],
            'rule': 'listops stream: operation sequences (<= 15, thorough <= 40) from the empty list through two aliases, positions {0, mid, len-1, len, len+1, -1, 0.5, huge, NaN, non-number}', 'assumptions': []},
    'C17': {'proofs': 'C17', 'streams': [S('text', pstreams.c17_cases, flags='-', extra_check=c17_check)],
            'rule': 'text stream: split/join on strings over {a, b, ক} with separators of length 0-3 (thorough: all |s|<=6, |sep|<=2 over 2 letters), join-then-split of lists, type names of all 7 types, wrong argument counts/types', 'assumptions': []},
    'C18': {'proofs': 'C18', 'streams': [S('print', pstreams.c18_cases, flags='-'), stream_cli],
            'rule': 'print stream: every scalar class, containers to depth 4 in every list/record mix, shared sub-containers, both print statements, unprintable values nested and top-level; exact chunk sequence compared (record entries in key order)',
            'assumptions': ['record entries are written in HashMap order: compared as a set of entries']},
    'C19': {'proofs': 'C19', 'streams': [stream_compose],
            'rule': 'compose stream: P1 from early-exit constructs (return in loop in if, break in nested ifs, else-less ifs, finished loops/chains, allocation churn across the GC threshold), P2 generated with disjoint names (else chains, loops, calls, allocation): P1;P2 vs P1 and P2 alone, and vs the model',
            'assumptions': []},
    'C20': {'proofs': 'C20', 'streams': [stream_fs, stream_fs_respell, stream_stdin, stream_fs_bytes],
            'rule': 'fs stream: random sequences of the 7 file built-ins over a small path tree in a scratch directory, final file-system state dumped and compared with the model; stdin stream: built binary with piped input',
            'assumptions': ['the operating system is assumed to implement std::fs as the finite-map model; permissions, symlinks, non-UTF-8 names are not exercised']},
    }


REGISTRY = None


def run_property(pid, tier, seed, t0):
    spec = REGISTRY[pid]
    st = vlib.ensure_build()
    ctx = Ctx(pid, tier, seed, st)
    for n in st.notes: log('[build] ' + n)
    if not st.harness_ok or st.model_exe is None:
        p = vlib.write_replay(pid, 'build', {'property': pid, 'problem': 'the check could not be built against the current tree', 'notes': st.notes})
        vlib.write_evidence(pid, tier, seed, 'proof', {'obligations': 1, 'discharged_count': 0, 'checker_cmd': 'make -f Makefile.coq', 'trusted_base': TRUSTED_BASE_COMMON,
                                                      'explanation': 'build failed', 'evaluations': 1, 'distinct_nontrivial': 2}, spec['assumptions'], time.time() - t0, 1)
        print('VIOLATION property=%s replay=%s no-failing-input-found' % (pid, p))
        return 1
    if os.environ.get('VERIF_STREAMS_ONLY'):
        proofs = {'obligations': 0, 'discharged': 0, 'theorems': [], 'axioms': [], 'failures': [], 'log': ''}
    else:
        proofs = vlib.check_proofs(st, spec['proofs'], thorough=(tier == 'thorough'))
    for f in proofs['failures']:
        ctx.broken.append(f)
    if st.tables_generated and st.tables_differ_from_reference:
        ctx.notes.append('tables regenerated from the source differ from the committed reference tables; theorems were re-checked against the regenerated ones')
    if st.using_reference_model:
        ctx.notes.append('correspondence and search ran against the model built from the committed reference tables')
    for s in spec['streams']:
        s(ctx)
    replayed = coq_replay(ctx)
    # known findings
    known = vlib.load_known_findings(pid)
    new_failing = []
    for f in ctx.failing:
        k = next((k for k in known if props_match(k, f)), None)
        if k: ctx.known_hits.append((k, f))
        else: new_failing.append(f)
    for k in known:
        print('KNOWN-FINDING: property=%s %s' % (pid, k['what']))
    violations = 0
    out_lines = []
    if new_failing:
        for i, f in enumerate(new_failing[:5]):
            f = dict(f); f.update({'property': pid, 'seed': seed, 'tier': tier, 'broken_obligations': ctx.broken})
            p = vlib.write_replay(pid, 'fail_%d' % i, f)
            out_lines.append('VIOLATION property=%s replay=%s' % (pid, p))
        violations = len(new_failing)
    elif ctx.broken:
        p = vlib.write_replay(pid, 'broken', {'property': pid, 'seed': seed, 'tier': tier, 'no_longer_checks': ctx.broken, 'proof_log_tail': proofs['log'][-3000:],
                                               'searched': ctx.streams, 'notes': ctx.notes + st.notes})
        out_lines.append('VIOLATION property=%s replay=%s no-failing-input-found' % (pid, p))
        violations = 1
    coverage = {
        'obligations': max(1, proofs['obligations']), 'discharged': proofs['discharged'],
        'checker_cmd': 'coq_makefile -f _CoqProject -o Makefile.coq && make -f Makefile.coq Properties/%s.vo (in build/coq, Tables.v regenerated from /repo)%s' % (spec['proofs'], ' ; coqchk -o' if tier == 'thorough' else ''),
        'trusted_base': TRUSTED_BASE_COMMON + ['axioms reported by Print Assumptions: ' + (', '.join(proofs['axioms']) if proofs['axioms'] else 'none (closed under the global context)')],
        'theorems': proofs['theorems'],
        'evaluations': ctx.evaluations, 'distinct_nontrivial': ctx.nontrivial, 'rule': spec['rule'],
        'traces_validated_against_impl': ctx.validated,
        'samples': ctx.samples[:8] if ctx.samples else [{'note': 'no correspondence case ran'}],
        'streams': ctx.streams, 'notes': ctx.notes,
        'tables_regenerated_from_source': st.tables_generated, 'tables_equal_reference': not st.tables_differ_from_reference,
        'known_findings_reproduced': len(ctx.known_hits),
        'cases_reevaluated_inside_coq': replayed,
    }
    if coverage['discharged'] < 1:
        # the schema's proof-level keys require discharged >= 1; a run in which obligations failed reports the
        # count under another key and falls back to the exploration-style counts
        coverage['discharged_count'] = coverage.pop('discharged')
        coverage['evaluations'] = max(1, coverage['evaluations']); coverage['distinct_nontrivial'] = max(2, coverage['distinct_nontrivial'])
    vlib.write_evidence(pid, tier, seed, 'proof', coverage, spec['assumptions'], time.time() - t0, violations)
    for l in out_lines: print(l)
    log('[%s] %s tier: %d theorems (%d discharged), %d cases, %d failing, %.1fs' % (pid, tier, proofs['obligations'], proofs['discharged'], ctx.evaluations, len(ctx.failing), time.time() - t0))
    return 1 if out_lines else 0


def props_match(known, failing):
    """a known finding names an input class by a regular expression over the failing record's 'class' field"""
    cls = failing.get('class')
    return cls is not None and cls == known.get('class')


def replay(path):
    obj = json.load(open(path, encoding='utf-8'))
    st = vlib.ensure_build()
    line = obj.get('case_line')
    if not line:
        print(json.dumps(obj, ensure_ascii=False, indent=1)[:4000]); return 0
    i = vlib.run_exe(ORACLE, [line], 'rp')
    m = vlib.run_exe(st.model_exe, [line], 'rpm')
    print('implementation:', i[0]); print('model:         ', m[0])
    print('agree' if vlib.lines_agree(i[0], m[0]) else 'DISAGREE')
    return 0 if vlib.lines_agree(i[0], m[0]) else 1


# ================================================================================================ program streams
import pstreams, genprog


def case_line(c, sched=None, flags=None):
    return vlib.run_line(c['src'], budget=c.get('budget', 8000), sched=sched or c.get('sched', 'n'), flags=flags or c.get('flags', 'h'),
                         extra_files=c.get('files', ()), main=c.get('main', 'm.pakhi'))


def res_kind(line):
    if ' | res ' not in line: return line.split(' ')[0]
    r = line.split(' | res ')[1].split(' | ')[0].split(' ')
    return ' '.join(r[:2]) if r[0] == 'err' else r[0]


def out_of(line):
    """the out section and the result without message: what a program prints and how it ends"""
    line = vlib.canon_result(line)
    if not line.startswith('out '): return line
    parts = line.split(' | ')
    res = next((p for p in parts if p.startswith('res ')), 'res ?').split(' ')
    return parts[0] + ' | ' + ' '.join(res[:5])


def ends_of(line, with_line=True):
    """(output, how it ends) with optional error line"""
    line = vlib.canon_result(line)
    parts = line.split(' | ')
    res = next((p for p in parts if p.startswith('res ')), 'res ?').split(' ')
    if res[1:2] == ['err']:
        return parts[0], tuple(res[1:5] if with_line else [res[1], res[2], res[4]])
    return parts[0], tuple(res[1:2])


def shrink_lines(src, still_fails):
    """statement-line deletion"""
    lines = src.split('\n')
    cur = lines
    n = 2
    rounds = 0
    t_end = time.time() + 45          # shrinking is a convenience for the replay, never worth minutes
    while len(cur) > 1 and rounds < 30 and time.time() < t_end:
        rounds += 1
        size = max(1, len(cur) // n)
        cands = [cur[:i] + cur[i + size:] for i in range(0, len(cur), size)]
        res = still_fails(['\n'.join(c) for c in cands])
        hit = next((c for c, r in zip(cands, res) if r), None)
        if hit is not None:
            cur = hit; n = max(2, n - 1)
        else:
            if size == 1: break
            n = min(len(cur), n * 2)
    return '\n'.join(cur)


def diff_programs(ctx, name, cases, sched=None, flags=None, nontrivial=None, shrink=True, extra_check=None):
    """runs every case through implementation and model; a disagreement (or a failed extra_check on the
    implementation's result) is a failing input"""
    lines = [case_line(c, sched, flags) for c in cases]
    impl, model = oracle_and_model(ctx, lines, name[:6])
    kinds = collections.Counter(); ckinds = collections.Counter()
    bad = []
    disc = 0
    for c, li, a, b in zip(cases, lines, impl, model):
        kinds[res_kind(a)] += 1
        ckinds[c.get('kind', '?').split(' ')[0]] += 1
        c['_impl'] = a; c['_model'] = b
        if 'steplimit' in a.split(' | res ')[-1][:12] or a.startswith('driver-timeout'):
            disc += 1; continue
        why = None
        if a in ('panic', 'hang') or a.startswith('crash'): why = 'implementation did not return a value: ' + a
        elif not vlib.lines_agree(a, b): why = 'implementation and model disagree'
        elif extra_check:
            why = extra_check(c, a)
        cls = None
        if isinstance(why, tuple): why, cls = why
        if why: bad.append((c, li, a, b, why, cls))
    ctx.evaluations += len(cases); ctx.validated += len(cases) - disc
    srcs = set(c['src'] for c in cases)
    ctx.nontrivial += len([s for s in srcs if (nontrivial(s) if nontrivial else s.count('\n') >= 2)])
    # how many programs end in an error before 60 % of their source has run (a generator that kills its own programs early
    # exercises little): share per stream, reported so that it can be watched
    early = 0
    for c, a in zip(cases, impl):
        if ' | res err ' in a and not c.get('files'):
            r = a.split(' | res err ')[1].split(' ')
            nl = c['src'].count('\n')
            if len(r) > 1 and r[1].isdigit() and nl > 4 and 0 < int(r[1]) < 0.6 * nl: early += 1
    ctx.streams.append({'stream': name, 'cases': len(cases), 'discarded_steplimit': disc, 'implementation_result_kinds': dict(kinds), 'case_kinds': dict(ckinds),
                        'share_ending_in_an_error_before_60_percent_of_the_source': round(early / max(1, len(cases)), 3)})
    if cases:
        c = cases[len(cases) // 2]
        ctx.samples.append({'stream': name, 'kind': c.get('kind'), 'source': c['src'][:1200], 'files': [f[0] for f in c.get('files', ())], 'implementation': vlib.canon_result(c['_impl'])[:400]})
    bad.sort(key=lambda b: len(b[0]['src']))
    # one representative per class of failure (a known-finding class must not hide a different failure)
    reps, seen_cls = [], collections.Counter()
    for x in bad:
        if seen_cls[x[5]] < (2 if x[5] is None else 1): reps.append(x)
        seen_cls[x[5]] += 1
    for c, li, a, b, why, cls in reps[:4]:
        small = c['src']
        if shrink and cls is None:
            def still(cands):
                cs = [dict(c, src=s) for s in cands]
                ls = [case_line(x, sched, flags) for x in cs]
                ii, mm = oracle_and_model(ctx, ls, 'shr')
                return [(not vlib.lines_agree(x, y)) or x in ('panic', 'hang') or (extra_check is not None and extra_check(cc, x) not in (None,)) for cc, x, y in zip(cs, ii, mm)]
            try: small = shrink_lines(c['src'], still)
            except Exception as ex: log('shrink failed: %r' % ex)
        cc = dict(c, src=small)
        l2 = case_line(cc, sched, flags)
        ii, mm = oracle_and_model(ctx, [l2], 'shr')
        ctx.failing.append({'stream': name, 'why': why, 'class': cls, 'kind': c.get('kind'), 'source': small, 'files': list(c.get('files', ())), 'case_line': l2,
                            'implementation': vlib.canon_result(ii[0])[:3000], 'model': vlib.canon_result(mm[0])[:3000], 'original_source': c['src'][:4000], 'others': len(bad)})
    return impl, model


def general_cases(ctx, n, **kw):
    cases = []
    for i in range(n):
        p = genprog.gen_program(ctx.rng, **kw)
        cases.append({'src': genprog.render(p), 'kind': 'general'})
    return cases


def stream_general(ctx, n_quick=150, n_thorough=1500):
    cases = general_cases(ctx, n_thorough if ctx.tier == 'thorough' else n_quick)
    diff_programs(ctx, 'general', cases)


# ---- C01
def stream_expr(ctx):
    raw = pstreams.c01_cases(ctx.rng, ctx.tier)
    cases = []
    for r in raw:
        for j, e in enumerate(r['exprs']):
            cases.append({'src': pstreams.prog(r['decl'] + ['দেখাও ' + e + ';']), 'kind': 'expr-' + r['kind'], 'group': id(r), 'variant': j, 'tree': r['tree']})
        if r.get('toks'):
            # the same token sequence with no blank wherever two tokens cannot fuse: ক-১, (ক)-১, ফ(খ)-১, ১+-২
            stmt = layout(ctx.rng, [['দেখাও'] + r['toks'] + [';']], 'min').strip()
            cases.append({'src': pstreams.prog(r['decl'] + [stmt]), 'kind': 'expr-' + r['kind'], 'group': id(r), 'variant': 9, 'tree': r['tree']})
    impl, model = diff_programs(ctx, 'expr', cases, flags='-', nontrivial=lambda s: True)
    # metamorphic, implementation only: redundant parentheses never change the result
    groups = collections.defaultdict(list)
    for c, a in zip(cases, impl): groups[c['group']].append((c, out_of(a)))
    for g in groups.values():
        base = g[0][1]
        for c, o in g[1:]:
            if o != base and len(ctx.failing) < 4:
                ctx.failing.append({'stream': 'expr-parens', 'why': 'redundant parentheses changed the result', 'source': c['src'], 'case_line': case_line(c, None, '-'),
                                    'implementation': o[:500], 'expected_same_as': g[0][0]['src'][-300:], 'expected': base[:500]})


# ---- metamorphic helper: same program, different collection schedules (C07)
def stream_gc_schedules(ctx):
    progs = pstreams.c07_programs(ctx.rng, ctx.tier) + general_cases(ctx, 300 if ctx.tier == 'thorough' else 50, risky=0.05)
    scheds = ['e', '1', '10', '01', '110', '0001']
    extra = 6 if ctx.tier == 'thorough' else 2
    cases = []
    for p in progs:
        ss = scheds[:2] + ctx.rng.sample(scheds[2:], 2) + [''.join(ctx.rng.choice('01') for _ in range(ctx.rng.randint(3, 12))) for _ in range(extra)] + ['n']
        if p.get('scheds'): ss = p['scheds']
        for s in ss:
            cases.append(dict(p, sched=s, flags='h', group=id(p), budget=max(3000, p.get('budget', 0))))
    impl, model = diff_programs(ctx, 'gc-schedules', cases, shrink=False)
    groups = collections.defaultdict(list)
    for c, a in zip(cases, impl): groups[c['group']].append((c, out_of(a)))
    for g in groups.values():
        base = next((o for c, o in g if c['sched'] == 'e'), g[0][1])
        for c, o in g:
            if o != base and 'steplimit' not in o and 'steplimit' not in base and len(ctx.failing) < 4:
                ctx.failing.append({'stream': 'gc-schedules-metamorphic', 'why': 'a collection schedule changed what the program prints or how it ends',
                                    'schedule': c['sched'], 'source': c['src'], 'case_line': case_line(c), 'implementation': o[:1500], 'without_collection': base[:1500]})


def stream_gc_heaps(ctx):
    import streams as st
    n = 20000 if ctx.tier == 'thorough' else 1500
    lines = ['gc ' + st.rand_heap(ctx.rng, force_cycle=(i % 3 == 0), max_lists=(10 if i % 7 == 0 else 5), max_recs=(6 if i % 7 == 0 else 3)) for i in range(n)]
    impl, model = oracle_and_model(ctx, lines, 'gch')
    bad = [(l, a, b) for l, a, b in zip(lines, impl, model) if a != b]
    ctx.evaluations += n; ctx.validated += n; ctx.nontrivial += len(set(lines))
    ctx.streams.append({'stream': 'gc-heaps', 'cases': n, 'rule': 'random heaps: <=10 list slots, <=6 record slots, sharing, forced cycles, list<->record nesting, pre-existing free lists, 1-3 scopes'})
    ctx.samples.append({'stream': 'gc-heaps', 'case': lines[1][:300], 'implementation': impl[1][:300]})
    for l, a, b in sorted(bad, key=lambda x: len(x[0]))[:2]:
        ctx.failing.append({'stream': 'gc-heaps', 'why': 'collector and model disagree on the heap after one collection', 'case_line': l, 'implementation': a, 'model': b, 'others': len(bad)})


def heap_stats(line):
    m = re.search(r'lists=\[(.*?)\] free_lists=\[(.*?)\] recs=\[(.*?)\] free_recs=\[(.*?)\] alloc=(\d+) collections=(\d+)\+(\d+)', line)
    if not m: return None
    nl = len(re.findall(r'\[[^\]]*\]', m.group(1)))
    nr = len(re.findall(r'\{[^}]*\}', m.group(3)))
    return {'lists': nl, 'recs': nr, 'free_lists': len(m.group(2).split()), 'free_recs': len(m.group(4).split()), 'collections': int(m.group(6)) + int(m.group(7))}


def stream_alloc_loops(ctx):
    cases = pstreams.c08_programs(ctx.rng, ctx.tier)
    impl, model = diff_programs(ctx, 'alloc-loops', cases, shrink=False, nontrivial=lambda s: True)
    byroute = collections.defaultdict(list)
    for c, a in zip(cases, impl):
        st = heap_stats(a)
        if st: byroute[c['route']].append((c['N'], st, c))
    table = {}
    for route, rows in byroute.items():
        rows.sort(key=lambda r: r[0])
        table[route] = [(n, s['lists'], s['recs'], s['collections']) for n, s, _ in rows]
        small, big = rows[0], rows[-1]
        # heap size must not grow with the number of iterations: allow the arena of the longest run to exceed the
        # shortest one's only by a constant (one collection period)
        bound = 2100 + big[2].get('live', 0)
        if big[1]['lists'] > bound or big[1]['recs'] > bound or big[1]['lists'] > small[1]['lists'] + 1100 or big[1]['recs'] > small[1]['recs'] + 1100:
            ctx.failing.append({'stream': 'alloc-loops-bound', 'why': 'arena size grows with the number of iterations (route %s: %r)' % (route, table[route]),
                                'source': big[2]['src'], 'case_line': case_line(big[2]), 'implementation': str(big[1])})
        if big[0] >= 2000 and big[1]['collections'] == 0:
            ctx.failing.append({'stream': 'alloc-loops-bound', 'why': 'no collection was triggered by %d allocating iterations (route %s)' % (big[0], route),
                                'source': big[2]['src'], 'case_line': case_line(big[2]), 'implementation': str(big[1])})
    ctx.streams.append({'stream': 'alloc-loops-table', 'route -> [(iterations, list slots, record slots, collections)]': table})


# ---- C02: chain with and without history
def stream_chains(ctx):
    raw = pstreams.c02_cases(ctx.rng, ctx.tier)
    cases = [dict(c) for c in raw]
    impl, model = diff_programs(ctx, 'chains', cases, flags='-', nontrivial=lambda s: True)
    # metamorphic: the chain behaves the same after any history (suffix of the output is the chain alone)
    alone = [dict(c, src=c['alone']) for c in raw if c.get('alone')]
    lines = [case_line(c, None, '-') for c in alone]
    ai = vlib.run_sharded(ORACLE, lines, 'alone')
    k = 0
    for c, a in zip(cases, impl):
        if not c.get('alone'): continue
        al = ai[k]; k += 1
        o_full, e_full = ends_of(a, with_line=False)
        o_al, e_al = ends_of(al, with_line=False)
        chunks_al = o_al.split(' ')[1:]
        chunks_full = o_full.split(' ')[1:]
        if e_full != e_al or (chunks_al and chunks_full[-len(chunks_al):] != chunks_al):
            if len(ctx.failing) < 4:
                ctx.failing.append({'stream': 'chains-history', 'why': 'an if/else chain behaved differently after an execution history', 'kind': c['kind'], 'source': c['src'],
                                    'case_line': case_line(c, None, '-'), 'implementation': a[:1500], 'chain_alone': al[:1500]})
    ctx.evaluations += len(alone)


def _chunk_texts(a):
    out, end = ends_of(a)
    return [dec(x[2:]) for x in out.split(' ')[1:] if x], end


def c17_check(c, a):
    """C17 on the implementation's own output"""
    texts, end = _chunk_texts(a)
    if c.get('kind') == 'split' and end == ('ok',) and c['sep'] != '':
        # program prints: the fields, their count, the re-joined string (last chunk)
        if texts[-1] != c['s']: return 'joining the fields of a split does not return the original string'
        want = c['s'].split(c['sep'])
        if texts[-2] != genprog.bn(len(want)): return 'split yields %s fields, the string has %d separator-delimited fields' % (texts[-2], len(want))
    if c.get('kind') == 'split-eol' and end == ('ok',):
        # prints: the count, whether join(split(s, sep), sep) == s, the fields joined by |, a count
        want = c['s'].split(c['sep'])
        if texts[0] != genprog.bn(len(want)): return 'split yields %s fields, the string has %d separator-delimited fields' % (texts[0], len(want))
        if texts[1] != 'সত্য': return 'joining the fields of a split does not return the original string'
        if texts[2] != '|'.join(want): return 'the fields of the split are not the text between the separators'
    if c.get('kind') == 'split' and end == ('ok',) and c['sep'] == '':
        if texts[-2] != genprog.bn(len(c['s'])): return 'splitting by the empty string does not yield the characters'
    if c.get('kind') == 'join' and end == ('ok',) and c['sep'] != '' and c['list'] and all(c['sep'] not in x for x in c['list']):
        # prints: joined, then the list rendering [e1, e2, ...]
        joined = c['sep'].join(c['list'])
        got = [t for t in texts[2:-1] if t != ', '] if len(texts) >= 3 else None
        # an empty-string element is an empty chunk, which dec() gives as ''; rebuild from the raw chunks
        raw = ends_of(a)[0].split(' ')[1:]
        elems = [dec(x[2:]) for x in raw[2:-1]]
        elems = [e for i, e in enumerate(elems) if not (e == ', ' and i % 2 == 1)]
        if elems != c['list']:
            n_occ = sum(1 for i in range(len(joined)) if joined.startswith(c['sep'], i))
            cls = 'D23-straddle' if n_occ > len(c['list']) - 1 else None
            return ('split after join does not return the list although no element contains the separator: %r sep %r -> %r' % (c['list'], c['sep'], elems), cls)
    return None


def simple_stream(name, gen, **kw):
    def f(ctx):
        cases = gen(ctx.rng, ctx.tier)
        diff_programs(ctx, name, cases, **kw)
    f.__name__ = 'stream_' + name
    return f


# ---- C09
def stream_f64(ctx):
    import struct
    rng = ctx.rng
    n = 60000 if ctx.tier == 'thorough' else 3000
    def rb():
        k = rng.random()
        if k < 0.4: return rng.getrandbits(64)
        if k < 0.6: return struct.unpack('<Q', struct.pack('<d', rng.choice([0.1, 1.0, 2.5, 1e22, 1e23, 5e-324, 1.7976931348623157e308, 123456789.125, 0.3, 1 / 3, 2.0 ** 53, 2.0 ** 53 + 2, 1e-7, 123e-20, 2.28, 1.05])))[0]
        if k < 0.7: return rng.choice([0, 1 << 63, 0x7ff0000000000000, 0xfff0000000000000, 0x7ff8000000000000, 1, 0x000fffffffffffff, 0x0010000000000000, 0x7fefffffffffffff])
        if k < 0.8: return (rng.randrange(2047) << 52)                      # powers of two
        if k < 0.9: return struct.unpack('<Q', struct.pack('<d', float(rng.randint(-10 ** rng.randint(1, 17), 10 ** rng.randint(1, 17)))))[0]
        return struct.unpack('<Q', struct.pack('<d', rng.uniform(-1000, 1000)))[0]
    lines = []
    for i in range(n): lines.append('f64 print %016x' % rb())
    for i in range(n): lines.append('f64 arith %s %016x %016x' % (rng.choice(['add', 'sub', 'mul', 'div', 'rem']), rb(), rb()))
    for i in range(n // 4): lines.append('f64 usize %016x' % rb())
    for i in range(n):
        digs = ''.join(rng.choice('0123456789') for _ in range(rng.randint(1, 20)))
        k = rng.randint(0, len(digs))
        t = digs[:k] + ('.' if rng.random() < 0.7 else '') + digs[k:]
        if rng.random() < 0.3: t += rng.choice('eE') + rng.choice(['', '-', '+']) + str(rng.randint(0, 330))
        if rng.random() < 0.2: t = rng.choice('-+') + t
        if rng.random() < 0.05: t = rng.choice(['inf', 'nan', 'Infinity', 'x', '1_0', '0x1', ' 1', '1 ', '', '.', 'e1', '1e', '1e+', '--1', 'iNf', 'infinit'])
        lines.append('f64 parse %s' % enc(t))
    impl, model = oracle_and_model(ctx, lines, 'f64')
    # print -> parse round trip on the implementation's std (part of C09's statement, checked directly)
    bad = [(l, a, b) for l, a, b in zip(lines, impl, model) if a != b]
    ctx.evaluations += len(lines); ctx.validated += len(lines); ctx.nontrivial += len(set(lines))
    ctx.streams.append({'stream': 'f64', 'cases': len(lines), 'rule': 'f64::to_string, parse::<f64>, as usize, + - * / % on bit patterns (random, specials, subnormals, powers of two, 2^53 neighbourhood) and random decimal texts incl. exponent and malformed forms'})
    ctx.samples.append({'stream': 'f64', 'case': lines[0], 'implementation': impl[0][:200]})
    for l, a, b in bad[:2]:
        ctx.failing.append({'stream': 'f64', 'why': 'model of the std float function disagrees with the implementation', 'case_line': l, 'implementation': a, 'model': b, 'others': len(bad)})


def c09_check(c, a):
    """C09 on the implementation's own output: printing then reading back gives the same number"""
    if c.get('kind') in ('literal', 'arith'):
        out, end = ends_of(a)
        chunks = out.split(' ')[1:]
        if end == ('ok',):
            # program prints: ক, _স্ট্রিং(ক), roundtrip == ক, [literal: _সংখ্যা(lit) == ক]
            texts = [dec(x[2:]) for x in chunks]
            if c['kind'] == 'literal':
                if texts[0] != texts[1]: return '_স্ট্রিং differs from the printed text: %r vs %r' % (texts[1], texts[0])
                if texts[2] != 'সত্য': return 'reading the printed text back does not give the same number'
                if texts[3] != 'সত্য': return '_সংখ্যা of the literal text differs from the literal'
                if not re.fullmatch(r'-?[০-৯]+(\.[০-৯]+)?', texts[0]): return 'printed number is not plain Bangla-digit decimal text: %r' % texts[0]
            else:
                if texts[1] != 'সত্য': return 'reading the printed text back does not give the same number'
    return None


def stream_numbers(ctx):
    cases = pstreams.c09_literal_cases(ctx.rng, ctx.tier)
    diff_programs(ctx, 'numbers', cases, flags='-', nontrivial=lambda s: True, extra_check=c09_check)


# ---- C11 layout
SEP_CHOICES = [' ', '\t', '\n', '\r\n', '  ', ' \n\t ', '\r', '']


OPERAND_END = lambda t: t[-1] in ')]' or t.startswith('"') or t in ('সত্য', 'মিথ্যা') or _is_number(t) or _is_ident(t)


def _ident_char(c):
    return c in '-_/' or not (ord(c) < 128 and not c.isalnum())


def _is_number(t):
    return t[0] in genprog.BN or (t[0] == '-' and len(t) > 1 and t[1] in genprog.BN)


def _is_ident(t):
    """lexed by the identifier scanner (identifiers and keywords)"""
    return _ident_char(t[0]) and not _is_number(t) and t[0] not in '-/'


def needs_sep(prev, a, b):
    """may the adjacent token texts a b fuse into something else when written without a blank?
    prev: the token before a (decides whether a '-' before a digit is a sign)"""
    if a.startswith('#') or b.startswith('#'): return False
    if a.startswith('"') or b.startswith('"'): return False
    if _is_ident(a) and _ident_char(b[0]): return True          # identifier characters continue the identifier (incl. - and /)
    if _is_number(a) and (b[0] in genprog.BN + '.' or (ord(b[0]) < 128 and b[0].isdigit())): return True
    if a[-1] in '=!<>' and b[0] == '=': return True
    if a == '-' and b[0] == '>': return True
    if a == '-' and b[0] in genprog.BN:
        # "-৫": sign of a literal unless an operand precedes the '-' (then binary minus either way): same value, but
        # "৫ - -৩" style texts keep their blank when a is itself preceded by an operator and b is a negative literal
        return False
    if a == '-' and b[0] == '-': return False
    return False


def layout(rng, stmts, mode):
    out = []
    toks = [t for s in stmts for t in s]
    for i, t in enumerate(toks):
        out.append(t)
        if i + 1 < len(toks):
            nxt = toks[i + 1]
            prev = toks[i - 1] if i > 0 else ''
            need = needs_sep(prev, t, nxt)
            if mode == 'min': sep = ' ' if need else ''
            elif mode == 'canon': sep = ' '
            elif mode in ('cr', 'crlf', 'tab', 'lf'): sep = {'cr': '\r', 'crlf': '\r\n', 'tab': '\t', 'lf': '\n'}[mode]
            else:
                sep = rng.choice(SEP_CHOICES)
                if sep == '' and need: sep = rng.choice(SEP_CHOICES[:5])
            out.append(sep)
    return ''.join(out) + rng.choice(['', '\n', ' '])


def with_comments(rng, stmts):
    out = []
    for s in stmts:
        if rng.random() < 0.3 and s not in (['{'],) :
            out.append([rng.choice(['# মন্তব্য #', '#\nবহু লাইন\nমন্তব্য\n#', '# এতে \\# আছে #', '##', '# দেখাও ১; #', '# পথ C:\\\\# দেখাও "ভিতরে"; #', '#\\\n#', '# a\\b #'] + P3.COMMENTS)])
        out.append(s)
    return out


def stream_layout(ctx):
    n = 400 if ctx.tier == 'thorough' else 60
    nlay = 24 if ctx.tier == 'thorough' else 8
    progs = []
    for i in range(n):
        g = genprog.Gen(ctx.rng, risky=0.05, ill_typed=0.01)
        st = g.program(ctx.rng.randint(3, 10))
        st = [s for s in st if not s[0].startswith('#')]
        progs.append(st)
    # the documented no-blank subtraction forms
    progs += [[['নাম', 'খ', '=', '১০', ';'], ['দেখাও', '১০', '-', '৩', ';'], ['দেখাও', 'খ', '-', '৩', ';'], ['দেখাও', '(', 'খ', ')', '-', '৩', '-', '২', ';'], ['দেখাও', '[', '১০', ']', '+', '[', '-৩', ']', ';'], ['দেখাও', '২', '*', '-', '৩', ';']]]
    progs += [[['নাম', 'ক', '=', '[', '৫', ']', ';'], ['দেখাও', '৫', '-', '১', ';'], ['দেখাও', 'ক', '[', '০', ']', '-', '১', ';'], ['দেখাও', '(', 'ক', '[', '০', ']', ')', '-', '১', ';'], ['দেখাও', '৫', '-', '-১', ';']]]
    # comma-less list and record literals: adjacent string tokens cannot fuse
    progs += [[['দেখাও', '[', '"ক"', '"খ"', '"গ"', ']', ';'], ['নাম', 'র', '=', '@', '{', '"a"', '->', '"x"', '"b"', '->', '"y"', '}', ';'], ['দেখাও', 'র', ';'],
               ['দেখাও', '[', '"ক"', '১', '"খ"', '[', '"গ"', '"ঘ"', ']', ']', ';'], ['দেখাও', '_লিস্ট-লেন', '(', '[', '""', '""', '"a"', '""', ']', ')', ';'], ['দেখাও', '[', '"ক"', '"খ"', ']', '+', '[', '"গ"', ']', ';']]]
    cases = []
    for gi, st in enumerate(progs):
        variants = [('canon', layout(ctx.rng, st, 'canon')), ('min', layout(ctx.rng, st, 'min'))] + [(m_, layout(ctx.rng, st, m_)) for m_ in ('cr', 'crlf', 'tab', 'lf')]
        for j in range(nlay - 3): variants.append(('rand', layout(ctx.rng, st, 'rand')))
        stc = with_comments(ctx.rng, st)
        # comments go between statements: keep separators around them
        variants.append(('comments', '\n'.join(' '.join(s) for s in stc) + '\n'))
        stc2 = with_comments(ctx.rng, st)
        variants.append(('comments', ''.join(' '.join(s) + ctx.rng.choice([' ', ' ', '\n', '\t', '  ']) for s in stc2) + '\n'))
        for mode, src in variants:
            cases.append({'src': src, 'kind': 'layout-' + mode, 'group': gi})
    # comments at the statement boundaries of an imported module and around the import statement
    modbody = ['নাম মান = ৭;', 'ফাং দেখ() {', '    ফেরত মান - ১;', '} ফেরত;']
    gi0 = len(progs)
    for k, (main, mod) in enumerate([
            (['মডিউল ক = "lib/m.pakhi";', 'দেখাও ক/মান;', 'দেখাও ক/দেখ();'], modbody),
            (['মডিউল ক = "lib/m.pakhi";', '# আমদানির পরে #', 'দেখাও ক/মান;', 'দেখাও ক/দেখ();'], ['# মডিউলের শিরোনাম', 'দুই লাইন #'] + modbody),
            (['# আগে #', 'মডিউল ক = "lib/m.pakhi"; # একই লাইনে #', 'দেখাও ক/মান;', 'দেখাও ক/দেখ();', '# শেষে #'], modbody + ['# মডিউলের শেষে #']),
            (['মডিউল ক = "lib/m.pakhi";', 'দেখাও ক/মান;', '# মাঝে \\# এখনও #', 'দেখাও ক/দেখ();'], [modbody[0], '# মাঝে #'] + modbody[1:])]):
        cases.append({'src': '\n'.join(main) + '\n', 'files': [('lib/m.pakhi', '\n'.join(mod) + '\n')], 'kind': 'layout-import-comments', 'group': gi0})
    gi1 = gi0 + 1
    for c in P4.keyword_comment_programs():
        gi1 += 1; cases.append(dict(c, group=gi1))
    for src in P4.comment_anywhere_sources(ctx.rng, progs[:40 if ctx.tier != 'thorough' else 300]):
        gi1 += 1; cases.append({'src': src, 'kind': 'layout-comment-anywhere', 'group': gi1})
    impl, model = diff_programs(ctx, 'layout', cases, flags='-', nontrivial=lambda s: True)
    groups = collections.defaultdict(list)
    for c, a in zip(cases, impl): groups[c['group']].append((c, ends_of(a, with_line=False)))
    for g in groups.values():
        base = g[0][1]
        for c, o in g[1:]:
            if o != base and len(ctx.failing) < 4:
                ctx.failing.append({'stream': 'layout-metamorphic', 'why': 'a re-layout of the same token sequence changed what the program prints or how it ends', 'kind': c['kind'],
                                    'source': c['src'], 'case_line': case_line(c, None, '-'), 'implementation': str(o)[:1000], 'canonical_layout_source': g[0][0]['src'], 'canonical_layout_result': str(base)[:1000]})


# ---- C12 parser
TOKEN_ALPHABET = ['নাম', 'যদি', 'অথবা', 'লুপ', 'ফাং', 'ফেরত', 'থামাও', 'আবার', 'দেখাও', '_দেখাও', 'সত্য', 'মিথ্যা', 'মডিউল', 'ক', '১', '"s"', '+', '-', '*', '/', '%', '@', ';', '->',
                  '# c #', ',', '(', ')', '{', '}', '[', ']', '=', '<', '>', '==', '!=', '<=', '>=', '&', '|', '!']


def parse_line(src, files=()):
    return 'parse ' + vlib.files_arg([('m.pakhi', src)] + list(files))


def stream_parse(ctx):
    rng = ctx.rng
    srcs = []
    # exhaustive short token sequences
    maxlen = 3 if ctx.tier == 'thorough' else 2
    for n in range(0, maxlen + 1):
        for w in itertools.product(TOKEN_ALPHABET, repeat=n): srcs.append((' '.join(w), 'exhaustive%d' % n))
    if ctx.tier != 'thorough':
        for _ in range(3000): srcs.append((' '.join(rng.choice(TOKEN_ALPHABET) for _ in range(3)), 'sample3'))
        for _ in range(1500): srcs.append((' '.join(rng.choice(TOKEN_ALPHABET) for _ in range(rng.randint(4, 12))), 'soup'))
    else:
        for _ in range(60000): srcs.append((' '.join(rng.choice(TOKEN_ALPHABET) for _ in range(rng.randint(4, 14))), 'soup'))
    # valid programs, their truncations and token mutants
    nprog = 300 if ctx.tier == 'thorough' else 60
    for _ in range(nprog):
        st = genprog.gen_program(rng, risky=0.05)
        toks = genprog.flat_tokens(st)
        srcs.append((genprog.render(st), 'valid'))
        for _ in range(12 if ctx.tier == 'thorough' else 5):
            k = rng.randrange(len(toks) + 1); srcs.append((' '.join(toks[:k]), 'truncated'))
        for _ in range(30 if ctx.tier == 'thorough' else 10):
            t = list(toks)
            for _ in range(rng.choice([1, 1, 2])):
                op = rng.choice(['del', 'dup', 'swap', 'ins'])
                if not t: break
                i = rng.randrange(len(t))
                if op == 'del': del t[i]
                elif op == 'dup': t.insert(i, t[i])
                elif op == 'swap' and len(t) > 1:
                    j = rng.randrange(len(t)); t[i], t[j] = t[j], t[i]
                else: t.insert(i, rng.choice(TOKEN_ALPHABET))
            srcs.append((' '.join(t), 'mutant'))
    # documented forms nested deeply
    for d in ([5, 50, 300] if ctx.tier != 'thorough' else [5, 50, 300, 2000]):
        srcs.append(('দেখাও ' + '(' * d + '১' + ')' * d + ';', 'deep-parens'))
        srcs.append(('দেখাও ' + '[' * d + '১' + ']' * d + ';', 'deep-list'))
        srcs.append(('দেখাও ' + '-' * 1 + ' -' * d + ' ১;', 'deep-unary'))
        srcs.append(('যদি সত্য { ' * d + 'দেখাও ১; ' + '} ' * d, 'deep-if'))
        srcs.append(('দেখাও ' + '১ + ' * d + '১;', 'long-chain'))
        srcs.append(('দেখাও ' + '@{"k" -> ' * d + '১' + ',}' * d + ';', 'deep-rec'))
    # documented statement forms with nested sub-expressions: every token-level truncation
    forms = ['নাম ক = ফ ( গ ( ১ , ঘ ( ২ ) ) , [ ৩ , @ { "k" -> ৪ , } ] ) ;', 'ক [ ০ ] [ "k" ] = ফ ( গ ( ১ ) ) + [ ২ ] [ ০ ] ;', 'দেখাও ফ ( ১ ) ( ২ ) [ ৩ ] ;',
             'যদি ফ ( গ ( ১ ) ) == ২ { দেখাও ১ ; } অথবা যদি ! ( ক & খ ) { দেখাও ২ ; } অথবা { দেখাও ৩ ; }', 'ফাং ফ ( ক , খ ) { ফেরত ফ ( গ ( ক ) , খ ) ; } ফেরত ;',
             'লুপ { যদি ক > ফ ( গ ( ১ ) ) { থামাও ; } আবার ; } আবার ;', 'মডিউল ম = "a" + "b.pakhi" ;', '_দেখাও @ { "a" -> ফ ( গ ( ১ ) ) , "b" -> [ ক ( খ ( ২ ) ) ] , } ;', 'নাম ক = - ফ ( - গ ( - ১ ) ) ;']
    for f in forms:
        toks = f.split(' ')
        for k in range(len(toks) + 1): srcs.append((' '.join(toks[:k]), 'truncated-form'))
        for k in range(len(toks)): srcs.append((' '.join(toks[:k] + toks[k + 1:]), 'form-minus-one'))
    srcs += P3.parse_sources() + [(c_['src'], c_['kind']) for c_ in P5.parse_edge_programs()]
    lines = [parse_line(s) for s, _ in srcs]
    # imports: alias spellings, comments around the splice point, failures
    modsrc = 'নাম মান = ৯;\nফাং দেখ() {\n    ফেরত মান;\n} ফেরত;\n'
    for main, files in [('মডিউল ক = "mod.pakhi";\nদেখাও ক/দেখ();\n', [('mod.pakhi', modsrc)]),
                        ('মডিউল জ্যা/বর্গ = "mod.pakhi";\nদেখাও জ্যা/বর্গ/দেখ();\n', [('mod.pakhi', modsrc)]),
                        ('মডিউল ক/খ/গ = "mod.pakhi";\nমডিউল ক = "mod.pakhi";\n', [('mod.pakhi', modsrc)]),
                        ('মডিউল ক = "mod.pakhi"; # পরে #\nদেখাও ক/মান;\n', [('mod.pakhi', '# শিরোনাম #\n' + modsrc)]),
                        ('মডিউল ক = "mod.pakhi";\n', [('mod.pakhi', '# শুধু মন্তব্য #')]),
                        ('মডিউল ক = "mod.pakhi";\n', [('mod.pakhi', '')]),
                        ('মডিউল ক = "d/" + "mod.pakhi";\n', [('d/mod.pakhi', 'মডিউল ভ = "inner.pakhi";\n' + modsrc), ('d/inner.pakhi', '# ভিতরের #\nনাম ভিতর = ১;\n')]),
                        ('মডিউল ক = "নাই.pakhi";\n', []), ('মডিউল ক = "mod.txt";\n', [('mod.txt', modsrc)]), ('মডিউল ক = "mod";\n', [('mod', modsrc)]), ('মডিউল ক = "d/mod";\n', []),
                        ('মডিউল ক = "";\n', []), ('মডিউল ক = "..";\n', []), ('মডিউল ক = ".pakhi";\n', []), ('মডিউল _টাইপ = "mod.pakhi";\nদেখাও _টাইপ/মান;\n', [('mod.pakhi', modsrc)])] + \
                       [(f_ + '\n', [('mod.pakhi', modsrc)]) for f_ in P4.IMPORT_FORMS2] + [(c_['src'], c_.get('files', [])) for c_ in P3.import_graph_oddities() + P4.reimport_programs() + P3.module_alias_programs()] + \
                       [(c_['src'], []) for c_ in P4.keyword_comment_programs()]:
        srcs.append((main, 'import')); lines.append(parse_line(main, files))
    impl, model = oracle_and_model(ctx, lines, 'parse')
    origins = collections.Counter(o for _, o in srcs)
    kinds = collections.Counter()
    bad = []
    for (s, o), l, a, b in zip(srcs, lines, impl, model):
        kinds[a.split(' ')[0] + ((' ' + a.split(' ')[1]) if a.startswith('err') else '')] += 1
        why = None
        if a in ('panic', 'hang') or a.startswith('crash') or a.startswith('driver'): why = 'parser did not return a value: ' + a
        elif not vlib.lines_agree(a, b): why = 'parser and model disagree'
        elif o == 'valid' and not a.startswith('ok'): why = 'a program composed of documented forms was rejected: ' + a[:80]
        if why: bad.append((s, l, a, b, why))
    ctx.evaluations += len(srcs); ctx.validated += len(srcs); ctx.nontrivial += len(set(s for s, _ in srcs if len(s) > 3))
    ctx.streams.append({'stream': 'parse', 'cases': len(srcs), 'origins': dict(origins), 'implementation_result_kinds': dict(kinds)})
    ctx.samples.append({'stream': 'parse', 'source': srcs[len(srcs) // 2][0][:300], 'implementation': impl[len(srcs) // 2][:300]})
    # statements too wide for the model's parser: implementation alone (documented forms are accepted, malformed input is an error value)
    big = P3.parse_sources_impl_only()
    big_lines = [parse_line(s) for s, _ in big]
    big_impl = vlib.run_sharded(ORACLE, big_lines, 'parsebig')
    for (s, o), l, a in zip(big, big_lines, big_impl):
        why = None
        if a in ('panic', 'hang') or a.startswith('crash') or a.startswith('driver'): why = 'parser did not return a value: ' + a
        elif o.startswith('wide') and not a.startswith('ok'): why = 'a statement composed of documented forms was rejected: ' + a[:80]
        elif o.startswith('long') and a.startswith('ok') and not s.startswith('# '): why = None
        if why: bad.append((s, l, a, '(model not consulted)', why))
    ctx.evaluations += len(big); ctx.validated += len(big)
    ctx.streams.append({'stream': 'parse-large', 'cases': len(big), 'rule': 'implementation only: statements of 998-4000 sub-expressions of each bracketed form, malformed statements with lexemes of 8-16 KiB'})
    bad.sort(key=lambda x: len(x[0]))
    for s, l, a, b, why in bad[:2]:
        if b == '(model not consulted)':
            ctx.failing.append({'stream': 'parse-large', 'why': why, 'source': s[:3000], 'case_line': l[:200], 'implementation': a[:1500], 'others': len(bad)})
            continue
        def still(cands):
            ls = [parse_line(c) for c in cands]
            ii, mm = oracle_and_model(ctx, ls, 'shr')
            return [x in ('panic', 'hang') or x.startswith('crash') or not vlib.lines_agree(x, y) for x, y in zip(ii, mm)]
        toks = s.split(' ')
        small = s
        if len(toks) > 1 and why != 'a program composed of documented forms was rejected: ' + a[:80]:
            small = ' '.join(shrink_lines('\n'.join(toks), lambda cs: still([c.replace('\n', ' ') for c in cs])).split('\n'))
        ii, mm = oracle_and_model(ctx, [parse_line(small)], 'shr')
        ctx.failing.append({'stream': 'parse', 'why': why, 'source': small, 'case_line': parse_line(small), 'implementation': ii[0][:1500], 'model': mm[0][:1500], 'original_source': s[:2000], 'others': len(bad)})


# ---- C13 cli
def stream_cli(ctx):
    ok, err = vlib.build_pakhi_bin()
    if not ok:
        ctx.broken.append('the command-line tool does not build: ' + err[-300:]); return
    import subprocess, tempfile, shutil
    d = os.path.join(vlib.SCRATCH, 'cli_%d' % os.getpid())
    os.makedirs(d, exist_ok=True)
    progs = [('দেখাও "ঠিক";\n', 0, 'ঠিক\n', None), ('দেখাও "আগে";\n_এরর("বার্তা");\nদেখাও "পরে";\n', 1, 'আগে\n', 'RuntimeError: বার্তা'),
             ('দেখাও ১;\nদেখাও ১ + "a";\n', 1, '১\n', 'TypeError'), ('দেখাও অজানা;\n', 1, '', 'RuntimeError'), ('দেখাও "a\n', 1, '', 'SyntaxError'), ('দেখাও ১ $ ২;', 1, '', 'SyntaxError'),
             ('নাম ক = [১];\nদেখাও ক[৫];\n', 1, '', 'RuntimeError'), ('মডিউল ক = "নাই.pakhi";\n', 1, '', 'RuntimeError'), ('যদি ১ {\n}\n', 1, '', 'RuntimeError'), ('}', 1, '', 'RuntimeError'), ('দেখাও (১', 1, '', None),
             ('দেখাও "এক";\n_দেখাও "দুই";\n_দেখাও [১, "ক"];\nদেখাও অজানা;\n', 1, 'এক\nদুই[১, ক]', 'RuntimeError'), ('_দেখাও "শেষে নতুন লাইন নেই";\n', 0, 'শেষে নতুন লাইন নেই', None),
             ('নাম শূ;\n_দেখাও "ক";\n_দেখাও "খ";\nদেখাও [১, শূ];\nদেখাও "পরে";\n', 1, 'কখ', 'RuntimeError'), ('_দেখাও "ক";\nদেখাও "খ";\n_দেখাও "গ";\n_এরর("থাম");\n', 1, 'কখ\nগ', 'RuntimeError: থাম'),
             ('নাম র = [@{"নাম" -> ১,}];\nদেখাও র;\n_দেখাও র;\n', 0, '[@{"নাম":১,}]\n[@{"নাম":১,}]', None)]
    progs += [(src_, 0, out_, None) for src_, out_ in P4.cli_programs()]
    n = 0
    for src, status, stdout, errhead in progs:
        p = os.path.join(d, 'p.pakhi')
        open(p, 'w', encoding='utf-8').write(src)
        try:
            r = subprocess.run([vlib.PAKHI_BIN, 'p.pakhi'], cwd=d, capture_output=True, timeout=20, stdin=subprocess.DEVNULL)
        except subprocess.TimeoutExpired:
            ctx.failing.append({'stream': 'cli', 'why': 'command-line tool hangs', 'source': src}); continue
        n += 1
        so, se = r.stdout.decode('utf-8', 'replace'), r.stderr.decode('utf-8', 'replace')
        why = None
        if r.returncode != status: why = 'exit status %d, expected %d' % (r.returncode, status)
        elif so != stdout: why = 'stdout %r, expected %r' % (so, stdout)
        elif status == 1 and (not se.strip() or 'panicked' in se): why = 'no diagnostic on stderr or a panic: %r' % se[:200]
        elif errhead and not se.startswith(errhead): why = 'stderr starts with %r, expected %r' % (se[:60], errhead)
        elif status == 1 and errhead and 'UnexpectedError' not in errhead and 'at file: ' not in se: why = 'diagnostic does not name file and line: %r' % se[:200]
        if why: ctx.failing.append({'stream': 'cli', 'why': why, 'source': src, 'stderr': se[:500], 'stdout': so[:500], 'status': r.returncode})
    shutil.rmtree(d, ignore_errors=True)
    ctx.evaluations += n; ctx.validated += n
    ctx.streams.append({'stream': 'cli', 'cases': n, 'rule': 'built pakhi binary: exit status, stdout, first stderr line'})


# ---- C14 split equivalence (metamorphic)
def stream_split_equiv(ctx):
    raw = pstreams.split_equiv_cases(ctx.rng, ctx.tier)
    cases = []
    for r in raw:
        cases.append({'src': r['src'], 'kind': 'split-one', 'group': id(r)})
        cases.append({'src': r['split'][0], 'files': r['split'][1], 'kind': 'split-two', 'group': id(r)})
    impl, model = diff_programs(ctx, 'split-equiv', cases, flags='-', shrink=False)
    for i in range(0, len(cases), 2):
        a, b = ends_of(impl[i], with_line=False), ends_of(impl[i + 1], with_line=False)
        a = (a[0], tuple(x for j, x in enumerate(a[1]) if j != 3)); b = (b[0], tuple(x for j, x in enumerate(b[1]) if j != 3))
        if (a[0], a[1][:2]) != (b[0], b[1][:2]) and len(ctx.failing) < 4:
            ctx.failing.append({'stream': 'split-equiv', 'why': 'moving definitions into an imported module changed the behaviour', 'source': cases[i + 1]['src'], 'files': cases[i + 1]['files'],
                                'case_line': case_line(cases[i + 1], None, '-'), 'implementation': str(b)[:1000], 'single_file_source': cases[i]['src'], 'single_file_result': str(a)[:1000]})


# ---- C19 compose (metamorphic + model)
def stream_compose(ctx):
    raw = pstreams.c19_cases(ctx.rng, ctx.tier)
    cases = []
    for r in raw:
        bud = r.get('budget', 8000)
        sc = r.get('sched', 'n')
        fl = r.get('files', [])
        cases.append({'src': r['p1'], 'kind': 'p1', 'g': id(r), 'budget': bud, 'sched': sc, 'files': fl})
        cases.append({'src': r['p2'], 'kind': 'p2', 'g': id(r), 'budget': bud, 'sched': sc, 'files': fl})
        cases.append({'src': r['p1'] + r['p2'], 'kind': 'p1p2', 'g': id(r), 'shift': r['p1'].count('\n'), 'budget': bud, 'sched': sc, 'files': fl})
    impl, model = diff_programs(ctx, 'compose', cases, flags='-', shrink=False)
    for i in range(0, len(cases), 3):
        o1, e1 = ends_of(impl[i]); o2, e2 = ends_of(impl[i + 1]); o12, e12 = ends_of(impl[i + 2])
        if e1 != ('ok',) or 'steplimit' in str(e2) or 'steplimit' in str(e12): continue
        want_out = ' '.join(['out'] + [x for x in o1.split(' ')[1:] + o2.split(' ')[1:] if x])
        want_end = e2
        if e2[:1] == ('err',) and e2[1] != 'Unexpected':
            want_end = (e2[0], e2[1], str(int(e2[2]) + cases[i + 2]['shift']) if e2[2] != '0' else '0', e2[3])
        if (' '.join(x for x in o12.split(' ') if x), e12) != (want_out, want_end) and len(ctx.failing) < 4:
            # known finding D29: an import name of P2 extends an import name of P1 by '/...' (computed from the two texts)
            imp = re.compile(r'মডিউল\s+(\S+)\s*=')
            n1, n2 = imp.findall(cases[i]['src']), imp.findall(cases[i + 1]['src'])
            cls = 'D29-import-name-extends-another' if any(b.startswith(a + '/') for a in n1 for b in n2) and e12[:2] == ('err', 'Runtime') else None
            ctx.failing.append({'stream': 'compose', 'class': cls, 'why': 'P1;P2 does not behave as P1 followed by P2 alone', 'source': cases[i + 2]['src'], 'case_line': case_line(cases[i + 2], None, '-'),
                                'implementation': str((o12, e12))[:1500], 'expected': str((want_out, want_end))[:1500], 'p2_alone': str((o2, e2))[:800]})


# ---- C20: a file that is not valid UTF-8 (implementation only: the model's files are texts)
def stream_fs_bytes(ctx):
    ok, err = vlib.build_pakhi_bin()
    if not ok:
        ctx.broken.append('the command-line tool does not build: ' + err[-300:]); return
    import subprocess, shutil
    d = os.path.join(vlib.SCRATCH, 'fsb_%d' % os.getpid())
    os.makedirs(d, exist_ok=True)
    n = 0
    for name, data in [('latin1.txt', b'caf\xe9 cr\xe8me'), ('cut.txt', 'বাংলা'.encode('utf-8')[:-1]), ('bin.dat', bytes(range(200, 256))), ('bom16.txt', b'\xff\xfea\x00')]:
        open(os.path.join(d, name), 'wb').write(data)
        src = 'দেখাও "আগে";\nনাম ত = _রিড-ফাইল("%s");\nদেখাও "পরে";\nদেখাও ত;\n' % name
        open(os.path.join(d, 'p.pakhi'), 'w', encoding='utf-8').write(src)
        try:
            r = subprocess.run([vlib.PAKHI_BIN, 'p.pakhi'], cwd=d, capture_output=True, timeout=20, stdin=subprocess.DEVNULL)
        except subprocess.TimeoutExpired:
            ctx.failing.append({'stream': 'fs-bytes', 'why': 'command-line tool hangs', 'source': src}); continue
        n += 1
        so, se = r.stdout.decode('utf-8', 'replace'), r.stderr.decode('utf-8', 'replace')
        if r.returncode != 1 or so != 'আগে\n' or not se.startswith('RuntimeError') or 'panicked' in se:
            ctx.failing.append({'stream': 'fs-bytes', 'why': 'reading a file that is not valid UTF-8 is not a located runtime error (status %d, stdout %r)' % (r.returncode, so[:80]),
                                'source': src, 'file': name, 'stderr': se[:300]})
    # paths with '..' components are resolved by the operating system, component by component: a missing directory in
    # front of '..' is an error, and '..' above the working directory leaves it
    for src, status, stdout in [('দেখাও "আগে";\nদেখাও _রাইট-ফাইল("নাই/../f.txt", "x");\nদেখাও "পরে";\n', 1, 'আগে\n'),
                                ('দেখাও _নতুন-ডাইরেক্টরি("d");\nদেখাও _রাইট-ফাইল("d/../g.txt", "x");\nদেখাও _রিড-ফাইল("g.txt");\nদেখাও _রিড-ফাইল("./d/../g.txt");\n', 0, 'সত্য\nসত্য\nx\nx\n'),
                                ('দেখাও _নতুন-ডাইরেক্টরি("a");\nদেখাও _রাইট-ফাইল("a/../../উপরে_%d.txt", "y");\nদেখাও "লেখা হল";\nদেখাও _ফাইল-নাকি-ডাইরেক্টরি("উপরে_%d.txt");\n' % (os.getpid(), os.getpid()), 1, 'সত্য\nসত্য\nলেখা হল\n')]:
        open(os.path.join(d, 'p.pakhi'), 'w', encoding='utf-8').write(src)
        try:
            r = subprocess.run([vlib.PAKHI_BIN, 'p.pakhi'], cwd=d, capture_output=True, timeout=20, stdin=subprocess.DEVNULL)
        except subprocess.TimeoutExpired:
            ctx.failing.append({'stream': 'fs-bytes', 'why': 'command-line tool hangs', 'source': src}); continue
        n += 1
        so, se = r.stdout.decode('utf-8', 'replace'), r.stderr.decode('utf-8', 'replace')
        if r.returncode != status or so != stdout or 'panicked' in se:
            ctx.failing.append({'stream': 'fs-bytes', 'why': "a path with '..' components does not name the file the operating system resolves it to (status %d, stdout %r)" % (r.returncode, so[:120]), 'source': src, 'stderr': se[:300]})
    try: os.remove(os.path.join(vlib.SCRATCH, 'উপরে_%d.txt' % os.getpid()))
    except OSError: pass
    shutil.rmtree(d, ignore_errors=True)
    ctx.evaluations += n; ctx.validated += n
    ctx.streams.append({'stream': 'fs-bytes', 'cases': n, 'rule': 'built pakhi binary, files with invalid UTF-8: exit status 1, nothing printed after the read, RuntimeError on stderr'})


# ---- C20 fs
def stream_fs(ctx):
    raw = pstreams.c20_cases(ctx.rng, ctx.tier)
    cases = [{'src': pstreams.prog(r['stmts']), 'kind': r['kind'], 'files': []} for r in raw]
    diff_programs(ctx, 'fs', cases, flags='f', nontrivial=lambda s: True)


def stream_fs_respell(ctx):
    """metamorphic, implementation only: the same sequence of file operations with some paths spelled ./p gives the same
    results (one file has one content whatever the spelling of its path)"""
    raw = [r for r in pstreams.c20_cases(ctx.rng, ctx.tier) if 'respelled' in r]
    cases = []
    for r in raw:
        cases.append({'src': pstreams.prog(r['stmts']), 'kind': 'plain', 'files': []})
        cases.append({'src': pstreams.prog(r['respelled']), 'kind': 'respelled', 'files': []})
    lines = [case_line(c, None, 'f') for c in cases]
    impl, _model = oracle_and_model(ctx, lines, 'respel')
    n = 0
    for i in range(0, len(cases), 2):
        a, b = ends_of(impl[i], with_line=False), ends_of(impl[i + 1], with_line=False)
        n += 1
        if a != b and len(ctx.failing) < 4:
            ctx.failing.append({'stream': 'fs-respell', 'why': 'spelling a path ./p instead of p changed what the file built-ins return', 'source': cases[i + 1]['src'],
                                'case_line': lines[i + 1], 'implementation': str(b)[:1000], 'plain_source': cases[i]['src'], 'plain_result': str(a)[:1000]})
    ctx.evaluations += len(cases); ctx.validated += len(cases)
    ctx.streams.append({'stream': 'fs-respell', 'cases': len(cases), 'pairs': n, 'rule': 'implementation-only metamorphic pairs: plain paths vs the same paths spelled ./p or .//p'})


def stream_stdin(ctx):
    ok, err = vlib.build_pakhi_bin()
    if not ok:
        ctx.broken.append('the command-line tool does not build'); return
    import subprocess, shutil
    d = os.path.join(vlib.SCRATCH, 'stdin_%d' % os.getpid())
    os.makedirs(d, exist_ok=True)
    src = 'নাম ক = _রিড-লাইন();\nনাম খ = _রিড-লাইন();\nনাম গ = _রিড-লাইন();\nদেখাও "[" + ক + "]";\nদেখাও "[" + খ + "]";\nদেখাও "[" + গ + "]";\n'
    open(os.path.join(d, 'p.pakhi'), 'w', encoding='utf-8').write(src)
    n = 0
    for inp, want in [('এক\nদুই\nতিন\n', ['এক', 'দুই', 'তিন']), ('a  \r\n\tb \nc', ['a', '\tb', 'c']), ('শুধু এক\n', ['শুধু এক', '', '']), ('', ['', '', '']), ('x\n\ny\n', ['x', '', 'y'])]:
        r = subprocess.run([vlib.PAKHI_BIN, 'p.pakhi'], cwd=d, capture_output=True, timeout=20, input=inp.encode('utf-8'))
        n += 1
        got = r.stdout.decode('utf-8', 'replace')
        exp = ''.join('[%s]\n' % w for w in want)
        if got != exp or r.returncode != 0:
            ctx.failing.append({'stream': 'stdin', 'why': '_রিড-লাইন does not return the next input lines without terminator', 'stdin': inp, 'stdout': got, 'expected': exp, 'source': src})
    shutil.rmtree(d, ignore_errors=True)
    ctx.evaluations += n; ctx.validated += n
    ctx.streams.append({'stream': 'stdin', 'cases': n, 'rule': 'built pakhi binary with piped stdin: successive _রিড-লাইন() calls'})


REGISTRY = _registry()
