"""Per-property checks: proof obligations + correspondence streams + failing-input search + evidence."""
import os, sys, json, time, random, re, collections
import vlib, streams
from vlib import log, enc, dec, ORACLE

TRUSTED_BASE_COMMON = [
    'Coq 8.16.1 kernel (coqc); vm_compute in finite table checks and in the replay sample; no native_compute',
    'tools/gen_tables.py (translator of the table-driven parts of lexer.rs, built_ins.rs, interpreter.rs, parser.rs)',
    'hand-written Gallina transcription of the Rust functions (coq/*.v), tied to /repo by differential runs only',
    'extraction: ExtrOcamlBasic only (bool, option, unit, list, prod, sumbool, sumor; andb/orb inlined); nat, positive, N, Z stay Coq inductives; OCaml 4.13.1',
    'model_driver/main.ml (string <-> list N conversion only), harness/src/main.rs (Rust oracle: custom IO, catch_unwind, watchdog), tools/*.py (generators, differ)',
    'Rust std/core modelled not verified: char::is_numeric (table dumped from the running toolchain), f64 parse/format, str::split/join, HashMap, Vec, std::fs',
]


class Ctx:
    def __init__(self, pid, tier, seed, st):
        self.pid, self.tier, self.seed, self.st = pid, tier, seed, st
        self.rng = random.Random(seed * 1000003 + int(pid[1:]))
        self.failing = []          # concrete failing inputs: dicts
        self.broken = []           # proof obligations / ties that no longer check: strings
        self.known_hits = []
        self.streams = []          # per-stream coverage dicts
        self.samples = []
        self.evaluations = 0
        self.nontrivial = 0
        self.validated = 0
        self.notes = []


def oracle_and_model(ctx, lines, tag, timeout_ms=5000):
    impl = vlib.run_sharded(ORACLE, lines, tag + 'o', timeout_ms=timeout_ms)
    model = vlib.run_sharded(ctx.st.model_exe, lines, tag + 'm', timeout_ms=timeout_ms)
    return impl, model


def shrink_text(src, still_fails, min_len=0, max_rounds=40):
    """greedy chunk deletion; still_fails(list of candidates) -> list of bool (batched)"""
    cur = src
    n = 2
    rounds = 0
    while len(cur) > min_len and rounds < max_rounds:
        rounds += 1
        size = max(1, len(cur) // n)
        cands = [cur[:i] + cur[i + size:] for i in range(0, len(cur), size)]
        cands = [c for c in cands if c != cur]
        if not cands: break
        res = still_fails(cands)
        hit = next((c for c, r in zip(cands, res) if r), None)
        if hit is not None:
            cur = hit
            n = max(n - 1, 2)
        else:
            if size == 1: break
            n = min(len(cur), n * 2)
    return cur


# ------------------------------------------------------------------------------------------------ C10

def lex_property_check(src, res):
    """The statement of C10 checked directly on the implementation's result (no model involved)."""
    if res in ('panic', 'hang') or res.startswith('crash') or res.startswith('driver-timeout'):
        return 'tokenizer did not return a value: ' + res
    if res.startswith('err '):
        return None if res.startswith('err Syntax ') else 'tokenizer failed with a non-syntax error: ' + res[:60]
    if not res.startswith('ok'):
        return 'unreadable result ' + res[:60]
    toks = res[3:].split(' ') if len(res) > 3 else []
    if not toks or not toks[-1].startswith('EOT:'):
        return 'token list does not end with the end marker'
    if len(toks) > len(src) + 1:
        return 'more tokens than characters'
    i = 0
    for t in toks[:-1]:
        kind, payload, lexeme, line, _f = t.split(':')
        if kind == 'EOT': return 'end marker in the middle'
        text = dec(lexeme)
        if kind == 'String': text = '"' + text + '"'
        while i < len(src) and src[i] in ' \t\r\n': i += 1
        if src[i:i + len(text)] != text or text == '':
            return 'token %s does not match the source at offset %d' % (t[:40], i)
        want_line = 1 + src[:i].count('\n')
        if int(line) != want_line:
            return 'token at offset %d carries line %s, is written on line %d' % (i, line, want_line)
        i += len(text)
    while i < len(src) and src[i] in ' \t\r\n': i += 1
    if i != len(src):
        return 'characters from offset %d are not accounted for by any token' % i
    return None


def stream_lex(ctx):
    cases = streams.lex_cases(ctx.rng, ctx.tier)
    fname = 't.pakhi'
    mk = lambda s: 'lex %s %s' % (enc(fname), enc(s))
    lines = [mk(s) for s, _ in cases]
    impl, model = oracle_and_model(ctx, lines, 'lex', timeout_ms=3000)
    origins = collections.Counter(o for _, o in cases)
    kinds = collections.Counter()
    distinct = set()
    bad = []
    for (src, origin), li, i_r, m_r in zip(cases, lines, impl, model):
        kinds[i_r.split(' ')[0] if not i_r.startswith('err') else 'err'] += 1
        if len(src) >= 2: distinct.add(src)
        why = lex_property_check(src, i_r)
        if why is None and not vlib.lines_agree(i_r, m_r):
            why = 'implementation and model of the lexical rules disagree'
        if why: bad.append((src, li, i_r, m_r, why))
    ctx.evaluations += len(cases)
    ctx.validated += len(cases)
    ctx.nontrivial += len(distinct)
    ctx.streams.append({'stream': 'lex', 'cases': len(cases), 'origins': dict(origins), 'implementation_result_kinds': dict(kinds),
                        'length_histogram': dict(collections.Counter(min(len(s) // 10 * 10, 60) for s, _ in cases))})
    ctx.samples += [{'stream': 'lex', 'source': s, 'implementation': i_r[:200]} for (s, _), i_r in list(zip(cases, impl))[40:43]]
    if bad:
        bad.sort(key=lambda b: len(b[0]))
        for src, li, i_r, m_r, why in bad[:3]:
            def still(cands):
                ls = [mk(c) for c in cands]
                ii, mm = oracle_and_model(ctx, ls, 'shr', timeout_ms=3000)
                return [(lex_property_check(c, a) is not None) or not vlib.lines_agree(a, b) for c, a, b in zip(cands, ii, mm)]
            small = shrink_text(src, still)
            ii, mm = oracle_and_model(ctx, [mk(small)], 'shr', timeout_ms=3000)
            ctx.failing.append({'stream': 'lex', 'why': lex_property_check(small, ii[0]) or why, 'source': small, 'source_codepoints': [ord(c) for c in small],
                                'case_line': mk(small), 'implementation': ii[0], 'model': mm[0], 'original_source': src, 'others': len(bad)})


# ------------------------------------------------------------------------------------------------ registry

REGISTRY = {
    'C10': {'proofs': 'C10', 'streams': [stream_lex],
            'rule': 'lex stream: corpus of boundary inputs, prefixes of documented programs, exhaustive short strings over a 14-symbol class alphabet, '
                    'random strings over Bangla letters/digits, all ASCII punctuation, quotes, #, backslash, blanks; non-trivial = distinct source of length >= 2',
            'assumptions': ['char::is_numeric is the table dumped from the running toolchain', 'the source is a sequence of Unicode scalar values (Vec<char>)']},
}


def run_property(pid, tier, seed, t0):
    spec = REGISTRY[pid]
    st = vlib.ensure_build()
    ctx = Ctx(pid, tier, seed, st)
    for n in st.notes: log('[build] ' + n)
    if not st.harness_ok or st.model_exe is None:
        p = vlib.write_replay(pid, 'build', {'property': pid, 'problem': 'the check could not be built against the current tree', 'notes': st.notes})
        vlib.write_evidence(pid, tier, seed, 'proof', {'obligations': 1, 'discharged_count': 0, 'checker_cmd': 'make -f Makefile.coq', 'trusted_base': TRUSTED_BASE_COMMON,
                                                      'explanation': 'build failed', 'evaluations': 1, 'distinct_nontrivial': 2}, spec['assumptions'], time.time() - t0, 1)
        print('VIOLATION property=%s replay=%s no-failing-input-found' % (pid, p))
        return 1
    proofs = vlib.check_proofs(st, spec['proofs'], thorough=(tier == 'thorough'))
    for f in proofs['failures']:
        ctx.broken.append(f)
    if st.tables_generated and st.tables_differ_from_reference:
        ctx.notes.append('tables regenerated from the source differ from the committed reference tables; theorems were re-checked against the regenerated ones')
    if st.using_reference_model:
        ctx.notes.append('correspondence and search ran against the model built from the committed reference tables')
    for s in spec['streams']:
        s(ctx)
    # known findings
    known = vlib.load_known_findings(pid)
    new_failing = []
    for f in ctx.failing:
        k = next((k for k in known if props_match(k, f)), None)
        if k: ctx.known_hits.append((k, f))
        else: new_failing.append(f)
    for k in known:
        print('KNOWN-FINDING: property=%s %s' % (pid, k['what']))
    violations = 0
    out_lines = []
    if new_failing:
        for i, f in enumerate(new_failing[:5]):
            f = dict(f); f.update({'property': pid, 'seed': seed, 'tier': tier, 'broken_obligations': ctx.broken})
            p = vlib.write_replay(pid, 'fail_%d' % i, f)
            out_lines.append('VIOLATION property=%s replay=%s' % (pid, p))
        violations = len(new_failing)
    elif ctx.broken:
        p = vlib.write_replay(pid, 'broken', {'property': pid, 'seed': seed, 'tier': tier, 'no_longer_checks': ctx.broken, 'proof_log_tail': proofs['log'][-3000:],
                                               'searched': ctx.streams, 'notes': ctx.notes + st.notes})
        out_lines.append('VIOLATION property=%s replay=%s no-failing-input-found' % (pid, p))
        violations = 1
    coverage = {
        'obligations': max(1, proofs['obligations']), 'discharged': proofs['discharged'],
        'checker_cmd': 'coq_makefile -f _CoqProject -o Makefile.coq && make -f Makefile.coq Properties/%s.vo (in build/coq, Tables.v regenerated from /repo)%s' % (spec['proofs'], ' ; coqchk -o' if tier == 'thorough' else ''),
        'trusted_base': TRUSTED_BASE_COMMON + ['axioms reported by Print Assumptions: ' + (', '.join(proofs['axioms']) if proofs['axioms'] else 'none (closed under the global context)')],
        'theorems': proofs['theorems'],
        'evaluations': ctx.evaluations, 'distinct_nontrivial': ctx.nontrivial, 'rule': spec['rule'],
        'traces_validated_against_impl': ctx.validated,
        'samples': ctx.samples[:8] if ctx.samples else [{'note': 'no correspondence case ran'}],
        'streams': ctx.streams, 'notes': ctx.notes,
        'tables_regenerated_from_source': st.tables_generated, 'tables_equal_reference': not st.tables_differ_from_reference,
        'known_findings_reproduced': len(ctx.known_hits),
    }
    if coverage['discharged'] < 1:
        # the schema's proof-level keys require discharged >= 1; a run in which obligations failed reports the
        # count under another key and falls back to the exploration-style counts
        coverage['discharged_count'] = coverage.pop('discharged')
        coverage['evaluations'] = max(1, coverage['evaluations']); coverage['distinct_nontrivial'] = max(2, coverage['distinct_nontrivial'])
    vlib.write_evidence(pid, tier, seed, 'proof', coverage, spec['assumptions'], time.time() - t0, violations)
    for l in out_lines: print(l)
    log('[%s] %s tier: %d theorems (%d discharged), %d cases, %d failing, %.1fs' % (pid, tier, proofs['obligations'], proofs['discharged'], ctx.evaluations, len(ctx.failing), time.time() - t0))
    return 1 if out_lines else 0


def props_match(known, failing):
    """a known finding names an input class by a regular expression over the failing record's 'class' field"""
    cls = failing.get('class')
    return cls is not None and cls == known.get('class')


def replay(path):
    obj = json.load(open(path, encoding='utf-8'))
    st = vlib.ensure_build()
    line = obj.get('case_line')
    if not line:
        print(json.dumps(obj, ensure_ascii=False, indent=1)[:4000]); return 0
    i = vlib.run_exe(ORACLE, [line], 'rp')
    m = vlib.run_exe(st.model_exe, [line], 'rpm')
    print('implementation:', i[0]); print('model:         ', m[0])
    print('agree' if vlib.lines_agree(i[0], m[0]) else 'DISAGREE')
    return 0 if vlib.lines_agree(i[0], m[0]) else 1
