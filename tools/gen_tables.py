#!/usr/bin/env python3
"""Translator for the table-driven parts of Pakhi (DESIGN.md section 2, tie 1).

Re-reads /repo/src/frontend/lexer.rs, backend/built_ins.rs, backend/interpreter.rs and (for the
numeric-character table) the dump produced by the harness from the running toolchain, and regenerates
coq/Tables.v.  Fails closed (exit 2) when the source no longer has the shape it understands.
The file is only rewritten when its content changes, so make does not rebuild for nothing.
"""
import re, sys, os, json

REPO = os.environ.get('PAKHI_REPO', '/repo')
OUT = sys.argv[1] if len(sys.argv) > 1 else '/verif/coq/Tables.v'
CHARTABLE = sys.argv[2] if len(sys.argv) > 2 else '/verif/build/chartable.txt'

class Shape(Exception):
    pass

def rd(p):
    return open(os.path.join(REPO, p), encoding='utf-8').read()

def coq_text(s):
    return '[' + '; '.join(str(ord(c)) for c in s) + ']%N'

KIND = {'Num': None, 'String': None, 'Identifier': 'TIdent', 'If': 'TIf', 'Else': 'TElse', 'Loop': 'TLoop', 'Var': 'TVar',
        'Function': 'TFunction', 'Plus': 'TPlus', 'Minus': 'TMinus', 'Multiply': 'TMul', 'Division': 'TDiv',
        'Remainder': 'TRem', 'At': 'TAt', 'Semicolon': 'TSemi', 'Map': 'TMap', 'Comment': 'TComment', 'Comma': 'TComma',
        'ParenStart': 'TLParen', 'ParenEnd': 'TRParen', 'CurlyBraceStart': 'TLCurly', 'CurlyBraceEnd': 'TRCurly',
        'SquareBraceStart': 'TLSquare', 'SquareBraceEnd': 'TRSquare', 'Equal': 'TEqual', 'LessThan': 'TLt',
        'GreaterThan': 'TGt', 'EqualEqual': 'TEqEq', 'NotEqual': 'TNotEq', 'LessThanOrEqual': 'TLe',
        'GreaterThanOrEqual': 'TGe', 'And': 'TAnd', 'Or': 'TOr', 'Not': 'TNot', 'Break': 'TBreak', 'Continue': 'TContinue',
        'Return': 'TReturn', 'Print': 'TPrint', 'Import': 'TImport', 'PrintNoEOL': 'TPrintNoEol', 'EOT': 'TEOT',
        'Bool(true)': '(TBool true)', 'Bool(false)': '(TBool false)'}

def kind(k):
    if k not in KIND or KIND[k] is None:
        raise Shape('unknown token kind ' + k)
    return KIND[k]

def gen():
    lexer = rd('src/frontend/lexer.rs')
    # --- token kinds: the enum must be exactly the one the model knows
    m = re.search(r'pub enum TokenKind \{(.*?)\n\}', lexer, re.S)
    if not m: raise Shape('TokenKind enum not found')
    body = re.sub(r'//[^\n]*', '', m.group(1))
    names = [re.sub(r'\(.*\)', '', x.strip()) for x in body.split(',') if x.strip()]
    expected = ['Num', 'String', 'Identifier', 'If', 'Else', 'Loop', 'Var', 'Function', 'Plus', 'Minus', 'Multiply', 'Division',
                'Remainder', 'At', 'Semicolon', 'Map', 'Comment', 'Comma', 'ParenStart', 'ParenEnd', 'CurlyBraceStart',
                'CurlyBraceEnd', 'SquareBraceStart', 'SquareBraceEnd', 'Equal', 'LessThan', 'GreaterThan', 'EqualEqual',
                'NotEqual', 'LessThanOrEqual', 'GreaterThanOrEqual', 'And', 'Or', 'Not', 'Bool', 'Break', 'Continue', 'Return',
                'Print', 'Import', 'PrintNoEOL', 'EOT']
    if names != expected: raise Shape('TokenKind enum changed: %r' % names)

    # --- keyword table
    m = re.search(r'fn keyword\(.*?\{(.*?)\n\}', lexer, re.S)
    if not m: raise Shape('fn keyword not found')
    kws = re.findall(r'keyword_map\.insert\("([^"]*)"\.chars\(\)\.collect\(\), TokenKind::([A-Za-z]+(?:\((?:true|false)\))?)\);', m.group(1))
    if len(kws) != m.group(1).count('keyword_map.insert'): raise Shape('keyword table shape')
    if len(kws) < 1: raise Shape('no keywords')

    # --- consume(): character arms
    m = re.search(r'\nfn consume\(.*?\n    match src\[start\] \{(.*?)\n    \}\n\n    Ok\(\(Some\(token\)', lexer, re.S)
    if not m: raise Shape('fn consume not found')
    arms_src = m.group(1)
    # split on top-level arm heads (8 spaces of indentation)
    heads = list(re.finditer(r"\n        ((?:'(?:\\.|[^'\\])'\s*\|?\s*)+|_) => \{", arms_src))
    arms = []
    for i, h in enumerate(heads):
        end = heads[i + 1].start() if i + 1 < len(heads) else len(arms_src)
        pats = re.findall(r"'((?:\\.|[^'\\]))'", h.group(1))
        arms.append((pats, arms_src[h.end():end]))
    def unesc(c):
        return {'\\n': '\n', '\\r': '\r', '\\t': '\t', '\\\\': '\\', "\\'": "'", '\\"': '"'}.get(c, c)
    single, double, order = [], [], []
    simple_re = re.compile(r"^\s*consumed_char = 1;\s*consumed_line = 0;\s*token = Token \{\s*kind: TokenKind::(\w+),\s*lexeme: src\[start\.\.\(start\+1\)\]\.to_vec\(\),\s*line,\s*src_file_path,\s*\}\s*\},?\s*$", re.S)
    double_re = re.compile(r"^\s*if src\.get\(start\+1\) == Some\(&'(.)'\) \{\s*consumed_char = 2;\s*consumed_line = 0;\s*token = Token \{\s*kind: TokenKind::(\w+),\s*lexeme: src\[start\.\.\(start\+2\)\]\.to_vec\(\),\s*line,\s*src_file_path,\s*\}\s*\} else \{\s*consumed_char = 1;\s*consumed_line = 0;\s*token = Token \{\s*kind: TokenKind::(\w+),\s*lexeme: src\[start\.\.\(start\+1\)\]\.to_vec\(\),\s*line,\s*src_file_path,\s*\}\s*\}\s*\},?\s*$", re.S)
    special = {}
    for pats, body in arms:
        pats = [unesc(p) for p in pats]
        ms, md = simple_re.match(body), double_re.match(body)
        if ms and len(pats) == 1:
            single.append((pats[0], ms.group(1))); order.append(pats[0])
        elif md and len(pats) == 1:
            double.append((pats[0], md.group(1), md.group(2), md.group(3))); order.append(pats[0])
        else:
            special[''.join(pats) if pats else '_'] = body
    # the special arms the model writes out by hand; their presence and head characters are checked
    need = ['-০১২৩৪৫৬৭৮৯', '#', '"', ' \r\t', '\n', '_']
    if sorted(special.keys()) != sorted(need): raise Shape('special arms of consume changed: %r' % sorted(special.keys()))
    if "return Ok((None, consumed_char, consumed_line));" not in special[' \r\t'] or 'consumed_line = 0;' not in special[' \r\t']:
        raise Shape('blank arm')
    if 'consumed_line = 1;' not in special['\n']: raise Shape('newline arm')
    # '-' / digit arm: operand-ending kinds after which '-' is binary
    mo = re.search(r'let after_operand = match prev \{(.*?)=> true,', special['-০১২৩৪৫৬৭৮৯'], re.S)
    if not mo: raise Shape('after_operand not found')
    after_operand = re.findall(r'Some\(TokenKind::(\w+)', mo.group(1))
    if "if src.get(start+1) == Some(&'>')" not in special['-০১২৩৪৫৬৭৮৯']: raise Shape('map operator')

    # --- digit map of the lexer
    m = re.search(r'fn bn_digit_to_en_digit\(digit: char.*?\{(.*?)\n\}', lexer, re.S)
    lex_digits = re.findall(r"'(.)' => return Ok\((\d)\.0\)", m.group(1)) if m else []
    if len(lex_digits) != 10: raise Shape('lexer digit map')

    # --- identifier characters
    m = re.search(r'fn is_valid_identifier_char\(c: char\) -> bool \{\s*if (.*?) \{\s*return true;\s*\}\s*(.*?)\n\}', lexer, re.S)
    if not m: raise Shape('is_valid_identifier_char')
    extra = re.findall(r"c == '(.)'", m.group(1))
    if m.group(2).strip() != '!c.is_ascii_whitespace() && !c.is_ascii_punctuation() && !c.is_ascii_control()':
        raise Shape('identifier char classes')

    # --- built-ins
    bi = rd('src/backend/built_ins.rs')
    m = re.search(r'let function_list = vec!\[(.*?)\];', bi, re.S)
    if not m: raise Shape('function_list')
    builtins = re.findall(r'"([^"]*)"', m.group(1))
    def digit_map(fn, a, b):
        mm = re.search(r'fn %s\(digit: &char\) -> char \{(.*?)\n    \}' % fn, bi, re.S)
        ds = re.findall(r"'(.)' => '(.)'", mm.group(1)) if mm else []
        if len(ds) != 10: raise Shape(fn)
        return ds
    bn_en = digit_map('bn_digit_to_en_digit', 0, 0)
    en_bn = digit_map('en_digit_to_bn_digit', 0, 0)
    m = re.search(r'pub\(crate\) fn _type\(.*?let d = match data \{(.*?)\};', bi, re.S)
    types = re.findall(r'DataType::(\w+)(?:\(_\))? => DataType::String\(String::from\("([^"]*)"\)\)', m.group(1)) if m else []
    if [t for t, _ in types] != ['Num', 'Bool', 'String', 'List', 'NamelessRecord', 'Function', 'Nil']: raise Shape('_type table')
    m = re.search(r'true => return Ok\(DataType::String\("([^"]*)"\.to_string\(\)\)\),\s*false => return Ok\(DataType::String\("([^"]*)"\.to_string\(\)\)\)', bi)
    if not m: raise Shape('file/dir names')
    file_name, dir_name = m.group(1), m.group(2)

    # --- interpreter: digit map for printing, boolean spellings, gc threshold, platform constant
    it = rd('src/backend/interpreter.rs')
    m = re.search(r'fn to_bn_num\(.*?match digit \{(.*?)_ =>', it, re.S)
    pr = re.findall(r"'(.)' => bangla_num_string\.push\('(.)'\)", m.group(1)) if m else []
    if len(pr) != 12: raise Shape('to_bn_num table')
    m = re.search(r'true => "([^"]*)"\.to_string\(\),\s*false => "([^"]*)"\.to_string\(\)', it)
    if not m: raise Shape('to_bn_bool')
    t_true, t_false = m.group(1), m.group(2)
    # which operation each built-in name dispatches to (the arms of call_built_in_function)
    OPS = ['_to_string', '_to_num', '_list_push', '_list_pop', '_list_len', '_read_line', '_error', '_string_split', '_string_join', '_type',
           '_read_file', '_write_file', '_delete_file', '_create_dir', '_read_dir', '_delete_dir', '_file_or_dir']
    mm = re.search(r'match self\.built_in_functions\.get_name\(&func_token\.lexeme\)\.as_str\(\) \{(.*?)\n            built_in_function_name =>', it, re.S)
    if not mm: raise Shape('call_built_in_function dispatch')
    arms = re.findall(r'\n            "([^"]+)" => \{(.*?)(?=\n            "[^"]+" => \{|\Z)', mm.group(1), re.S)
    builtin_ops = []
    for name, body in arms:
        f = re.search(r'BuiltInFunctionList::(_\w+)\(', body)
        if not f or f.group(1) not in OPS: raise Shape('built-in arm ' + name)
        builtin_ops.append((name, OPS.index(f.group(1))))
    if len(builtin_ops) != len(arms) or not arms: raise Shape('built-in arms')
    m = re.search(r'if self\.total_allocated_object_count >= (\d+) \{', it)
    if not m: raise Shape('gc threshold')
    threshold = int(m.group(1))
    m = re.search(r'root_scope\.insert\("([^"]*)"\.to_string\(\), Some\(DataType::String\(os\)\)\)', it)
    if not m: raise Shape('platform constant')
    platform = m.group(1)
    parser = rd('src/frontend/parser.rs')
    m = re.search(r'if var_name  == "([^"]*)"\.to_string\(\)', parser)
    if not m: raise Shape('dirname constant')
    dirname = m.group(1)
    m = re.search(r'fn is_platform_constant.*?var_name == "([^"]*)"', parser, re.S)
    if not m: raise Shape('platform constant in parser')
    platform_parser = m.group(1)
    m = re.search(r'if !module_path\.ends_with\("([^"]*)"\)', parser)
    if not m: raise Shape('module extension')
    ext = m.group(1)

    # --- the precedence ladder of the expression parser: expression -> or -> and -> ... -> unary -> call, each binary level a
    # left-folding loop `let mut expr = self.NEXT()?; while <kinds> { .. let right = self.NEXT()?; .. }`
    m = re.search(r'fn expression\(&mut self\) -> Result<Expr, PakhiErr> \{\s*self\.(\w+)\(\)\s*\}', parser)
    if not m: raise Shape('fn expression')
    level, ladder = m.group(1), []
    for _ in range(12):
        if level == 'unary': break
        mm = re.search(r'fn %s\(&mut self\) -> Result<Expr, PakhiErr> \{\s*let mut expr = self\.(\w+)\(\)\?;\s*while (.*?)\{(.*?)\n        \}\s*return Ok\(expr\);\s*\}' % level, parser, re.S)
        if not mm: raise Shape('ladder level ' + level)
        nxt, cond, body = mm.group(1), mm.group(2), mm.group(3)
        kinds = re.findall(r'self\.tok\(self\.current\)\.kind == TokenKind::\s*(\w+)', cond)
        if not kinds or re.sub(r'self\.tok\(self\.current\)\.kind == TokenKind::\s*\w+|\|\||\s', '', cond) != '': raise Shape('ladder condition of ' + level)
        rights = re.findall(r'let right = self\.(\w+)\(\)\?;', body)
        if rights != [nxt] or 'self.current += 1;' not in body: raise Shape('ladder loop of ' + level)
        if 'left: Box::new(expr)' not in body or 'right: Box::new(right)' not in body: raise Shape('ladder fold of ' + level)
        ladder.append(kinds); level = nxt
    else:
        raise Shape('ladder does not reach unary')
    mm = re.search(r'fn unary\(&mut self\) -> Result<Expr, PakhiErr> \{\s*if (.*?)\{(.*?)return self\.(\w+)\(\);\s*\}', parser, re.S)
    if not mm: raise Shape('fn unary')
    unary_kinds = re.findall(r'self\.tok\(self\.current\)\.kind == TokenKind::\s*(\w+)', mm.group(1))
    if not unary_kinds or 'let right = self.unary()?;' not in mm.group(2) or mm.group(3) != 'call': raise Shape('unary level')

    # --- the literals the three renderers write around container elements
    def renderer_literals(fn):
        mm = re.search(r'\n    fn %s\(.*?\n    \}\n' % fn, it, re.S)
        if not mm: raise Shape('renderer ' + fn)
        out = []
        for call, arg in re.findall(r'self\.io\.(print|println)\(\s*(&\*format!\("(?:[^"\\]|\\.)*", k\)|"(?:[^"\\]|\\.)*")\s*\)', mm.group(0)):
            if arg.startswith('&*format!'):
                f = re.match(r'&\*format!\("((?:[^"\\]|\\.)*)", k\)', arg).group(1).replace('\\"', '"')
                if f.count('{}') != 1: raise Shape('record key format in ' + fn)
                out.append((call, 'key', f.split('{}')[0], f.split('{}')[1]))
            else:
                out.append((call, 'lit', arg[1:-1].replace('\\"', '"'), ''))
        return out
    lits = {fn: renderer_literals(fn) for fn in ('interpret_print_no_eol', 'print_datatype', 'interpret_print_stmt')}
    shape = [(k, a, b) for _, k, a, b in lits['print_datatype']]
    if [k for k, _, _ in shape] != ['lit', 'lit', 'lit', 'lit', 'key', 'lit', 'lit']: raise Shape('print_datatype literal sequence')
    for fn in lits:
        if [(k, a, b) for _, k, a, b in lits[fn]] != shape: raise Shape('renderers disagree on their literals: ' + fn)
    if [c for c, _, _, _ in lits['print_datatype']] != ['print'] * 7 or [c for c, _, _, _ in lits['interpret_print_no_eol']] != ['print'] * 7:
        raise Shape('print_datatype / print_no_eol must not end lines')
    if [c for c, _, _, _ in lits['interpret_print_stmt']] != ['print', 'print', 'println', 'print', 'print', 'print', 'println']:
        raise Shape('print statement: exactly the closing bracket / brace ends the line')
    fmt = {'fmt_list_open': shape[0][1], 'fmt_list_sep': shape[1][1], 'fmt_list_close': shape[2][1], 'fmt_rec_open': shape[3][1],
           'fmt_key_prefix': shape[4][1], 'fmt_key_suffix': shape[4][2], 'fmt_entry_end': shape[5][1], 'fmt_rec_close': shape[6][1]}

    # --- numeric characters of the running toolchain (dumped by the harness)
    ranges = []
    if os.path.exists(CHARTABLE):
        for l in open(CHARTABLE):
            l = l.split()
            if len(l) == 3 and l[0] == 'numeric': ranges.append((int(l[1]), int(l[2])))
    if not ranges: raise Shape('no numeric character table at ' + CHARTABLE)

    o = []
    o.append('(** GENERATED by tools/gen_tables.py from /repo/src on every run -- do not edit. *)')
    o.append('From Pakhi Require Import Base Float64 Syntax.')
    o.append('Local Open Scope N_scope.')
    o.append('Definition keywords : list (text * tkind) :=\n  [' + ';\n   '.join('(%s, %s)' % (coq_text(k), kind(v)) for k, v in kws) + '].')
    o.append('Definition single_ops : list (N * tkind) :=\n  [' + '; '.join('(%d, %s)' % (ord(c), kind(k)) for c, k in single) + '].')
    o.append('Definition double_ops : list (N * (N * tkind * tkind)) :=\n  [' + '; '.join('(%d, (%d, %s, %s))' % (ord(c), ord(d), kind(k2), kind(k1)) for c, d, k2, k1 in double) + '].')
    o.append('Definition minus_binary_after : list N :=\n  [' + '; '.join({'Num': '0', 'String': '1', 'Bool': '34'}.get(k) or 'tk_tag ' + kind(k) for k in after_operand) + '].')
    o.append('Definition lexer_digits : list (N * Z) :=\n  [' + '; '.join('(%d, %s%%Z)' % (ord(c), d) for c, d in lex_digits) + '].')
    o.append('Definition ident_extra_chars : list N := [' + '; '.join(str(ord(c)) for c in extra) + '].')
    o.append('Definition numeric_ranges : list (N * N) :=\n  [' + '; '.join('(%d, %d)' % r for r in ranges) + '].')
    o.append('Definition builtin_names : list text :=\n  [' + ';\n   '.join(coq_text(b) for b in builtins) + '].')
    o.append('Definition builtin_ops : list (text * nat) :=\n  [' + ';\n   '.join('(%s, %d%%nat)' % (coq_text(n), k) for n, k in builtin_ops) + '].')
    o.append('Definition builtins_bn_to_en : list (N * N) := [' + '; '.join('(%d, %d)' % (ord(a), ord(b)) for a, b in bn_en) + '].')
    o.append('Definition builtins_en_to_bn : list (N * N) := [' + '; '.join('(%d, %d)' % (ord(a), ord(b)) for a, b in en_bn) + '].')
    o.append('Definition print_char_map : list (N * N) := [' + '; '.join('(%d, %d)' % (ord(a), ord(b)) for a, b in pr) + '].')
    o.append('Definition type_names : list text :=\n  [' + ';\n   '.join(coq_text(n) for _, n in types) + '].')
    o.append('Definition text_true : text := %s.\nDefinition text_false : text := %s.' % (coq_text(t_true), coq_text(t_false)))
    o.append('Definition text_file : text := %s.\nDefinition text_dir : text := %s.' % (coq_text(file_name), coq_text(dir_name)))
    o.append('Definition gc_threshold : nat := %d.' % threshold)
    o.append('Definition platform_const : text := %s.' % coq_text(platform))
    o.append('Definition platform_const_parser : text := %s.' % coq_text(platform_parser))
    o.append('Definition dirname_const : text := %s.' % coq_text(dirname))
    o.append('Definition module_ext : text := %s.' % coq_text(ext))
    o.append('Definition ladder : list (list tkind) :=\n  [' + '; '.join('[' + '; '.join(kind(k) for k in lv) + ']' for lv in ladder) + '].')
    for name in ('fmt_list_open', 'fmt_list_sep', 'fmt_list_close', 'fmt_rec_open', 'fmt_key_prefix', 'fmt_key_suffix', 'fmt_entry_end', 'fmt_rec_close'):
        o.append('Definition %s : text := %s.' % (name, coq_text(fmt[name])))
    o.append('Definition unary_kinds : list tkind := [' + '; '.join(kind(k) for k in unary_kinds) + '].')
    return '\n'.join(o) + '\n'

def main():
    try:
        txt = gen()
    except Shape as e:
        print('gen_tables: SHAPE ' + str(e))
        sys.exit(2)
    old = open(OUT, encoding='utf-8').read() if os.path.exists(OUT) else None
    if old != txt:
        open(OUT, 'w', encoding='utf-8').write(txt)
        print('gen_tables: wrote', OUT)
    else:
        print('gen_tables: unchanged')

if __name__ == '__main__':
    main()
