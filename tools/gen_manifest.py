#!/usr/bin/env python3
"""writes /verif/MANIFEST.json from the table below; a property is listed as a check only when its
Properties/Cxx.v exists, otherwise under not_applicable with the reason given here"""
import json, os

LEVELS = {
 'C01': ('Theorems on the Gallina model of the parser and evaluator ({thms}); the model is tied to parser.rs/interpreter.rs by the expr stream (operator trees with minimal/redundant parentheses, all value types) and the implementation-only metamorphic check that redundant parentheses never change the result.',
         'Trusted: Coq kernel; hand transcription of the precedence ladder and of interpret_*_expr (tied by differential runs only); SpecFloat as the meaning of f64 arithmetic (tied to the hardware by the f64 stream).',
         'Coq proof + differential correspondence + metamorphic parentheses check'),
}

DEFAULT_NOTE = 'Trusted: Coq kernel; the hand-written Gallina transcription of the Rust functions involved (tied to the code by the correspondence streams only: a discrepancy the generators never hit is not detected); tools/gen_tables.py; extraction (ExtrOcamlBasic); Rust std as modelled. Print Assumptions: closed under the global context unless the evidence lists axioms.'

TEXT = {
 'C01': "theorems about the model's expression parser/evaluator: the parser inverts rendering for EVERY expression tree (C01_every_tree_reads_back: insert exactly the parentheses the precedence ladder requires, render, parse -- the tree comes back up to Group nodes and line/file metadata; all node kinds, any depth, left-nested chains for equal levels; induction over trees against the fuelled recursive-descent parser, with fuel monotonicity of its eight mutually recursive functions); grouping is transparent; the precedence ladder table; what each operator denotes for every pair of operand values (binary64 via SpecFloat, fmod, concatenation, the equality table, type errors); the precedence ladder and the unary level of the model are proved equal to the ones regenerated from parser.rs on every run (C01_ladder_of_the_source_is_the_ladder_of_the_model)",
 'C02': 'theorems about the flat statement machine: block skipping lands after the matching close; a whole chain of any length (C02_chain_selects_first_true, C02_all_false_reaches_else, C02_all_false_without_else_continues_after_chain): conditions are evaluated in order, each from the state its predecessor left, the first true one selects exactly its block, all false reaches the else block or continues after the chain; an executed branch skips the rest of the chain; stateless chain (the machine state has no if-flag component), so any context and any history',
 'C03': 'theorems about loop bookkeeping of the model: recorded loop end; break/continue act on the innermost loop; and the frame invariant -- inside every function body AND at top level (C03_frame_invariant_at_every_top_level_boundary: at every statement boundary of every run of every accepted program, under any collection schedule): the innermost loop records exactly the scope height at its entry and the closing continue of its own block, the position is inside it, loops are properly nested, so break/continue cut the scope stack exactly to that height and land on the recorded positions',
 'C04': 'theorems about the scope stack of the model: lookup after declare, shadowing, innermost assignment, frame of other names and scopes, undeclared is an error, nil initialisation; a block opens a fresh scope and its end discards it; every loop iteration starts with a fresh scope (C04_each_iteration_starts_with_a_fresh_scope: a continue, closing or mid-body, cuts the scope stack to the depth recorded at loop entry and the body\'s brace pushes an empty scope)',
 'C05': 'theorems about call frames of the model: positional binding (missing nil, surplus unevaluated); for every expression, with calls nested to any depth, on every well-formed machine over parser-producible code: the caller\'s position, scope height, loop stack, loop base and return stack are exactly restored; the frame invariant holds at every statement of a body; the value of a call is the operand of the executed return, evaluated in the callee, whatever nest of blocks, loops and branches the return sat in (C05_call_value_is_the_executed_return_operand), nil for a bare return',
 'C06': 'theorems about the arenas of the model: after x[i1]..[in] = v, ANY index path from ANY root that leads to the written container and then takes the written index reads v (the same path, or one through any alias: an alias is the same address), and any path that does not read the written cell reads what it read before -- all heaps (cyclic and shared included), all depths (C06_write_then_read_any_path; paths THROUGH the written cell are excepted and C06_path_through_the_written_cell shows the exception is necessary); the assignment statement as a whole and the index expression as the same walk; every other cell of every container unchanged; fresh address for concatenation results; push through any alias',
 'C07': 'theorems: for every program the front end accepts, every fuel and world, ANY two collection schedules (none, the native allocation-counter trigger, a collection at every boundary, any pattern) give the same output, final world and result (C07_any_collection_schedule_is_invisible: lock-step simulation of the two runs through a partial bijection of container addresses, through every expression form, built-in, statement and call depth; a collection on either side keeps the machines related); and for every heap and scope stack (any sharing, cycles, list<->record nesting): the mark phase marks exactly the reachable containers; a collection is total, keeps every reachable container unchanged, preserves reachability and well-formedness, and leaves no reachable slot on a free list, so the allocator never hands out live storage. Native stack exhaustion (OutOfFuel in the model) on either run is excluded from the schedule theorem',
 'C08': 'theorems: one collection empties every unreachable container (unreachable cycles included) and lists it exactly once on the free list; the allocator takes from the free list whenever it is non-empty and grows the arena by one slot otherwise; every allocation advances the counter; the native trigger fires exactly at the threshold read from the source; and for whole runs (C08_heap_bounded_at_every_boundary): allocation accounting through every statement and call (free lists only shrink, an arena grows only once its free list is empty, every slot is paid for by the counter), after a collection the occupied slots are at most the reachable containers, hence at every statement boundary of every accepted program both arenas are at most R + threshold + A long, where R bounds the containers reachable at boundaries and A the allocation of one top-level statement -- independent of the number of statements or loop iterations executed',
 'C09': 'theorems about the number model: digit tables are the intended bijections (regenerated from the source), printed text has the shape -?D+(.D+)? for finite values, infinities and NaN are unprintable',
 'C10': 'theorems, for every source and file name: tokenize never panics, never exhausts its computed fuel (termination), fails only with a syntax error located in that file, allocates at most length+1 tokens; spans and line numbers account for every non-blank character',
 'C11': 'theorems about the lexer model: blanks between tokens produce no token and only newlines move line numbers; comments are single tokens the parser drops; and about the machine (C11_only_reported_positions_move): two statement vectors that differ only in line/file metadata run alike -- same output, world and result, errors of the same kind at the mapped position -- for every program, fuel, world and schedule',
 'C12': 'theorems about the parser model: no panic for any token list, file map and fuel; every successful sub-parse consumes at least one token (no zero-progress loop); the produced statement vector is well formed; every expression tree the grammar can express is accepted and parsed to that very tree (C12_every_expression_form_is_accepted); every vector of the documented statement forms over such trees is accepted and parsed to itself (C12_documented_programs_are_accepted; import statements excepted: their reading depends on the file system)',
 'C13': 'theorems about the machine model: whatever the front end accepts runs without a panic for every fuel, collection schedule and world (machine invariant + frame invariant, induction over all steps); every error value carries the output written so far; the listed faults are errors located at the current statement; _এরর(m) reports exactly m; the error kind/line per fault position and the exit status are covered by the faults and cli streams',
 'C14': 'theorems about the renaming of imported tokens (exactly identifiers that are not built-ins are prefixed, injectively, so prefixed and unprefixed names never collide) and about behaviour (C14_qualified_module_code_behaves_like_the_original): a statement vector whose names are qualified by any alias, with any line/file metadata, runs exactly like the original -- same output, world and result, errors of the same kind at the mapped position -- for every program, fuel, world and pair of collection schedules (generalised simulation: injective renaming that fixes built-in names)',
 'C15': 'theorems about the loader model: an import of a file on the current import chain is rejected with the cyclic-dependency error before its tokens are read',
 'C16': 'theorems: each list built-in of the model computes the corresponding sequence operation on exactly the addressed list and leaves every other list unchanged; invalid positions are errors that leave the heap unchanged; and for ANY history of the five operations through any alias (C16_any_history) the slot holds the fold of the abstract sequence operations over the initial sequence, every other container, the output and the variables untouched, and the length query answers the current length',
 'C17': 'theorems: join sep (split s sep) = s for every string and non-empty separator; split by the empty string yields the characters; the seven type names are pairwise distinct',
 'C18': 'theorems about the renderer of the model: output only grows; scalar, list and record renderings; nil and functions unprintable; a failing print writes nothing; and no statement but a print statement writes (C18_only_print_statements_write: an expression that calls no user function -- built-ins included -- and every non-print statement whose expressions call none leave the output exactly as it was); the brackets, separators and key decoration the model writes are proved equal to the literals regenerated from the three renderers of interpreter.rs on every run',
 'C19': 'theorems: C19_fragments_compose_from_the_start -- observe a run of P1;P2 (any fuel, any schedule) at the first statement of P2; if that position is outside every block and loop and the global scope binds none of the names P2 mentions, then running on and running P2 alone from the initial state end alike under any schedules: output of P2 alone after what had been written, same world, errors of the same kind at the shifted position (top-level frame invariant: the control stacks are neutral there and the free lists duplicate free, whatever conditionals, returns, breaks, loops and collections came before; generalised simulation from that state); plus step laws for each kind of residue',
 'C20': 'theorems about the file-map model of the file built-ins: write then read returns the text, delete then read is an error, created directories are directories',
}

def main():
    checks = []
    na = []
    for i in range(1, 21):
        pid = 'C%02d' % i
        if os.path.exists('/verif/coq/Properties/%s.v' % pid):
            checks.append({
                'property_id': pid,
                'quick_cmd': './check %s --tier quick' % pid,
                'thorough_cmd': './check %s --tier thorough' % pid,
                'evidence_file': '/verif/evidence/%s.json' % pid,
                'replay_cmd_template': './check --replay {path}',
                'engine': 'coq-model',
                'level_claimed': {'category': 'proof',
                                  'text': 'Machine-checked ' + TEXT[pid] + '. The model is tied to /repo on every run by the table translator (tables regenerated from the source and the theorems re-checked against them) and by the differential correspondence streams of this property (implementation vs. extracted model), which are also the failing-input search. What is proved and what is only tested is listed per property in DESIGN.md, Amendments A.3 and B.',
                                  'design_ref': 'DESIGN.md section 7, Amendment A.3 and Amendment B, ' + pid},
                'level_note': DEFAULT_NOTE,
                'technique': 'Coq proof on a Gallina model + translator-regenerated tables + differential correspondence (extracted model vs. implementation)',
            })
        else:
            na.append({'property_id': pid, 'reason': 'check under construction in this round: the correspondence stream exists (./check %s), the Coq theorems are not written yet' % pid})
    m = {
        'version': 1,
        'setup_cmd': 'make -C /verif setup',
        'hooks': {'guard': 'pakhi_verif',
                  'enable': 'RUSTFLAGS="--cfg pakhi_verif" cargo build (the harness crate /verif/harness depends on /repo by path; every check rebuilds it against the current working tree)',
                  'baseline_off_cmd': 'cd /repo && cargo test --workspace --no-fail-fast --offline',
                  'source_commits': ['d04cbf7'], 'add_only': True},
        'engines': [
            {'name': 'coq-model', 'path': '/verif/coq', 'serves_properties': [c['property_id'] for c in checks],
             'kind_free_text': 'Gallina model of the Pakhi pipeline (lexer, parser with module splicing, flat statement machine, built-ins, mark-sweep collector) and theorems about it (Coq 8.16.1); generated tables regenerated from /repo by tools/gen_tables.py on every run'},
            {'name': 'correspondence', 'path': '/verif/check', 'serves_properties': [c['property_id'] for c in checks],
             'kind_free_text': 'extracted OCaml model vs. Rust oracle (harness crate, hooks on) on generated cases; metamorphic relations on the implementation alone'}],
        'checks': checks,
        'not_applicable': na,
        'notes': 'See DESIGN.md. Known findings are listed in known_findings.json.',
    }
    json.dump(m, open('/verif/MANIFEST.json', 'w'), ensure_ascii=False, indent=1)
    print('manifest:', len(checks), 'checks,', len(na), 'not yet')

main()
