#!/usr/bin/env python3
"""Bookkeeping for the seeded defects under /verif/seeded.
   seeded.py import <src-dir> <name>     copy a validated mutant (patch.diff, demo, meta.json) into /verif/seeded/<name>
   seeded.py run [name...]               apply each patch to /repo, run the check of its property (quick tier), undo, record
The patches are never committed to /repo."""
import os, sys, json, subprocess, shutil, time

SEEDED = '/verif/seeded'

def sh(cmd, cwd=None, timeout=3600):
    p = subprocess.run(cmd, shell=True, cwd=cwd, capture_output=True, text=True, timeout=timeout)
    return p.returncode, p.stdout, p.stderr

def do_import(src, name, validation=None):
    dst = os.path.join(SEEDED, name)
    if os.path.exists(dst): shutil.rmtree(dst)
    shutil.copytree(src, dst, ignore=shutil.ignore_patterns('target', '*.o'))
    mp = os.path.join(dst, 'meta.json')
    meta = json.load(open(mp, encoding='utf-8')) if os.path.exists(mp) else {}
    if validation: meta['validated_by_us'] = validation
    json.dump(meta, open(mp, 'w', encoding='utf-8'), ensure_ascii=False, indent=1)

def do_run(names):
    res_path = os.path.join(SEEDED, 'RESULTS.json')
    results = json.load(open(res_path)) if os.path.exists(res_path) else {}
    for name in names:
        d = os.path.join(SEEDED, name)
        meta = json.load(open(os.path.join(d, 'meta.json'), encoding='utf-8'))
        prop = meta.get('property') or name.split('-')[0]
        props = [prop] + meta.get('also_check', [])
        sh('git checkout -q -- .', cwd='/repo')
        rc, out, err = sh('git apply %s/patch.diff' % d, cwd='/repo')
        if rc != 0:
            results[name] = {'applies': False}; print(name, 'DOES NOT APPLY'); continue
        entry = {'applies': True, 'checks': {}}
        try:
            for p in props:
                t0 = time.time()
                rc, out, err = sh('./check %s --tier quick' % p, cwd='/verif', timeout=3000)
                viol = [l for l in out.split('\n') if l.startswith('VIOLATION')]
                entry['checks'][p] = {'exit': rc, 'violations': len(viol), 'with_failing_input': len([v for v in viol if 'no-failing-input-found' not in v]),
                                      'no_failing_input_found': len([v for v in viol if 'no-failing-input-found' in v]), 'wall_s': round(time.time() - t0, 1)}
                # keep one replay as illustration
                if viol:
                    rp = viol[0].split('replay=')[1].split(' ')[0]
                    try:
                        r = json.load(open(rp, encoding='utf-8'))
                        entry['checks'][p]['replay_why'] = r.get('why') or str(r.get('no_longer_checks'))[:300]
                        entry['checks'][p]['replay_source'] = (r.get('source') or '')[:400]
                    except Exception as ex:
                        pass
        finally:
            sh('git checkout -q -- .', cwd='/repo')
        entry['caught'] = any(c['exit'] == 1 and c['violations'] > 0 for c in entry['checks'].values())
        results[name] = entry
        print(name, 'CAUGHT' if entry['caught'] else 'MISSED', {p: (c['exit'], c['with_failing_input'], c['no_failing_input_found']) for p, c in entry['checks'].items()}, flush=True)
        json.dump(results, open(res_path, 'w'), ensure_ascii=False, indent=1)

if __name__ == '__main__':
    if sys.argv[1] == 'import':
        do_import(sys.argv[2], sys.argv[3], sys.argv[4] if len(sys.argv) > 4 else None)
    elif sys.argv[1] == 'run':
        names = sys.argv[2:] or sorted(n for n in os.listdir(SEEDED) if os.path.isdir(os.path.join(SEEDED, n)))
        do_run(names)
