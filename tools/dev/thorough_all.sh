#!/bin/bash
cd /verif
for p in C02 C03 C05 C06 C07 C08 C09 C10 C11 C12 C13 C14 C15 C17 C18 C19 C20 C01 C04 C16; do
  s=$(date +%s); out=$(./check $p --tier thorough 2>&1); rc=$?; e=$(date +%s)
  echo "$p rc=$rc $((e-s))s viol=$(echo "$out" | grep -c '^VIOLATION') $(echo "$out" | grep "tier:" | tail -1)"
  if [ $rc -ne 0 ]; then mkdir -p /verif/build/alarms/thorough; cp -r build/replays/$p /verif/build/alarms/thorough/; fi
done
