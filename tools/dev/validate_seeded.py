#!/usr/bin/env python3
"""validate the round-8 seeded changes of one property in its scratch worktree: patch applies, crate builds, test suite
passes with the change, demo differs with the change and matches expected.txt without it"""
import os, sys, json, subprocess, shutil
P = sys.argv[1]
W = '/tmp/mut5/' + P
ENV = dict(os.environ, CARGO_NET_OFFLINE='true')

def sh(cmd, cwd=W, timeout=1800):
    p = subprocess.run(cmd, shell=True, cwd=cwd, capture_output=True, text=True, timeout=timeout, env=ENV)
    return p.returncode, p.stdout, p.stderr

def demo(d, meta):
    if meta.get('demo_kind') == 'rust_test':
        shutil.copy(os.path.join(d, 'demo_test.rs'), os.path.join(W, 'tests', 'zz_demo_test.rs'))
        rc, out, err = sh('cargo test --offline --test zz_demo_test 2>&1 | tail -5')
        os.remove(os.path.join(W, 'tests', 'zz_demo_test.rs'))
        return ('test', 'ok' if 'test result: ok' in out else 'FAILED', out[-300:])
    try:
        p = subprocess.run(['bash', '-c', 'ulimit -v 4000000; exec ../../target/debug/pakhi demo.pakhi'], cwd=d, capture_output=True, text=True, timeout=60, errors='replace')
        return ('run', p.returncode, p.stdout)
    except subprocess.TimeoutExpired:
        return ('run', 'timeout', '')

res = {}
for X in ('a', 'b'):
    d = os.path.join(W, 'out', X)
    r = {}
    if not os.path.exists(os.path.join(d, 'patch.diff')):
        res[X] = {'missing': True}; continue
    meta = json.load(open(os.path.join(d, 'meta.json'), encoding='utf-8'))
    sh('git checkout -q -- .')
    rc, out, err = sh('git apply --check out/%s/patch.diff' % X)
    r['applies'] = (rc == 0)
    if rc != 0:
        res[X] = r; continue
    expected = open(os.path.join(d, 'expected.txt'), encoding='utf-8', errors='replace').read() if os.path.exists(os.path.join(d, 'expected.txt')) else None
    # clean
    rc, out, err = sh('cargo build --offline 2>&1 | tail -3')
    r['clean'] = demo(d, meta)
    # mutated
    sh('git apply out/%s/patch.diff' % X)
    rc, out, err = sh('cargo build --offline 2>&1 | tail -3')
    r['build_rc'] = rc
    rc, out, err = sh('cargo test --offline 2>&1 | grep -E "^test result|FAILED|failed" | head -20')
    r['tests'] = 'FAILED' not in out and 'failed;' not in out.replace(' 0 failed;', '')
    r['tests_out'] = out[-400:] if not r['tests'] else ''
    r['mut'] = demo(d, meta)
    sh('git checkout -q -- .')
    if meta.get('demo_kind') == 'rust_test':
        r['ok'] = r['clean'][1] == 'ok' and r['mut'][1] != 'ok' and r['tests']
    else:
        r['clean_matches_expected'] = (expected is not None and r['clean'][2] == expected)
        r['differs'] = (r['clean'][1:] != r['mut'][1:])
        r['ok'] = bool(r['clean_matches_expected'] and r['differs'] and r['tests'])
    res[X] = r
sh('cargo build --offline 2>&1 | tail -1')
OUT = os.environ.get('MUTV', '/tmp/mut8v'); os.makedirs(OUT, exist_ok=True)
json.dump(res, open(OUT + '/%s.json' % P, 'w'), ensure_ascii=False, indent=1)
print(P, {X: (r.get('ok'), r.get('applies'), r.get('tests'), r.get('clean_matches_expected'), r.get('differs')) for X, r in res.items()})
