#!/bin/bash
cd /verif
for p in "$@"; do
  s=$(date +%s); out=$(./check $p 2>&1); rc=$?; e=$(date +%s)
  echo "$p rc=$rc $((e-s))s viol=$(echo "$out" | grep -c '^VIOLATION') $(echo "$out" | grep "tier:" | tail -1)"
  echo "$out" | grep "^VIOLATION" | head -3
done
