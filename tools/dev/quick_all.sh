#!/bin/bash
cd /verif
for p in C01 C02 C03 C04 C05 C06 C07 C08 C09 C10 C11 C12 C13 C14 C15 C16 C17 C18 C19 C20; do
  s=$(date +%s); out=$(./check $p 2>&1); rc=$?; e=$(date +%s)
  echo "$p rc=$rc $((e-s))s viol=$(echo "$out" | grep -c '^VIOLATION') $(echo "$out" | grep "tier:" | tail -1)"
  echo "$out" | grep "^VIOLATION\|KNOWN" | head -3
done
