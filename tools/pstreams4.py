"""Fourth batch of generators: function values and name resolution, order of evaluation seen through side effects,
values of expression statements, identity of nested containers, state kept between statements (last printed number,
last split, last resolved function), re-imports, characters that are invisible, text that only files can contain."""
from genprog import bn
from pstreams3 import prog, ind, counted_loop

T, F = 'সত্য', 'মিথ্যা'


# ---------------------------------------------------------------- functions as values; which function a name denotes
def higher_order_programs(rng, n):
    cases = []
    base = ['ফাং দ্বিগুণ(ক) {', '    ফেরত ক * ২;', '} ফেরত;', 'ফাং তিনগুণ(ক) {', '    ফেরত ক * ৩;', '} ফেরত;', 'ফাং বর্গ(ক) {', '    ফেরত ক * ক;', '} ফেরত;',
            'ফাং প্রয়োগ(ফ, ক) {', '    ফেরত ফ(ক);', '} ফেরত;', 'ফাং দুবার(ফ, ক) {', '    ফেরত ফ(ফ(ক));', '} ফেরত;',
            # a parameter spelled like an outer function
            'ফাং চালাও(দ্বিগুণ, ক) {', '    ফেরত দ্বিগুণ(ক) + ১;', '} ফেরত;',
            # a local function spelled like an outer one, and one that returns from inside a nest
            'ফাং মান() {', '    ফেরত "বাইরের";', '} ফেরত;',
            'ফাং কাজ(ন) {', '    ফাং মান() {', '        ফেরত "ভিতরের";', '    } ফেরত;', '    যদি ন > ০ {', '        লুপ {', '            ফেরত মান();', '        } আবার;', '    }', '    ফেরত মান() + "!";', '} ফেরত;',
            'ফাং বাছাই(ন) {', '    যদি ন == ১ {', '        ফেরত দ্বিগুণ;', '    } অথবা যদি ন == ২ {', '        ফেরত তিনগুণ;', '    }', '    ফেরত বর্গ;', '} ফেরত;']
    stmts = ['দেখাও প্রয়োগ(দ্বিগুণ, ৫);', 'দেখাও প্রয়োগ(তিনগুণ, ৫);', 'দেখাও প্রয়োগ(বর্গ, ৫);', 'দেখাও প্রয়োগ(দ্বিগুণ, ৫) + প্রয়োগ(বর্গ, ৫) * ২;', 'দেখাও দুবার(তিনগুণ, ২);', 'দেখাও দুবার(বর্গ, ৩);',
             'দেখাও চালাও(তিনগুণ, ৫);', 'দেখাও দ্বিগুণ(৫);', 'দেখাও চালাও(বর্গ, ৪);', 'দেখাও মান();', 'দেখাও কাজ(১);', 'দেখাও কাজ(০);', 'দেখাও মান();',
             'নাম চ = বাছাই(১);\nদেখাও চ(৭);', 'নাম চ = বাছাই(২);\nদেখাও চ(৭);', 'নাম চ = বাছাই(৩);\nদেখাও চ(৭);', 'নাম ছ = দ্বিগুণ;\nদেখাও ছ(৪);\nছ = বর্গ;\nদেখাও ছ(৪);',
             'দেখাও প্রয়োগ(বাছাই(২), ১০);', 'দেখাও _টাইপ(বাছাই(১));', 'দেখাও বাছাই(১) == দ্বিগুণ;', 'দেখাও বাছাই(১) == বাছাই(২);',
             '{\n    ফাং দ্বিগুণ(ক) {\n        ফেরত ক + ১০০;\n    } ফেরত;\n    দেখাও দ্বিগুণ(১);\n    দেখাও প্রয়োগ(দ্বিগুণ, ১);\n}\nদেখাও দ্বিগুণ(১);',
             'যদি সত্য {\n    ফাং ক্ষণিক(ক) {\n        ফেরত ক - ১;\n    } ফেরত;\n    দেখাও ক্ষণিক(৫);\n}\nদেখাও "ব্লকের পরে";\nদেখাও ক্ষণিক(৫);',
             'নাম ই = ০;\nলুপ {\n    ই = ই + ১;\n    যদি ই > ৩ {\n        থামাও;\n    }\n    ফাং ধাপ(ক) {\n        ফেরত ক + ই;\n    } ফেরত;\n    যদি ই == ২ {\n        আবার;\n    }\n    দেখাও ধাপ(১০);\n} আবার;\nদেখাও ধাপ(১);']
    for _ in range(n):
        body = []
        for _ in range(rng.randint(3, 8)): body += rng.choice(stmts).split('\n')
        cases.append({'src': prog(base + body + ['দেখাও "শেষ";']), 'kind': 'higher-order'})
    return cases


def self_tail_call_programs(rng, n):
    cases = []
    for _ in range(n):
        step = rng.randint(1, 3)
        lines = ['ফাং গণনা(ন, ধাপ, বার্তা) {', '    যদি _টাইপ(ধাপ) == _টাইপ(শূ) {', '        ধাপ = ১;', '    }', '    যদি _টাইপ(বার্তা) != _টাইপ(শূ) {', '        দেখাও বার্তা;', '    }', '    _দেখাও ন;', '    _দেখাও " ";',
                 '    যদি ন <= ০ {', '        ফেরত "শেষ";', '    }', '    ফেরত গণনা(%s);' % rng.choice(['ন - ধাপ', 'ন - ধাপ, ধাপ', 'ন - ১', 'ন - ধাপ, ধাপ, বার্তা']), '} ফেরত;', 'নাম শূ;',
                 'দেখাও গণনা(%s, %s, "প্রথম");' % (bn(rng.randint(3, 9)), bn(step)), 'দেখাও গণনা(%s);' % bn(rng.randint(2, 5)),
                 'ফাং যোগ(তা, ই, জমা) {', '    যদি ই >= _লিস্ট-লেন(তা) {', '        ফেরত জমা;', '    }', '    যদি _টাইপ(জমা) == _টাইপ(শূ) {', '        জমা = ১০০;', '    }', '    ফেরত যোগ(%s);' % rng.choice(['তা, ই + ১, জমা + তা[ই]', 'তা, ই + ১']), '} ফেরত;',
                 'দেখাও যোগ([১, ২, ৩], ০, ০);', 'দেখাও যোগ([১, ২, ৩], ১);']
        cases.append({'src': prog(lines), 'kind': 'self-tail-call', 'budget': 20000})
    return cases


# ---------------------------------------------------------------- order of evaluation in assignments, seen through effects
def assignment_order_programs(rng, n):
    cases = []
    base = ['নাম গ = ০;', 'ফাং ছাপ(ব, ম) {', '    দেখাও ব;', '    গ = গ + ১;', '    ফেরত ম;', '} ফেরত;', 'ফাং ভাঙ(ব) {', '    দেখাও "ভাঙার আগে";', '    _এরর(ব);', '    ফেরত ০;', '} ফেরত;',
            'ফাং জোড়া২(ক১, ক২, ক৩) {', '    ফেরত [ক১, ক২, ক৩];', '} ফেরত;', 'নাম ক = [১, ২, ৩];', 'নাম পুরনো = ক;', 'ফাং বাড়াও() {', '    ক = ক + [০];', '    ফেরত ০;', '} ফেরত;', 'ফাং বদল() {', '    ক = [৭, ৭, ৭];', '    ফেরত ৫;', '} ফেরত;', 'নাম র = @{"k" -> [১],};']
    stmts = ['অঘোষিত = ছাপ("ডান", ১);', 'অঘোষিত = ভাঙ("ডান দিকের ত্রুটি");', 'অঘোষিত[০] = ছাপ("ডান", ১);', 'অঘোষিত[ছাপ("সূচক", ০)] = ছাপ("ডান", ১);', 'ক[ছাপ("সূচক", ০)] = ছাপ("ডান", ৯);\nদেখাও ক;',
             'ক[ছাপ("এক", ০)] = ক[ছাপ("দুই", ১)] + ছাপ("তিন", ১);\nদেখাও ক;', 'ক[বাড়াও()] = ৯;\nদেখাও ক;\nদেখাও পুরনো;', 'ক[০] = বদল();\nদেখাও ক;\nদেখাও পুরনো;', 'ক[৯] = ছাপ("ডান", ১);', 'ক["k"] = ছাপ("ডান", ১);',
             'র["k"][ছাপ("সূচক", ০)] = ছাপ("ডান", ২);\nদেখাও র["k"];', 'র[ছাপ("চাবি", "নতুন")] = ছাপ("ডান", ৩);\nদেখাও র["নতুন"];', 'নাম নতুন = ছাপ("এক", ১) + ছাপ("দুই", ২) * ছাপ("তিন", ৩);\nদেখাও নতুন;',
             'দেখাও [ছাপ("a", ১), ছাপ("b", ২)];', 'দেখাও ছাপ("বাম", সত্য) | ছাপ("ডান", মিথ্যা);', 'দেখাও ছাপ("বাম", মিথ্যা) & ছাপ("ডান", সত্য);', 'দেখাও @{"x" -> ছাপ("মান১", ১), "y" -> ছাপ("মান২", ২),}["x"];'.replace('}["x"]', '}'),
             'ছাপ("ক", ছাপ("খ", ১));', 'দেখাও জোড়া২(ছাপ("a", ১), ছাপ("b", ২), ছাপ("c", ৩));', 'দেখাও ছাপ("l", ১) == ছাপ("r", ১);', 'দেখাও ছাপ("l", ১) < ছাপ("r", ২);', 'দেখাও ছাপ("l", ৫) - ছাপ("r", ২);', 'দেখাও ছাপ("l", ৫) % ছাপ("r", ২);',
             'দেখাও ছাপ("l", ৬) / ছাপ("r", ২) * ছাপ("t", ৩);', 'দেখাও -ছাপ("u", ১);', 'দেখাও !ছাপ("n", সত্য);', 'দেখাও ক[ছাপ("পড়া", ১)];', 'দেখাও র[ছাপ("চাবি", "k")][ছাপ("সূচক", ০)];', 'দেখাও [ছাপ("a", ১), [ছাপ("b", ২), ছাপ("c", ৩)], ছাপ("d", ৪)];',
             'দেখাও ছাপ("l", "x") + ছাপ("r", "y");', 'দেখাও ছাপ("l", [১]) + ছাপ("r", [২]);', 'দেখাও ছাপ("l", ১) != ছাপ("m", ২) | ছাপ("r", সত্য);', 'যদি ছাপ("শর্ত", সত্য) {\n    দেখাও "ভিতরে";\n} অথবা যদি ছাপ("দ্বিতীয়", সত্য) {\n    দেখাও "না";\n}',
             '_লিস্ট-পুশ(ক, ছাপ("অবস্থান", ০), ছাপ("মান", ৮));\nদেখাও ক;', 'দেখাও _লিস্ট-লেন(ছাপ("তালিকা", ক)) + ছাপ("পরে", ১);', 'নাম নথি২ = @{ছাপ("চাবি১", "a") -> ছাপ("মান১", ১), ছাপ("চাবি২", "b") -> ছাপ("মান২", ২),};\nদেখাও নথি২;', 'দেখাও ছাপ("বাইরে", ১) + ভাঙ("যোগের ডানে");', 'দেখাও ভাঙ("যোগের বামে") + ছাপ("কখনও নয়", ১);', 'গ = ভাঙ("পুনর্নির্ধারণে");', 'দেখাও গ;']
    for _ in range(n):
        body = []
        for _ in range(rng.randint(1, 4)): body += rng.choice(stmts).split('\n')
        cases.append({'src': prog(base + ['দেখাও "শুরু";'] + body + ['দেখাও গ;', 'দেখাও "শেষ";']), 'kind': 'assignment-order'})
    return cases


# ---------------------------------------------------------------- the value of an expression statement is simply dropped
def expression_statement_programs(rng, n):
    cases = []
    base = ['ফাং যোগ(তা, ম) {', '    _লিস্ট-পুশ(তা, ম);', '    ফেরত তা;', '} ফেরত;', 'ফাং নথি(রে, চ, ম) {', '    রে[চ] = ম;', '    ফেরত রে;', '} ফেরত;', 'ফাং একই(x) {', '    ফেরত x;', '} ফেরত;', 'নাম ক = [১, ২];', 'নাম র = @{"a" -> ১,};']
    stmts = ['যোগ(ক, ৩);', 'ক;', 'র;', 'একই(ক);', 'একই(র);', 'নথি(র, "b", ২);', 'ক + [৯];', 'যোগ(ক, ৪) + [৫];', '[ক, র];', 'একই([ক]);', '(ক);', 'ক == ক;', 'যোগ(যোগ(ক, ৬), ৭);']
    allocs = ['নাম খ = ["অন্য"];', 'নাম গ = @{"z" -> "অন্য",};', 'নাম ঘ = ক + ["x"];', 'নাম ঙ = _স্ট্রিং-স্প্লিট("p,q", ",");', 'ক[০] = ১০;', 'নাম চ = [[১], [২]];']
    for _ in range(n):
        body = []
        for _ in range(rng.randint(2, 6)):
            body.append(rng.choice(stmts))
            body += rng.sample(allocs, rng.randint(1, 2))
            body.append('দেখাও [ক, _লিস্ট-লেন(ক)]; দেখাও র;')
        cases.append({'src': prog(base + body + ['দেখাও "শেষ";']), 'kind': 'expression-statement'})
    return cases


# ---------------------------------------------------------------- + keeps the identity of nested elements; operands stay what they were
def concat_nested_identity_programs(rng, n):
    cases = []
    base = ['নাম ভিতর = [১, ২];', 'নাম নথি = @{"k" -> ১,};', 'নাম ক = [ভিতর, নথি, ৩];', 'নাম খ = [[৪], ভিতর];', 'ফাং প্রথম(তা) {', '    ফেরত তা[০];', '} ফেরত;', 'ফাং বাছ(ক, খ, প) {', '    যদি প {', '        ফেরত ক;', '    }', '    ফেরত খ;', '} ফেরত;', 'ফাং সদস্য(রে) {', '    ফেরত রে["সব"];', '} ফেরত;', 'নাম দল = @{"সব" -> ["অ", "আ"],};']
    stmts = ['নাম গ = ক + খ;\nদেখাও প্রথম(গ) == ভিতর;\nদেখাও গ[১] == নথি;\nদেখাও গ[৪] == ভিতর;', 'নাম গ = ক + খ;\n_লিস্ট-পুশ(ভিতর, ৯);\nদেখাও গ;', 'নাম গ = ক + খ;\nগ[০][০] = ৭;\nদেখাও ভিতর;\nদেখাও ক;', 'নাম গ = ক + [];\nনথি["k"] = ২;\nদেখাও গ;',
             'নাম গ = বাছ(ক, খ, সত্য) + [৫];\nনাম নতুন১ = ["n1"];\nনাম নতুন২ = ["n2"];\nদেখাও ক;\nদেখাও গ;\nদেখাও [নতুন১, নতুন২];', 'নাম গ = ["x"] + সদস্য(দল);\nনাম নতুন১ = ["n1"];\nনাম নতুন২ = ["n2"];\nদেখাও দল;\nদেখাও গ;\nদেখাও নতুন১;',
             'নাম গ = বাছ(ক, খ, মিথ্যা) + বাছ(ক, খ, মিথ্যা);\nনাম নতুন১ = ["n1"];\nনাম নতুন২ = ["n2"];\nনাম নতুন৩ = ["n3"];\nদেখাও খ;\nদেখাও [নতুন১, নতুন২, নতুন৩];\nদেখাও _লিস্ট-লেন(গ);', 'নাম গ = সদস্য(দল) + সদস্য(দল);\n_লিস্ট-পুশ(গ, "ই");\nদেখাও দল;\nনাম নতুন১ = [০];\nদেখাও দল;']
    for _ in range(n):
        body = []
        for _ in range(rng.randint(1, 3)): body += ['{'] + ind(rng.choice(stmts).split('\n')) + ['}']
        cases.append({'src': prog(base + body + ['দেখাও [ক, খ, দল];']), 'kind': 'concat-nested-identity'})
    return cases


# ---------------------------------------------------------------- indexed assignment goes through the innermost binding, whatever it holds
def shadowed_scalar_index_programs():
    cases = []
    for inner in ['৫', '"লেখা"', 'সত্য', 'শূ', 'ফ']:
        for how in ('block', 'callee', 'loop'):
            if how == 'block': body = ['{', '    নাম ক = %s;' % inner, '    দেখাও "ভিতরে";', '    ক[০] = ৯৯;', '    দেখাও "লেখার পরে";', '}']
            elif how == 'loop': body = ['নাম ই = ০;', 'লুপ {', '    ই = ই + ১;', '    যদি ই > ১ {', '        থামাও;', '    }', '    নাম ক = %s;' % inner, '    ক[০] = ৯৯;', '} আবার;']
            else: body = ['ফাং লেখ() {', '    নাম ক = %s;' % inner, '    ক[০] = ৯৯;', '    ফেরত ০;', '} ফেরত;', 'লেখ();']
            cases.append({'src': prog(['নাম শূ;', 'ফাং ফ() {', '} ফেরত;', 'নাম ক = [১, ২, ৩];'] + body + ['দেখাও ক;']), 'kind': 'shadowed-scalar-index'})
    return cases


# ---------------------------------------------------------------- names starting with '_' are ordinary variables; shared records inside lists
def gc_root_programs(rng, n):
    cases = []
    for _ in range(n):
        lines = ['নাম _সংরক্ষিত = [১, ২, ৩];', 'নাম _তথ্য = @{"ক" -> [৪],};', 'নাম র = @{"ভাগ" -> ১,};', 'নাম মিশ্র = [র, র, [৭, ৮]];', 'নাম মিশ্র২ = [[১], র, @{"x" -> [৯],}, র, [১০]];', 'নাম চক্র = @{"n" -> ১,};', 'চক্র["আমি"] = চক্র;', 'নাম তা৩ = [চক্র, [১১], চক্র, [১২]];']
        lines += counted_loop('ই', rng.choice([30, 600]), ['নাম আ = [ই];'])
        lines += ['নাম নতুন১ = @{"ক" -> ৯৮,};', 'নাম নতুন২ = [০, ০];', 'দেখাও _সংরক্ষিত;', 'দেখাও _তথ্য;', 'দেখাও মিশ্র;', 'দেখাও মিশ্র২;', 'দেখাও [তা৩[১], তা৩[৩]];', 'দেখাও [নতুন১, নতুন২];']
        cases.append({'src': prog(lines), 'kind': 'gc-roots', 'budget': 8000})
    return cases


# ---------------------------------------------------------------- allocation loops that are not at scope depth 1
def nested_alloc_wrappers():
    """(name, prefix lines, suffix lines, indent) wrapping an allocating loop inside another open block at top level"""
    return [('in-block-', ['{'], ['}'], 1), ('in-if-', ['যদি সত্য {'], ['}'], 1),
            ('in-loop-', ['নাম বা = ০;', 'লুপ {', '    বা = বা + ১;', '    যদি বা > ১ {', '        থামাও;', '    }'], ['} আবার;'], 1),
            ('in-else-', ['যদি মিথ্যা {', '} অথবা {'], ['}'], 1)]


# ---------------------------------------------------------------- invisible characters, long blank runs, adjacent strings
ZW = ['‌', '‍']
LEX_CORPUS2 = ['সত্য‌', 'সত্য‍;', 'ন‌াম ক = ১;', 'দেখাও‌ ১;', 'ক‌খ = ১;', '"ক‌খ"', '# ক‍খ #', '১‌২', 'লুপ‌ {', '‌দেখাও ১;',
               '"ক""খ"', '"ক""খ""গ"', '""""', '"ক"""', '["ক""খ"]', '"a" "b"', 'দেখাও ১;' + ' ' * 1100 + 'দেখাও ২;', 'দেখাও ১;' + '\n' * 4000 + ' ' * 800 + 'দেখাও ২;', '\t' * 3000 + 'ক', 'ক' + ' \n' * 2500,
               'দেখাও ১;' + '\r\n' * 1500 + 'দেখাও ২;']

NUM_TEXTS_ZW = ['১‌২', '‍৩.৫‍', '১২‌', '‌', '১ ২', '১ ২', '﻿১২', '১২\n', '\t১২', '১_২', '১২.', '.৫', '-.৫', '৫-', '১e২', '0x10', '١٢', '१२', '１２', '১২৩৪৫৬৭৮৯০' * 4]


# ---------------------------------------------------------------- comments at arbitrary token boundaries (compared with the model only)
def comment_anywhere_sources(rng, token_programs, n_each=2):
    out = []
    for st in token_programs:
        toks = [t for s in st for t in s]
        for _ in range(n_each):
            k = rng.randint(1, 3)
            pos = sorted(rng.sample(range(len(toks) + 1), min(k, len(toks) + 1)))
            res = []
            for i, t in enumerate(toks):
                if i in pos: res.append(rng.choice(['# মন্তব্য #', '#\nদুই লাইন\n#', '# \\# #']))
                res.append(t)
            if len(toks) in pos: res.append('# শেষে #')
            out.append(' '.join(res) + '\n')
    return out


def keyword_comment_programs():
    cases = []
    C = ' # মন্তব্য # '
    for src in ['নাম ই = ০;\nলুপ%s{\n    ই = ই + ১;\n    যদি ই > ২ {\n        থামাও;\n    }\n    দেখাও ই;\n} আবার;\nদেখাও "শেষ";' % C,
                'নাম ই = ০;\nলুপ\n# নিজের লাইনে #\n{\n    ই = ই + ১;\n    যদি ই > ২ {\n        থামাও;\n    }\n    দেখাও ই;\n}%sআবার;\nদেখাও "শেষ";' % C,
                'যদি সত্য%s{\n    দেখাও "ক";\n}%sঅথবা%s{\n    দেখাও "খ";\n}' % (C, C, C), 'ফাং ফ(ক)%s{\n    ফেরত ক;\n}%sফেরত;\nদেখাও ফ(১);' % (C, C), 'ফাং ফ(ক) {\n    ফেরত%sক;\n} ফেরত%s;\nদেখাও ফ(১);' % (C, C),
                'নাম%sক = ১;\nদেখাও ক;' % C, 'নাম ক%s= ১;\nদেখাও%sক;' % (C, C), 'নাম ক = [১,%s২];\nদেখাও ক[%s০];' % (C, C), 'নাম ই = ০;\nলুপ {\n    ই = ই + ১;\n    যদি ই > ২ {\n        থামাও%s;\n    }\n} আবার%s;\nদেখাও ই;' % (C, C),
                'দেখাও ১ +%s২;' % C, 'দেখাও ফ(১,%s২);' % C, 'নাম র = @{"k"%s-> ১,%s};\nদেখাও র;' % (C, C)]:
        cases.append({'src': src + '\n', 'kind': 'comment-inside-statement'})
    return cases


# ---------------------------------------------------------------- modules: the same import twice, names like built-ins, one name for two files
def reimport_programs():
    cases = []
    counter = prog(['নাম মান = ০;', 'ফাং বাড়াও() {', '    মান = মান + ১;', '    ফেরত মান;', '} ফেরত;', 'দেখাও "গণক তৈরি";'])
    cases.append({'src': prog(['মডিউল গ = "counter.pakhi";', 'দেখাও গ/বাড়াও();', 'দেখাও গ/বাড়াও();', 'মডিউল গ = "counter.pakhi";', 'দেখাও গ/মান;', 'দেখাও গ/বাড়াও();']), 'files': [('counter.pakhi', counter)], 'kind': 'reimport'})
    cases.append({'src': prog(['ফাং এক() {', '    মডিউল ল = "counter.pakhi";', '    ফেরত ল/বাড়াও();', '} ফেরত;', 'ফাং দুই() {', '    মডিউল ল = "counter.pakhi";', '    ল/বাড়াও();', '    ফেরত ল/বাড়াও();', '} ফেরত;', 'দেখাও এক();', 'দেখাও দুই();', 'দেখাও এক();']),
                  'files': [('counter.pakhi', counter)], 'kind': 'reimport'})
    cases.append({'src': prog(['যদি সত্য {', '    মডিউল ল = "counter.pakhi";', '    দেখাও ল/বাড়াও();', '} অথবা {', '    মডিউল ল = "counter.pakhi";', '    দেখাও ল/মান;', '}', '{', '    মডিউল ল = "counter.pakhi";', '    দেখাও ল/বাড়াও();', '}', 'দেখাও "শেষ";']),
                  'files': [('counter.pakhi', counter)], 'kind': 'reimport'})
    # an import name spelled like a built-in inside a module, then the built-in itself
    shapes = prog(['নাম আগে = _টাইপ(১);', 'মডিউল _টাইপ = "inner.pakhi";', 'মডিউল _প্ল্যাটফর্ম = "inner.pakhi";', 'দেখাও _টাইপ/ভিতর;', 'ফাং ধরন(x) {', '    ফেরত _টাইপ(x);', '} ফেরত;', 'দেখাও _টাইপ([১]);', 'দেখাও _লিস্ট-লেন([১, ২]);', 'দেখাও _টাইপ(_প্ল্যাটফর্ম);', 'দেখাও আগে;'])
    cases.append({'src': prog(['মডিউল আ = "shapes.pakhi";', 'দেখাও আ/ধরন("x");', 'দেখাও _টাইপ(১);']), 'files': [('shapes.pakhi', shapes), ('inner.pakhi', 'নাম ভিতর = ৩;\n')], 'kind': 'builtin-named-import'})
    # one import name, two files, in one module; the first has a nested import, the second imports the first's file
    cases.append({'src': prog(['মডিউল ক = "a.pakhi";', 'দেখাও "main";']),
                  'files': [('a.pakhi', prog(['দেখাও "a";', 'মডিউল স = "b.pakhi";', 'দেখাও স/নাম_খ;', 'মডিউল স = "c.pakhi";', 'দেখাও স/নাম_গ;'])), ('b.pakhi', prog(['মডিউল ভ = "d.pakhi";', 'নাম নাম_খ = "b";', 'দেখাও "b";'])),
                            ('c.pakhi', prog(['মডিউল ভ২ = "b.pakhi";', 'নাম নাম_গ = "c";', 'দেখাও "c";'])), ('d.pakhi', 'দেখাও "d";\n')], 'kind': 'alias-rebound'})
    cases.append({'src': prog(['মডিউল স = "b.pakhi";', 'মডিউল স = "c.pakhi";', 'দেখাও "main";']),
                  'files': [('b.pakhi', prog(['মডিউল ভ = "d.pakhi";', 'দেখাও "b";'])), ('c.pakhi', prog(['মডিউল ভ২ = "b.pakhi";', 'দেখাও "c";'])), ('d.pakhi', 'দেখাও "d";\n')], 'kind': 'alias-rebound'})
    return cases


# ---------------------------------------------------------------- modules whose text stops in the middle of a statement
def unfinished_module_programs():
    """A module's tokens are spliced into the importing file's tokens, so a module that stops in the middle of a statement
    continues with the tokens that follow its import.  The module keyword as the last token is the dangerous one: the import
    name would be a token of the importing file, which does not carry the module's import name (DESIGN D.9)."""
    cases = []
    KW = 'মডিউল'
    # the loop: a's last statement names a itself under a built-in's name, b ends with the module keyword
    for name in ['_টাইপ', '_প্ল্যাটফর্ম', '_লিস্ট-লেন', 'খ', 'ক']:
        for tail in ['', '\n', ' ', '\n# শেষ #\n']:
            cases.append({'src': prog(['মডিউল ক = "a.pakhi";', 'দেখাও "main";']),
                          'files': [('a.pakhi', prog(['মডিউল খ = "b.pakhi";', '%s = "a.pakhi";' % name, 'দেখাও "a";'])), ('b.pakhi', 'দেখাও "b";\n' + KW + tail)], 'kind': 'module-ends-with-keyword'})
    for name in ['_টাইপ', 'গ']:
        # the same through one more level, and with the name taken from the root
        cases.append({'src': prog(['মডিউল ক = "a.pakhi";', 'দেখাও "main";']),
                      'files': [('a.pakhi', prog(['মডিউল খ = "b.pakhi";', 'দেখাও "a";'])), ('b.pakhi', prog(['মডিউল গ = "c.pakhi";', '%s = "b.pakhi";' % name, 'দেখাও "b";'])), ('c.pakhi', KW)], 'kind': 'module-ends-with-keyword'})
        cases.append({'src': prog(['মডিউল ক = "a.pakhi";', '%s = "a.pakhi";' % name, 'দেখাও "main";']), 'files': [('a.pakhi', 'দেখাও "a";\n' + KW)], 'kind': 'module-ends-with-keyword'})
        cases.append({'src': prog(['মডিউল ক = "a.pakhi";', '%s = "b.pakhi";' % name, 'দেখাও "main";']), 'files': [('a.pakhi', 'দেখাও "a";\n' + KW), ('b.pakhi', 'দেখাও "b";\n')], 'kind': 'module-ends-with-keyword'})
    cases.append({'src': prog(['মডিউল ক = "a.pakhi";', 'দেখাও "main";']), 'files': [('a.pakhi', KW)], 'kind': 'module-ends-with-keyword'})
    cases.append({'src': prog(['মডিউল ক = "a.pakhi";']), 'files': [('a.pakhi', KW + ' ' + KW)], 'kind': 'module-ends-with-keyword'})
    cases.append({'src': prog(['মডিউল ক = "a.pakhi";', 'দেখাও "main";']), 'files': [('a.pakhi', '# only a comment #'), ], 'kind': 'module-empty'})
    cases.append({'src': prog(['মডিউল ক = "a.pakhi";', 'দেখাও "main";']), 'files': [('a.pakhi', ''), ], 'kind': 'module-empty'})
    # other unfinished endings: they continue with the importing file's tokens, which is odd but finite
    for end in ['মডিউল খ', 'মডিউল খ =', 'মডিউল খ = "b.pakhi"', 'মডিউল খ = "b" +', 'দেখাও ১', 'দেখাও', 'নাম ক =', 'নাম', 'যদি', 'ফাং ফ(', '[১,', 'ক', 'ক[০]', 'ফেরত', 'লুপ', '{', 'দেখাও (১ +']:
        for nxt in ['দেখাও "main";', '"b.pakhi";', '২;', '= "b.pakhi";', 'খ = "b.pakhi";']:
            cases.append({'src': prog(['নাম ক = [১];', 'মডিউল ম = "a.pakhi";', nxt, 'দেখাও "শেষ";']),
                          'files': [('a.pakhi', 'দেখাও "a";\n' + end), ('b.pakhi', 'দেখাও "b";\n')], 'kind': 'module-unfinished'})
    return cases


IMPORT_FORMS2 = ['মডিউল ম = "mod.pakhi" # note #;', 'মডিউল ম = "mo" # a # + "d.pakhi";', 'মডিউল ম = # a # "mod.pakhi";', 'মডিউল ম # a # = "mod.pakhi";', 'মডিউল # a # ম = "mod.pakhi";', 'মডিউল ম = "mo" + # a # "d.pakhi";', 'মডিউল ম = "mod.pakhi" "x";',
                 'মডিউল ম = "mo" "d.pakhi";', 'মডিউল ম = "mod.pakhi" +;', 'মডিউল ম = "mod.pakhi" + ১;', 'মডিউল ম = "mod.pakhi" + ক;', 'মডিউল ম = ("mod.pakhi");', 'মডিউল ম = "mod.pakhi"; # পরে #']


# ---------------------------------------------------------------- split results that are not bound to a variable; text only files can hold
def unbound_split_programs(rng, n):
    cases = []
    for _ in range(n):
        lines = ['নাম সারি = [];', 'নাম লাইন = ["a,b", "c,d,e", "f"];'] + counted_loop('ই', 3, ['_লিস্ট-পুশ(সারি, _স্ট্রিং-স্প্লিট(লাইন[ই - ১], ","));']) + ['দেখাও সারি;',
                 'নাম নথি = @{"ক" -> _স্ট্রিং-স্প্লিট("x+y", "+"), "খ" -> _স্ট্রিং-স্প্লিট("p+q+r", "+"),};', 'দেখাও নথি["ক"];', 'দেখাও নথি["খ"];', 'ফাং জোড়া(ক, খ) {', '    ফেরত [ক, খ];', '} ফেরত;',
                 'দেখাও জোড়া(_স্ট্রিং-স্প্লিট("১ ২ ৩", " "), _স্ট্রিং-স্প্লিট("৪ ৫", " "));', 'দেখাও [_স্ট্রিং-স্প্লিট("a-b", "-"), _স্ট্রিং-স্প্লিট("c-d", "-"), _স্ট্রিং-স্প্লিট("", "-")];', 'দেখাও সারি;',
                 'নাম ধরা = _স্ট্রিং-স্প্লিট("m n", " ");', '_স্ট্রিং-স্প্লিট("o p q", " ");', 'নাম পরে = _স্ট্রিং-স্প্লিট("r", " ");', 'দেখাও [ধরা, পরে];', 'দেখাও সারি;']
        cases.append({'src': prog(lines), 'kind': 'unbound-split'})
    return cases


def file_text_split_programs():
    """text that no literal can hold (quotes, backslashes, control characters) comes from files; split and join treat it
    like any other text"""
    cases = []
    for content, sep in [('a,"b,c",d', ','), ('"x y" z', ' '), ('say "hi, there", ok', ', '), ('a"b"c', 'b'), ("it's,'q,r'", ','), ('back\\slash,\\,x', ','), ('tab\there,x', ','), ('ক,"খ,গ"', ','), ('"', ','), ('","', ','), ('a""b', ',')]:
        cases.append({'src': prog(['নাম লেখা = _রিড-ফাইল("data.csv");', 'নাম ভাগ = _স্ট্রিং-স্প্লিট(লেখা, "%s");' % sep, 'দেখাও _লিস্ট-লেন(ভাগ);', 'দেখাও _স্ট্রিং-জয়েন(ভাগ, "|");', 'দেখাও _স্ট্রিং-জয়েন(ভাগ, "%s") == লেখা;' % sep,
                                   'দেখাও _লিস্ট-লেন(_স্ট্রিং-স্প্লিট(লেখা, ""));']), 'files': [('data.csv', content)], 'kind': 'file-text-split', 's': content, 'sep': sep})
    return cases


# ---------------------------------------------------------------- printing: state kept between print statements
def print_state_programs(rng, n):
    cases = []
    atoms = ['দেখাও ০;', 'দেখাও -০;', 'দেখাও ০ * -৫;', '_দেখাও ০;', '_দেখাও -০;', 'দেখাও [০, -০];', 'দেখাও [-০, ০];', 'দেখাও _স্ট্রিং(-০);', 'দেখাও _স্ট্রিং(০);', 'দেখাও @{"z" -> -০,};', 'দেখাও ১;', 'দেখাও ১.০;', 'দেখাও ০.১ + ০.২;', 'দেখাও ০.৩;',
             '_দেখাও র;', '_দেখাও ল;', 'দেখাও র;', 'দেখাও [র];', 'দেখাও [ল, র, ২];', 'দেখাও @{"in" -> র,};', '_দেখাও [র];', 'দেখাও "";', '_দেখাও "";', '_দেখাও র২;', 'দেখাও [র২, র];', 'দেখাও [[ল], ল];']
    for _ in range(n):
        lines = ['নাম র = @{"ক" -> ১,};', 'নাম র২ = @{"খ" -> [র],};', 'নাম ল = [৫, ৬];']
        for _ in range(rng.randint(3, 9)): lines.append(rng.choice(atoms))
        cases.append({'src': prog(lines), 'kind': 'print-state'})
    return cases


def cli_programs():
    """(source, exact stdout) for the built binary: long strings, with and without newlines inside, through both print
    statements and inside containers (the real IO object, not the test double, writes these)"""
    out = []
    for s_ in ['ক' * 100 + '\n' + 'খ' * 400, 'a' * 10 + '\n' + 'b' * 1024, 'a\n' + 'b' * 1023, 'c\n' + 'd' * 1025, 'x' * 5000, 'ক' * 3000, 'l1\nl2\n' + 'z' * 2048 + '\n', '\n' * 3 + 'y' * 1500]:
        out.append(('দেখাও "%s";\nদেখাও "শেষ";\n' % s_, s_ + '\nশেষ\n'))
        out.append(('_দেখাও "%s";\n_দেখাও "|";\nদেখাও "শেষ";\n' % s_, s_ + '|শেষ\n'))
        out.append(('দেখাও ["%s", ১];\n' % s_, '[' + s_ + ', ১]\n'))
    out.append(('নাম ব = "x";\nনাম ই = ০;\nলুপ {\n    যদি ই >= ১৩ {\n        থামাও;\n    }\n    ব = ব + ব;\n    ই = ই + ১;\n} আবার;\nদেখাও "আগে\n" + ব;\nদেখাও "শেষ";\n', 'আগে\n' + 'x' * 8192 + '\nশেষ\n'))
    return out


# ---------------------------------------------------------------- file system: big files, a directory where a file is
def fs_extra_programs():
    cases = []
    def build(var, unit, count):
        return ['নাম %s = "";' % var, 'নাম একক = "%s";' % unit, 'নাম বাকি = %s;' % bn(count), 'লুপ {', '    যদি বাকি < ১ {', '        থামাও;', '    }', '    যদি বাকি % ২ == ১ {', '        %s = %s + একক;' % (var, var), '        বাকি = বাকি - ১;', '    }', '    একক = একক + একক;', '    বাকি = বাকি / ২;', '} আবার;']
    for unit, count in [('ক', 16384), ('a', 98304), ('ক', 32768), ('ক', 21846), ('aক', 20000), ('😀', 20000)]:
        lines = build('বড়', unit, count) + ['দেখাও _রাইট-ফাইল("big.txt", বড়);', 'নাম ফিরে = _রিড-ফাইল("big.txt");', 'দেখাও ফিরে == বড়;', 'দেখাও _লিস্ট-লেন(_স্ট্রিং-স্প্লিট(ফিরে, "")) == %s;' % bn(count * len(unit)), 'দেখাও _ডিলিট-ফাইল("big.txt");']
        cases.append({'stmts': lines, 'kind': 'fs-big-file', 'budget': 4000})
    for seq in [['দেখাও _রাইট-ফাইল("f.txt", "x");', 'দেখাও _নতুন-ডাইরেক্টরি("f.txt");', 'দেখাও _ফাইল-নাকি-ডাইরেক্টরি("f.txt");', 'দেখাও "শেষ";'],
                ['দেখাও _নতুন-ডাইরেক্টরি("d/e");', 'দেখাও _রাইট-ফাইল("d/e/f.txt", "x");', 'দেখাও _নতুন-ডাইরেক্টরি("d/e/f.txt");', 'দেখাও "শেষ";'],
                ['দেখাও _নতুন-ডাইরেক্টরি("d");', 'দেখাও _রাইট-ফাইল("d/f", "x");', 'দেখাও _নতুন-ডাইরেক্টরি("d/f/g");', 'দেখাও "শেষ";'],
                ['দেখাও _নতুন-ডাইরেক্টরি("d");', 'দেখাও _নতুন-ডাইরেক্টরি("d");', 'দেখাও _নতুন-ডাইরেক্টরি("d/e");', 'দেখাও _নতুন-ডাইরেক্টরি("d");', 'দেখাও _ফাইল-নাকি-ডাইরেক্টরি("d");', 'দেখাও _রাইট-ফাইল("d", "x");', 'দেখাও "শেষ";'],
                ['দেখাও _রাইট-ফাইল("f.txt", "x");', 'দেখাও _রিড-ডাইরেক্টরি("f.txt");', 'দেখাও "শেষ";'], ['দেখাও _রাইট-ফাইল("f.txt", "x");', 'দেখাও _ডিলিট-ডাইরেক্টরি("f.txt");', 'দেখাও "শেষ";'],
                ['দেখাও _নতুন-ডাইরেক্টরি("d");', 'দেখাও _ডিলিট-ফাইল("d");', 'দেখাও "শেষ";'], ['দেখাও _নতুন-ডাইরেক্টরি("d");', 'দেখাও _রিড-ফাইল("d");', 'দেখাও "শেষ";']]:
        cases.append({'stmts': seq, 'kind': 'fs-faulty'})
    return cases


# ---------------------------------------------------------------- a loop body with many names, left by break / continue / return
def many_locals_programs(rng, n):
    cases = []
    for _ in range(n):
        k = rng.choice([3, 7, 8, 9, 12, 20])
        leave = rng.choice(['থামাও;', 'আবার;', 'ফেরত ১;'])
        names = ['স্থা%s' % bn(i) for i in range(k)]
        body = ['নাম %s = %s;' % (nm, bn(i + 1)) for i, nm in enumerate(names)]
        inner = ['বাইরে = বাইরে + %s;' % ' + '.join(names[:3]), 'যদি ই == ২ {', '    নাম গভীর = ই;', '    %s' % leave, '}', '_দেখাও ই;']
        loop = ['নাম ই = ০;', 'লুপ {', '    ই = ই + ১;', '    যদি ই > ৩ {', '        থামাও;', '    }'] + ind(body + inner) + ['} আবার;']
        after = ['{', '    দেখাও বাইরে;', '    দেখাও %s;' % names[0], '}', '{', '    বাইরে = বাইরে + ১;', '    নাম %s = "নতুন";' % names[0], '    দেখাও [বাইরে, %s];' % names[0], '}', 'দেখাও বাইরে;']
        decl = ['নাম বাইরে = ১;', 'নাম %s = "বাইরের";' % names[0]] if rng.random() < 0.6 else ['নাম বাইরে = ১;']
        if leave.startswith('ফেরত') or rng.random() < 0.4:
            src = decl + ['ফাং কাজ() {'] + ind(loop + after + ['ফেরত ০;']) + ['} ফেরত;', 'দেখাও কাজ();', 'দেখাও কাজ();', 'দেখাও বাইরে;']
        else:
            src = decl + loop + after
        cases.append({'src': prog(src), 'kind': 'many-locals'})
    return cases


# ---------------------------------------------------------------- branch bodies of unusual shape
def chain_block_shape_programs(rng, n):
    shapes = [[], ['{', '}'], ['{', '}', 'দেখাও "পরে-খালি";'], ['{', '    # শুধু মন্তব্য #', '}', 'দেখাও "ক";', 'দেখাও "খ";'], ['# মন্তব্য #'], ['{', '    {', '    }', '}', 'দেখাও "গ";'], ['থামাও;'], ['আবার;'], ['ফেরত;'], ['ফেরত ৫;'],
              ['দেখাও "এক";'], ['{', '    দেখাও "ভিতরে";', '}'], ['নাম স্থা = ১;', '{', '}', 'দেখাও স্থা;'], ['যদি সত্য {', '}', 'দেখাও "ঘ";'], ['যদি মিথ্যা {', '} অথবা {', '}', 'দেখাও "ঙ";'], ['লুপ {', '    থামাও;', '} আবার;', 'দেখাও "চ";']]
    cases = []
    for _ in range(n):
        k = rng.randint(1, 3)
        has_else = rng.random() < 0.7
        ctx = rng.choice(['loop', 'func', 'funcloop', 'top'])
        lines = []
        for i in range(k):
            cond = rng.choice(['ন == %s' % bn(i + 1), 'ন > %s' % bn(7 - 3 * i), 'ন %% ২ == %s' % bn(i % 2)])
            lines.append(('যদি %s {' if i == 0 else '} অথবা যদি %s {') % cond)
            sh = rng.choice(shapes)
            if ctx == 'top': sh = [l for l in sh if l.strip() not in ('থামাও;', 'আবার;', 'ফেরত;', 'ফেরত ৫;')]
            if ctx == 'loop': sh = [l for l in sh if not l.strip().startswith('ফেরত')]
            if ctx == 'func': sh = [l for l in sh if l.strip() not in ('থামাও;', 'আবার;')]
            lines += ind(sh + ['_দেখাও "শ%d ";' % i] if rng.random() < 0.6 else sh)
        if has_else:
            lines.append('} অথবা {'); lines += ind(rng.choice(shapes[:6] + shapes[10:]) + ['_দেখাও "শe ";'])
        lines.append('}')
        lines.append('দেখাও ন;')
        if ctx == 'top': src = ['নাম ন = %s;' % bn(rng.randint(0, 4))] + lines + ['নাম ন = ৯;'] + lines
        elif ctx == 'loop': src = ['নাম ন = ০;', 'লুপ {', '    ন = ন + ১;', '    যদি ন > ৪ {', '        থামাও;', '    }'] + ind(lines) + ['} আবার;', 'দেখাও "শেষ";']
        elif ctx == 'func': src = ['ফাং পরখ(ন) {'] + ind(lines + ['ফেরত "শেষ";']) + ['} ফেরত;'] + ['দেখাও পরখ(%s);' % bn(i) for i in range(5)]
        else: src = ['ফাং পরখ(সীমা) {', '    নাম ন = ০;', '    লুপ {', '        ন = ন + ১;', '        যদি ন > সীমা {', '            থামাও;', '        }'] + ind(lines, 2) + ['    } আবার;', '    ফেরত "শেষ";', '} ফেরত;', 'দেখাও পরখ(৪);', 'দেখাও পরখ(২);']
        cases.append({'src': prog(src), 'kind': 'chain-block-shapes', 'alone': None})
    return cases


def jump_only_branch_programs():
    """chains in which one branch is exactly { থামাও; } / { আবার; } / { ফেরত; }, every position of the chain, every truth value"""
    cases = []
    for jump in ['থামাও;', 'আবার;', 'ফেরত;', 'ফেরত ন;']:
        for pos in (0, 1, 2):
            for has_else in (False, True):
                conds = ['ন == ২', 'ন == ৩', 'ন > ৩']
                lines = []
                for i in range(3):
                    lines.append(('যদি %s {' if i == 0 else '} অথবা যদি %s {') % conds[i])
                    lines += ['    ' + jump] if i == pos else ['    _দেখাও "শ%d ";' % i]
                if has_else: lines += ['} অথবা {', '    _দেখাও "শe ";']
                lines.append('}')
                body = ['ন = ন + ১;', 'যদি ন > ৫ {', '    থামাও;', '}'] + lines + ['দেখাও ন;']
                if jump.startswith('ফেরত'):
                    src = ['ফাং পরখ() {', '    নাম ন = ০;', '    লুপ {'] + ind(body, 2) + ['    } আবার;', '    ফেরত "শেষ";', '} ফেরত;', 'দেখাও পরখ();', 'দেখাও "পরে";']
                else:
                    src = ['নাম ন = ০;', 'লুপ {'] + ind(body) + ['} আবার;', 'দেখাও "পরে";']
                cases.append({'src': prog(src), 'kind': 'jump-only-branch', 'alone': None})
    return cases


# ---------------------------------------------------------------- every built-in with wrong argument counts and types
BUILTINS = ['_স্ট্রিং', '_সংখ্যা', '_লিস্ট-পুশ', '_লিস্ট-পপ', '_লিস্ট-লেন', '_এরর', '_স্ট্রিং-স্প্লিট', '_স্ট্রিং-জয়েন', '_টাইপ']   # the file built-ins are exercised by C20 (they touch the scratch directory)


def builtin_argument_faults():
    """(kind, expression) pairs: each built-in called with no argument, nil, wrong types, too many arguments, and lists with
    one element of the wrong type; whether a call is a fault is for the model to say"""
    out = []
    argsets = ['', 'শূ', '১', '"a"', 'সত্য', '[১]', '@{}', 'তা', 'রে', '১, ২', '"a", ১', '১, "a"', 'তা, "a"', '"a", তা', '["a", ১], ","', '[১, "a"], ","', '["a", শূ], ","', '["a", ["b"]], ","', '["a"], ১', 'তা, তা',
               'তা, ০, ০, ০', '"a", "b", "c"', 'শূ, শূ', 'তা, শূ', 'তা, "০"', 'তা, সত্য', 'ফ', 'ফ, ফ']
    for name in BUILTINS:
        for a in argsets:
            out.append(('builtin', '%s(%s)' % (name, a)))
    return out


def statement_fault_programs():
    """faults that are statements (indexed assignments through something that cannot be indexed or is not there), at
    call depths 0-2"""
    cases = []
    stmts = ['রে["নাই"]["x"] = ১;', 'রে["k"]["x"] = ১;', 'তা[০][০] = ১;', 'তা[৫][০] = ১;', 'শূ[০] = ১;', 'তা["k"] = ১;', 'রে[০] = ১;', 'অঘোষিত[০] = ১;', 'ফ[০] = ১;', 'তা[০]["k"] = ১;', 'রে["নাই"][০][১] = ১;', 'তা[১][০][০] = ২;',
             'রে["গভীর"]["নাই"]["x"] = ১;', 'তা[২][০]["নাই"]["y"] = ১;', 'সংখ্যা[০] = ১;', 'লেখা[০] = "x";', 'তা[শূ] = ১;', 'রে[শূ] = ১;', 'তা[[০]] = ১;', 'রে["k"] = অঘোষিত;', 'তা[অঘোষিত] = ১;']
    pre = ['নাম তা = [১, [২], [[৩], @{"k" -> ১,}]];', 'নাম রে = @{"k" -> ১, "গভীর" -> @{"z" -> ২,},};', 'নাম শূ;', 'নাম সংখ্যা = ৫;', 'নাম লেখা = "abc";', 'ফাং ফ() {', '} ফেরত;', 'দেখাও "আগে";']
    for st in stmts:
        for depth in (0, 1, 2):
            body = [st, 'দেখাও "লেখার পরে";']
            for d in range(depth): body = ['ফাং স্তর%s() {' % bn(d)] + ind(['দেখাও "স্তর";'] + body) + ['} ফেরত;', 'স্তর%s();' % bn(d)]
            cases.append({'src': prog(pre + body + ['দেখাও "পরে";']), 'kind': 'fault statement-level depth=%d' % depth})
    return cases
